"""Regenerate /verif/MANIFEST.json from the table below (keeps it schema-valid at all times)."""
import json
import sys
sys.path.insert(0, "/verif")

ALL = ["C%02d" % i for i in range(1, 21)]

# per claimed property: (category, text, design_ref, level_note, technique)
CLAIMED = {
    "C20": ("proof",
            "Coq theorems over a Gallina model of Resolve/resolveHttpLink/fixURLHost/matchPath: totality (no panic) for every URL record and both "
            "map orders, order independence, and iff-characterisations of username / invite / error results; instantiated on the host list "
            "regenerated from the tree. The model is tied to the code by a differential run of the extracted model against deeplinks.Resolve on "
            "tens of thousands of structured and random links per run.",
            "DESIGN.md section 8 (C20: plan) and section 11.4 / 11.6 (as built)",
            "Trusted: Coq kernel; extraction (ExtrOcamlBasic) + OCaml driver; Go harness. url.Parse output is an oracle (standard library), "
            "strings.ToLower a section variable; URL.Hostname port stripping is re-implemented in the model and compared. Theorems closed under the global context.",
            "machine-checked proof in Coq + model/implementation correspondence (extracted OCaml vs Go)"),
}

CLAIMED["C17"] = ("proof",
    "Coq theorems over a table-generic Gallina model of TryExpandError / RpcErrorToNative / the tryToProcessErr decision: totality (no panic) for every text, "
    "parameter extraction and X-substitution for every row of any table passing the decidable table_ok, plain delivery of absent / non-numeric / out-of-range "
    "parameters, description lookup with one verb, the PHONE_MIGRATE decision; one caller's reconnect-and-repeat (C17_live_migrate); the migration protocol of the repaired code as a transition system over K callers (Misc/Migrate.v): mutual exclusion, one connection per target however many callers were redirected, request accounting, deadlock freedom, and termination with every caller holding its own answer when the targets serve (C17_concurrent_migrate_*); instantiated by vm_compute on the tables regenerated from the tree on every run. "
    "Tied to the code by a differential run of the extracted model against RpcErrorToNative, TryExpandError, fmt.Sprintf and tryToProcessErr. Which table: Misc/DcConfig.v models the list NewClient builds from help.getConfig (last non-CDN option per id wins, CDN options never a target, net.JoinHostPort address incl. the bracketed IPv6 form; C17_config_*), compared with the table the real client holds after NewClient against a server whose option list varies per scenario.",
    "DESIGN.md section 8 (C17: plan) and section 11.4 / 11.6 (as built)",
    "Trusted: Coq kernel; extraction + OCaml driver; Go harness; the verif export of the tables. strconv.Atoi and the one-operand fmt.Sprintf subset are re-implemented in "
    "Gallina and compared, not proved. The live reconnect-and-repeat half of PHONE_MIGRATE is run against two in-process servers (scenarios in child processes, forced "
    "orders through the yield hook) and compared with the extracted decision function and, for several callers redirected at once, with the set of outcomes the extracted protocol model allows. Reconnect is assumed to succeed; Go's writer preference on RWMutex is not modelled (it only removes interleavings).",
    "machine-checked proof in Coq + regenerated tables + model/implementation correspondence")

CLAIMED["C01"] = ("proof",
    "Registry-generic Gallina model of the reflection encoder/decoder (TL/Types.v, TL/Codec.v) with the round-trip theorem decode(encode v) = norm v for every well-formed "
    "type universe and every well-typed value (TL/RoundTrip.v); decode(encode v) = v exactly when v is canonical (TL/Canonical.v: canonical_iff, C01_roundtrip_exact*; a non-canonical value - a bit-flag false beside a present member of its group - cannot come back unchanged, TL carries one bit per group); instantiated on the type universe regenerated from the tree by reflection on every run (Inst/C01i.v: every "
    "struct descriptor except objects.Null and objects.MsgCopy well-formed, every constructor registered under its own id). msg_container and gzip_packed have hand-written codecs, modelled in the same decoder: container round trip for every list of messages within the int32 fields of the format (TL/ContainerRT.v: C01_container_roundtrip*, counts and sizes beyond them refused), gzip_packed decodes to the normal form of the packed object under the compress/gzip oracle (C01_gzip_decodes) and is decode-only (known finding marshal-gzip). Tied to the code by running tl.Marshal / tl.Decode / tl.DecodeUnknownObject and the "
    "extracted model on the same values for every type of the universe (all flag-group presence patterns, boundary lengths, extremes), byte for byte.",
    "DESIGN.md section 8 (C01: plan) and section 11.4 / 11.6 (as built)",
    "Trusted: Coq kernel; the reflection translator and value abstraction; extraction + OCaml driver. Values outside the typing predicate (nil mandatory pointers, "
    "oversized big integers) compared by result class only. GzipPacked is decode-only in the library.",
    "machine-checked proof in Coq + regenerated registry + model/implementation correspondence")

CLAIMED["C15"] = ("proof",
    "Same decoder model with an explicit Panic outcome at every Go panic site and fuel: theorems that decoding never panics for any bytes, hints and any universe meeting the "
    "decidable np_universe condition (TL/NoPanic.v), that input-linear fuel suffices (TL/Total.v) and that every count passed to an allocation is bounded by the unread input; "
    "np_universe is re-proved on the regenerated registry each run (Inst/C15i.v). Tied to the code by decoding tens of thousands of structure-aware mutants in a child process "
    "under an address-space limit and comparing result classes and values with the extracted model.",
    "DESIGN.md section 8 (C15: plan) and section 11.4 / 11.6 (as built)",
    "Trusted: as C01; compress/gzip is an oracle (Section variable inflate); memory exhaustion is observed through the child's RLIMIT_AS, the theorem bounds the counts. "
    "gzip expansion is exempt by the property.",
    "machine-checked proof in Coq + regenerated registry + fault-enumeration correspondence")

CLAIMED["C12"] = ("proof",
    "Coq theorems over a Gallina model of the file session store (file system as path -> content x mtime, loader cache, JSON+base64 codec, salt as 8 LE bytes, "
    "filepath.Dir): for every history of Store/Load/Fresh operations over sessions whose address is valid UTF-8 (session_ok; for other addresses see the known finding and C12_hostname_not_utf8_refuted) on an initially absent file, and every mtime assignment in which a foreign write leaves a time different from the cached one, each Load returns the last stored session (absolute, "
    "relative, bare paths); histories with crashes and restarts refine the reference store; a missing file is not-found; every strict prefix of a written file is an error; "
    "all 2^64 salts round-trip; NewMTProto is `encrypted` with exactly the stored key, salt and address after any Store (resume, partial). Tied to the code by replaying "
    "thousands of random and corpus histories on real files (equal mtimes forced with Chtimes, every crash prefix) and on the extracted model.",
    "DESIGN.md section 8 (C12: plan) and section 11.4 / 11.6 (as built)",
    "Trusted: Coq kernel; extraction + OCaml driver; harness. encoding/json enters as Section hypotheses (round trip, no strict prefix unmarshals) re-checked on the real "
    "library each run; base64 is an executable Gallina implementation proved to meet its hypothesis. Resume is also run live: a client started on a written store sends no plain "
    "frame, its frames open under the stored key and salt, it reconnects after a server close without key exchange (Props/C12m.v states the pure decision).",
    "machine-checked proof in Coq + history correspondence on real files")

CLAIMED["C18"] = ("proof",
    "Coq theorems over a Gallina model of getInputCheckPassword / validateCurrentAlgo and of a reference SRP server written from Telegram's definition: for every password "
    "hash x, salts, group 1 < p < 2^2048, g, a, b and server value B = (k v + g^b) mod p passing validation the client's secret equals the server's and the server accepts M1; "
    "A is the 256-byte g^a; empty password gives the no-password answer; an answer is produced iff 0 < B < p and 248 <= len <= 256; no panic. Wrong-password rejection is "
    "proved only under explicit SHA-256 injectivity hypotheses on the compared strings (partial; unconditional rejection is a cryptographic claim). Tied to the code by "
    "exchanges against an independent math/big reference server and the extracted model (small groups fully computed, 2048-bit groups with a modexp oracle table).",
    "DESIGN.md section 8 (C18: plan) and section 11.4 / 11.6 (as built)",
    "Trusted: Coq kernel; extraction + OCaml driver; harness incl. its reference server; SHA-256 (Gallina, FIPS KATs) and big.Int.Exp = Z.pow mod (Section hypotheses); PBKDF2 always an oracle.",
    "machine-checked proof in Coq + correspondence against a reference SRP server")

CLAIMED["C02"] = ("proof",
    "A serialiser written from the TL definition alone (TL/Spec.v: ids, flags word at the `#` parameter, parameters in declaration order, vectors, Bool ids, fixed-width "
    "128/256-bit integers, length-prefixed aligned strings) driven by the schema text parsed inside Coq (TL/TLText.v), and the theorem that the encoder model produces exactly "
    "those bytes for every value whose constructors match their schema lines, and conversely (TL/SpecProofs.v); strings of 2^24 bytes and more are refused. Tied to the code by "
    "marshalling values of every schema-defined constructor with the implementation and serialising their abstraction with the extracted spec: bytes must be identical, and decode back.",
    "DESIGN.md section 8 (C02: plan) and section 11.4 / 11.6 (as built)",
    "Trusted: as C01 plus the verbatim schema embedding. The spec covers the TL subset the two schema files use.",
    "machine-checked proof in Coq + schema text parsed in Coq + byte-level correspondence")

CLAIMED["C13"] = ("proof",
    "A decidable matcher (TL/Match.v) between parsed schema definitions and the reflected Go descriptors - one registered type per definition, id = written id = CRC-32 of the "
    "canonical line (Gallina CRC-32), fields in order / type / conditional bit / flags position, type names represented consistently (enum / struct pointer / interface implemented "
    "by all constructors), nothing else registered, wrappers carry their lines' ids - with its declarative reading proved (TL/MatchProofs.v) and evaluated by the kernel on the "
    "registry and schema text regenerated from the tree on every run (Inst/C13i.v). Values of every schema-defined constructor are additionally marshalled and compared with the "
    "schema-defined bytes to turn a mismatch into a concrete input.",
    "DESIGN.md section 8 (C13: plan) and section 11.4 / 11.6 (as built)",
    "Trusted: reflection translator, schema embedding, Telethon's canonical-line rule for CRC-32. The 343 generated client methods and 3 wrappers are called end to end against "
    "the in-process reference server on every run (request bytes = the extracted schema serialisation of the function applied to distinguishable arguments, constructor id, "
    "returned value and kind): a correspondence against the Coq spec, not a theorem about Go source. Five registered types absent from the schema are a known finding.",
    "machine-checked proof in Coq + translators (registry, schema) + correspondence")

CLAIMED["C03"] = ("proof",
    "Gallina model of serializePacket / Encrypted.Serialize / DeserializeEncrypted / the unencrypted layout and the MTProto 1.0 key schedule, and a spec side (open_server, "
    "seal_server) written from the protocol description; theorems: for every key, salt, session id, msg_id, seq_no, ack flag and body a conformant server opens the client's "
    "packet to exactly those fields with fewer than 16 padding bytes, and the client opens every server-sealed packet; byte offsets of key id / msg_key / ciphertext; key "
    "schedule for x = 0 and x = 8; unencrypted messages. SHA-1 and IGE are universally quantified functions with three stated premises. Tied to the code by byte-exact "
    "comparison with the extracted model (Gallina SHA-1/AES) and an independent crypto/aes+crypto/sha1 reference.",
    "DESIGN.md section 8 (C03: plan) and section 11.4 / 11.6 (as built)",
    "Trusted: Coq kernel; extraction; harness incl. its reference envelope. Premises about SHA-1 (20 bytes) and IGE (length preserved, decryption inverts encryption on aligned "
    "data), the latter two derived for textbook IGE over any inverting block cipher; AES itself enters only through them and through FIPS known-answer Examples.",
    "machine-checked proof in Coq + byte-level correspondence (both directions)")

CLAIMED["C04"] = ("proof",
    "Same envelope model with an explicit Panic outcome at every Go panic site: acceptance implies the four checks (key id, msg_key = SHA1(decrypted header+body)[4..20], "
    "declared length inside the data, server parity) and the message is exactly the decrypted fields; no panic for any packet and ANY auth key (a key shorter than 136 bytes, in particular the nil key of a client still exchanging keys, is refused - as the code since f55fe7c); the result of a call is a function of that call alone (C04_history_independent); an "
    "accepted packet carrying the msg_key of a sealed message is that message under an explicit no-collision hypothesis on the two strings involved (partial: 'every altered "
    "packet is refused' needs an idealised hash). Tied to the code by fault enumeration on valid packets (every bit flip of short packets, every truncation, garbage under the "
    "right key id, hostile declared lengths re-sealed with the key incl. lengths congruent mod 2^8/2^16/2^24, packets re-sealed under a wrong msg_key, cancelling multi-byte alterations of key id and msg_key, short and nil keys, call sequences keeping earlier results) with outcome classes compared against the extracted model.",
    "DESIGN.md section 8 (C04: plan) and section 11.4 / 11.6 (as built)",
    "Trusted: as C03. MTProto 1.0 does not authenticate padding: a flip that only garbles plaintext padding is accepted with the identical message (counted in the evidence).",
    "machine-checked proof in Coq + fault-enumeration correspondence")

CLAIMED["C14"] = ("proof",
    "Gallina models of the tlparser cursor/line parser (with Go's UTF-8 decoding and explicit bounds panics) and of tlgen's classification/emission as descriptors; theorems: "
    "parse (print s) = Ok s for every schema of the documented subset (wf_schema), the parser never panics on any byte string, the emitted layout is exactly the schema's "
    "(both directions: every constructor/function with its id, fields in order with kind, vector marker, flag bit, FlagIndex at the flags word; nothing else), the output is "
    "independent of map iteration order (for schemas whose declared names are unique: names_ok), every declared top-level name is declared once (C14_declared_once), the j-th positional argument of a generated method lands in the field of the j-th non-flags parameter (C14_argument_map), the parser terminates on every input (C14_parse_terminates), the generator is total on well-formed input; the shipped api_121.tl is accepted (vm_compute on the text embedded each run). Tied to the "
    "code by running ParseSchema and the extracted parser on shipped, random and malformed schemas, and by compiling the real tlgen output per schema, reflecting the compiled "
    "package and comparing with the model's descriptors; generation is run twice and byte-compared.",
    "DESIGN.md section 8 (C14: plan) and section 11.4 / 11.6 (as built)",
    "Trusted: Coq kernel; extraction; harness incl. the reflection program template. strcase name mangling (goify) and sort.Slice/sort.Strings are Section variables "
    "(oracle table / sorted-permutation hypothesis). Parser termination on arbitrary input is proved (fuel length+2 suffices; proving it exposed two real hangs of ParseSchema, "
    "since fixed). 'The generated package compiles' is established by compiling, per schema.",
    "machine-checked proof in Coq + parser/generator correspondence incl. compile-and-reflect")

CLAIMED["C08"] = ("proof",
    "Gallina model of mode.New/Detect/WriteMsg/ReadMsg (Abridged, Intermediate) and transport.ReadMsg written against an abstract exact-count read, instantiated over a LIST OF "
    "CHUNKS (io.ReadFull semantics) and over the flat stream; theorems: for every mode, every list of carriable messages and EVERY chunking of announce ++ frames the reader "
    "detects the mode and returns exactly the messages then end-of-stream; the result of reading any byte stream is independent of its segmentation (parametric simulation); "
    "byte-exact headers incl. the 126/127-word boundary; a four-byte frame is surfaced as the signed 32-bit code it carries; end of stream is EOF, never a message; a stream that ends after ANY proper prefix of a frame yields exactly the complete messages before it and then an error - the "
    "incomplete frame is never a message (C08_truncated_frame_is_not_a_message, C08_client_truncated_frame; 'unexpected end' once a body byte has arrived). Tied to the "
    "code over a real loopback TCP connection owned by transport.NewTCP, the harness feeding the stream chunk by chunk behind a kernel-level barrier (all compositions of streams "
    "up to 14 bytes, 1-byte-at-a-time, random cuts, messages up to 2^20 bytes).",
    "DESIGN.md section 8 (C08: plan) and section 11.4 / 11.6 (as built)",
    "Trusted: Coq kernel; extraction; harness incl. its ioctl barrier (self-validated each run); io.ReadFull / net.TCPConn.Read semantics as modelled; in-order loopback delivery. "
    "Read deadlines and cancellation are outside the model (observed scenarios only: nothing never sent may be delivered; pieces that each arrive within the deadline must be delivered).",
    "machine-checked proof in Coq + correspondence over real loopback TCP under chosen segmentations")

CLAIMED["C05"] = ("proof",
    "Gallina model of doAES256IGEencrypt/decrypt AS WRITTEN at register/alias level (scratch blocks, x/y holding references into caller memory, Go's bounds checks) and the textbook "
    "IGE definition; theorems: the loops equal the definition for any number of blocks, decryption inverts encryption, the caller's input is never modified for every outcome, "
    "lengths 0 / not a multiple of 16 are refused with both buffers untouched; Encrypt pads to the next multiple of 16; generateTempKeys equals the MTProto formula on the raw "
    "32/16-byte nonces incl. leading zeros; the key-exchange wrapper recovers payloads of every length from a peer's ciphertext with any 0..15 aligning padding and from the client's "
    "own output (explicit SHA-1 no-collision hypothesis on the payload and its <=15 padded extensions). Generic versions take the block cipher as Section variables; instances "
    "with the Gallina AES (decrypts what it encrypts: proved, Prim/Aes256Inv.v) and SHA-1. Tied to the code through the verif export of the unexported loops, buffers compared "
    "before/after.",
    "DESIGN.md section 8 (C05: plan) and section 11.4 / 11.6 (as built)",
    "Trusted: Coq kernel; extraction; harness with its independent textbook IGE and key formula. crypto/aes = Gallina AES is validated by FIPS-197 known answers and by the "
    "correspondence, not proved. Modelling limits: in/out do not overlap; slice length = capacity.",
    "machine-checked proof in Coq + byte-level correspondence")

CLAIMED["C09"] = ("proof",
    "The client as a labelled transition system in Gallina (Client/Model.v: callers with program counters, receive loop with container recursion and gzip, response and hint "
    "tables, send lock, rendezvous channels, wire log): for EVERY label sequence (any number of callers, any interleaving, any server answer order / containers / gzip) each "
    "completed call returned the value dispatched for its own, unique msg_id, which is the body of a frame the server injected; vector values only for calls that declared hints. "
    "The key under which the receive loop looks up a message's decoder hints (reqMsgIDOf) is modelled at byte level (TL/ReqId.v) and proved to be the req_msg_id of every result, plain or packed as a whole, and 0 for everything else (C09_hint_key_*); run against the real function on bodies of every shape. "
    "The channel hand-over is one guarded step in that system; the finer system in which the receive loop walks into its send BEFORE the caller listens and waits there "
    "(Client/Rendezvous.v) is proved to reach nothing new (C09_early_handover_refines, C09_routing_early, C09_early_completion_never_refused) and is exercised on the real "
    "client (script operation `early rx`, the extracted xstep run beside step2). "
    "Tied to the code by trace validation: the real client built with -tags verif runs under a controlled scheduler (yield hooks at the model's step boundaries) against the "
    "in-process reference server; every observed trace must be accepted by the extracted step with equal projections; direct oracles for wrong answers, process death, stalls.",
    "DESIGN.md section 8 (C09-C11, C16: plan) and section 11.4 / 11.6 (as built)",
    "Trusted: Coq kernel; extraction; harness (scheduler csched, refserver, trace recorder). Blocks between yield points are taken as atomic (shared state is only touched under "
    "the send lock or through mutex-protected tables). Fairness and real time-outs assumed; the pinger and the 65 s read deadline are outside the histories.",
    "machine-checked invariants in Coq over all interleavings + trace validation of the real client")

CLAIMED["C10"] = ("proof",
    "Same transition system: along the wire log msg_ids are multiples of 4 and strictly increasing in write order, content-related messages carry odd seq_no and pure acknowledgements "
    "even ones, seq_no never decreases (below 2^30 messages), and every received content-related message, alone or inside a container, is followed by a msgs_ack naming it - also when processing the message failed (no side condition since fix 95e782e); the id generator yields a larger id for EVERY clock sequence (C10_id_generator); the parity of a seq_no is the low bit of its 32-bit pattern - as "
    "invariants proved for one step and lifted over arbitrary label lists. Tied to the code as C09 (traces replayed through the extracted step; direct oracles for id order, "
    "divisibility, clock window, parity, monotonicity, missing acks; clock regimes incl. a clock behind the last id, lock probes, the write as a step boundary, server ids and seq_nos over the full 64/32-bit range).",
    "DESIGN.md section 8 (C09-C11, C16: plan) and section 11.4 / 11.6 (as built)",
    "Trusted: as C09. 'Derived from the current time' is checked by the harness's clock-window oracle; in the model the clock reading is an arbitrary label parameter.",
    "machine-checked invariants in Coq over all interleavings + trace validation of the real client")

CLAIMED["C19"] = ("proof",
    "A verified reachability checker in Coq (Misc/Taint.v: worklist reachability proved sound and complete; secrets_ok decided exactly: secrets_ok = true <-> the graph is "
    "well-formed and for each of the four secrets - nonce, new_nonce, DH exponent, SRP ephemeral - no math/rand, time or Seed node flows into it and a crypto/rand node does) "
    "applied to the value-flow graph that a translator regenerates from the current source with go/ssa on every run (Inst/C19i.v by vm_compute). When the instance breaks the "
    "check prints the offending path (file:line per node) and a dynamic witness against the real code (identical values after identical math/rand.Seed; the DH exponent "
    "recovered from a clock reading); the dynamic probe also runs when the proof passes, as a cross-check of the translator.",
    "DESIGN.md section 8 (C19: plan) and section 11.4 / 11.6 (as built)",
    "Trusted: Coq kernel; the translator harness/flowgraph (node/edge construction over SSA, CHA call graph, classification of packages by import path, ~60 leaf contracts for "
    "std-lib functions that do not write their arguments, the four anchors). Over-approximate except three documented gaps (references parked in slice/map elements, "
    "reflect/unsafe writes, control dependence).",
    "verified graph checker in Coq + translator regenerating the flow graph from source + dynamic witness")

CLAIMED["C06"] = ("proof",
    "Gallina model of makeAuthKey byte for byte (every fixed-width conversion, RSA block layout, salt xor, new_nonce_hash1) and of a conformant server written from the MTProto "
    "key-exchange specification; C06_agreement: for ALL well-formed client draws (draws_ok: field widths) and ALL conformant server parameters the run ends Success, both sides hold the same 256-byte key, key id and "
    "salt, the server accepts every client frame, exactly one session save happens and any first encrypted request opens on the server (link to C03; under the two IGE premises of C03). RSA/DH through a modexp "
    "Section variable with the Z.pow laws; SHA-1/AES via the C05/C03 interfaces; instance with the Gallina primitives. Tied to the code by running the real CreateConnection "
    "against an in-process handshake server with the client's crypto/rand draws scripted, incl. the 24 forced leading-zero corners, exponents that make g_b a short number (every length of the inner data modulo the block), the server address given as an IP literal or as a name with a port, the temp directory on another file system than the session file, comparing outcome, every plain frame, key, "
    "id, salt on both sides, the session file and the first encrypted packet with the extracted model.",
    "DESIGN.md section 8 (C06: plan) and section 11.4 / 11.6 (as built)",
    "Trusted: Coq kernel; extraction; harness incl. hsserver. Partial: Pollard-rho SplitPQ termination is probabilistic and not proved (premise split pq <> None; whenever the loop "
    "model returns its result is the ordered factorisation); explicit SHA-1 no-collision premise on the server's answer and its <=15 padded extensions; rsa_pair (decryption "
    "inverts encryption) is part of the definition of a conformant server; ProbablyPrime soundness below 2^64 is a premise; 2048-bit Exp results enter as per-case oracle tables.",
    "machine-checked proof in Coq + handshake correspondence with scripted randomness")

CLAIMED["C07"] = ("proof",
    "Same model with the server an ARBITRARY environment (history of sent frames -> next reply): Success implies every nonce echo was equal, a fingerprint matched, the decrypted "
    "answer was SHA1(answer) ++ answer ++ (<16 bytes), the inner data echoed both nonces, new_nonce_hash1 is correct at fixed width and the reply constructors were resPQ, "
    "server_DH_params_ok, dh_gen_ok; not Success implies every effect is a plain send (no Save, no encrypted send) and no Save can follow an abort whatever arrives afterwards (C07_abort_stays_clean); whenever the server answers each request with something - a reply, an unreadable body, a transport error code, a close - the run ends Success or with an error, never stalled (C07_error_unless_silent); makeAuthKey never panics (seven premises on the library functions, discharged for the Gallina primitives in C07_no_panic_inst). Tied to the code by hundreds of "
    "single-fault scripts (every reply field x bit flip / random / other nonce / zero / the same bytes moved by one place x alternative constructors, padding and length faults) run against the real client in child "
    "processes under a watchdog: verdict, session store and frames compared with the extracted model.",
    "DESIGN.md section 8 (C07: plan) and section 11.4 / 11.6 (as built)",
    "Trusted: as C06. After every aborted and every successful exchange the scripted server keeps talking (unencrypted new_session_created / bad_server_salt / rpc_result / container / garbage): store calls counted, client state read back.",
    "machine-checked proof in Coq + fault-injection correspondence")

CLAIMED["C11"] = ("proof",
    "Extension of the client transition system (Client/Live.v, Salt.v): for every history with any number of bad_server_salt rotations and pending requests the salt in force is the "
    "newest adoption and every adoption is in the session store; each frame carries the salt adopted before it was written; a request is on the wire twice only if the earlier frame "
    "was rejected by a bad_server_salt naming exactly its id, and then under the new salt; no id is retried twice; accepted requests are never re-sent; every completed call returned "
    "the result for its newest non-rejected id; every table entry has a live owner so each send of the receive loop is eventually enabled (no stall); new_session_created adopts and "
    "saves; with a session storage that can fail the storage holds the client's salt whenever the newest SaveSession call succeeded (C11_storage_*; the harness runs failing "
    "storages and counts every SaveSession call in the projection). Tied to the code by trace validation of the real client (controlled scheduler + reference server, fresh and resumed sessions) through the extracted step2.",
    "DESIGN.md section 8 (C09-C11, C16: plan) and section 11.4 / 11.6 (as built)",
    "Trusted: as C09 plus cmd/c11 (keyex front for fresh sessions). Fairness and real time-outs assumed; pinger and read deadline outside the histories.",
    "machine-checked invariants in Coq over all histories + trace validation of the real client")

CLAIMED["C16"] = ("proof",
    "Same extended system (Client/Live.v, Alive.v): for every server history over the alphabet (every service constructor, arbitrary API objects as updates, rpc_result for unknown "
    "or already answered ids, unregistered ids, truncated bodies, nested/empty containers, transport error frames, orderly close between messages) the receive loop never reaches "
    "RDead and from every reachable keyed state with an idle caller a probe call has a schedule of client-only steps to completion; after a close the client reconnects with the same key: no key exchange, "
    "no plain frame (plain_out = 3*keyex, keyex <= 1, 0 for a loaded session); step2 is conservative over the C09/C10 system; every item of a container is dispatched whatever the others do (C16_every_item_dispatched). Tied to the code by histories run against the real "
    "client in supervised child processes (death = exit status, stall = watchdog + goroutine dump), Warnings channel nil / buffered / full / live reader, handler accepting / declining / none, followed by a probe; every registered constructor and enum id of the tree is sent as an update.",
    "DESIGN.md section 8 (C09-C11, C16: plan) and section 11.4 / 11.6 (as built)",
    "Trusted: as C11. Abortive closes (RST) and writes racing a close are outside the alphabet; a persistent non-EOF I/O error makes the loop warn on every read (it used to panic).",
    "machine-checked invariants in Coq over all server histories + supervised runs of the real client")

PENDING_REASON = "check not built yet in this round (machinery under construction; see DESIGN.md section 9 order of work)"


def main():
    checks = []
    for p in ALL:
        if p not in CLAIMED:
            continue
        cat, text, ref, note, tech = CLAIMED[p]
        checks.append({
            "property_id": p,
            "quick_cmd": "./check %s --tier quick" % p,
            "thorough_cmd": "./check %s --tier thorough" % p,
            "evidence_file": "/verif/evidence/%s.json" % p,
            "replay_cmd_template": "./check %s --replay {path}" % p,
            "engine": "coq-model+correspondence",
            "level_claimed": {"category": cat, "text": text, "design_ref": ref},
            "level_note": note,
            "technique": tech,
        })
    m = {
        "version": 1,
        "setup_cmd": "sh /verif/setup.sh",
        "hooks": {
            "guard": "verif",
            "enable": "go build -tags verif (harness modules under /verif/harness with replace => /repo)",
            "baseline_off_cmd": "for m in . internal/cmd/tlgen telegram/deeplinks; do (cd /repo/$m && GOFLAGS=-mod=mod go test -json -vet=off -count=1 -timeout 25m ./...); done",
            "source_commits": HOOK_COMMITS,
            "add_only": True,
        },
        "engines": [{
            "name": "coq-model+correspondence",
            "path": "/verif/coq, /verif/harness, /verif/check",
            "serves_properties": sorted(CLAIMED),
            "kind_free_text": "Coq 8.16.1 development (models, theorems, generated instances) + extracted OCaml model drivers + Go differential harness",
        }],
        "checks": checks,
        "not_applicable": [{"property_id": p, "reason": PENDING_REASON} for p in ALL if p not in CLAIMED],
        "notes": "Fixes of genuine defects are 'fix:' commits in /repo listed in KNOWN_FINDINGS.txt; see DESIGN.md.",
    }
    with open("/verif/MANIFEST.json", "w") as f:
        json.dump(m, f, indent=1)


HOOK_COMMITS = ["8cc65cc", "33a3c78", "794403c", "a317da0", "f05915b", "501c1c7", "51ccb51", "f886761", "ff3373d", "487aec0", "889691f"]

if __name__ == "__main__":
    main()
