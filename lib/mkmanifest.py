"""Regenerate /verif/MANIFEST.json from the table below (keeps it schema-valid at all times)."""
import json
import sys
sys.path.insert(0, "/verif")

ALL = ["C%02d" % i for i in range(1, 21)]

# per claimed property: (category, text, design_ref, level_note, technique)
CLAIMED = {
    "C20": ("proof",
            "Coq theorems over a Gallina model of Resolve/resolveHttpLink/fixURLHost/matchPath: totality (no panic) for every URL record and both "
            "map orders, order independence, and iff-characterisations of username / invite / error results; instantiated on the host list "
            "regenerated from the tree. The model is tied to the code by a differential run of the extracted model against deeplinks.Resolve on "
            "tens of thousands of structured and random links per run.",
            "DESIGN.md section 8 (C20)",
            "Trusted: Coq kernel; extraction (ExtrOcamlBasic) + OCaml driver; Go harness. url.Parse output is an oracle (standard library), "
            "strings.ToLower a section variable; URL.Hostname port stripping is re-implemented in the model and compared. Theorems closed under the global context.",
            "machine-checked proof in Coq + model/implementation correspondence (extracted OCaml vs Go)"),
}

PENDING_REASON = "check not built yet in this round (machinery under construction; see DESIGN.md section 9 order of work)"


def main():
    checks = []
    for p in ALL:
        if p not in CLAIMED:
            continue
        cat, text, ref, note, tech = CLAIMED[p]
        checks.append({
            "property_id": p,
            "quick_cmd": "./check %s --tier quick" % p,
            "thorough_cmd": "./check %s --tier thorough" % p,
            "evidence_file": "/verif/evidence/%s.json" % p,
            "replay_cmd_template": "./check %s --replay {path}" % p,
            "engine": "coq-model+correspondence",
            "level_claimed": {"category": cat, "text": text, "design_ref": ref},
            "level_note": note,
            "technique": tech,
        })
    m = {
        "version": 1,
        "setup_cmd": "sh /verif/setup.sh",
        "hooks": {
            "guard": "verif",
            "enable": "go build -tags verif (harness modules under /verif/harness with replace => /repo)",
            "baseline_off_cmd": "for m in . internal/cmd/tlgen telegram/deeplinks; do (cd /repo/$m && GOFLAGS=-mod=mod go test -json -vet=off -count=1 -timeout 25m ./...); done",
            "source_commits": HOOK_COMMITS,
            "add_only": True,
        },
        "engines": [{
            "name": "coq-model+correspondence",
            "path": "/verif/coq, /verif/harness, /verif/check",
            "serves_properties": sorted(CLAIMED),
            "kind_free_text": "Coq 8.16.1 development (models, theorems, generated instances) + extracted OCaml model drivers + Go differential harness",
        }],
        "checks": checks,
        "not_applicable": [{"property_id": p, "reason": PENDING_REASON} for p in ALL if p not in CLAIMED],
        "notes": "Fixes of genuine defects are 'fix:' commits in /repo listed in KNOWN_FINDINGS.txt; see DESIGN.md.",
    }
    with open("/verif/MANIFEST.json", "w") as f:
        json.dump(m, f, indent=1)


HOOK_COMMITS = []

if __name__ == "__main__":
    main()
