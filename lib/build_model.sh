#!/bin/sh
# build_model.sh <PROP>: extract the Coq model of one property and compile its OCaml driver.
# Needs the model's .vo files (built by make in /verif/coq). Output: /verif/build/bin/model_<PROP>
set -e
P="$1"
V=/verif
B=${VERIF_BUILD:-$V/build}
D=$B/ml/$P
mkdir -p "$D" $B/bin
cd "$D"
cp $V/coq/extract/$P/Extract.v Extract.v
coqc -Q $V/coq/theories MTV -Q $V/coq/gen MTVgen Extract.v >/dev/null
{ echo "open Model"; cat $V/coq/extract/common/mtvio.ml $V/coq/extract/$P/driver.ml; } > main.ml
rm -f model.mli
ocamlfind ocamlopt -O3 -w -a -o $B/bin/model_$P model.ml main.ml 2>/dev/null || ocamlfind ocamlopt -w -a -o $B/bin/model_$P model.ml main.ml
