"""Create the generated Coq inputs (coq/gen/*.v) from the current /repo tree so that a clean
build has them; each check regenerates its own files again on every run."""
import os
import sys
sys.path.insert(0, "/verif")
from lib import common as C  # noqa: E402


def c20():
    from lib.props import c20 as m
    hb = C.build_harness("deeplinks")
    os.makedirs(C.BUILD + "/run/C20", exist_ok=True)
    cases = C.BUILD + "/run/C20/pregen.txt"
    rc, out = C.sh([hb, "hosts", cases])
    rows = C.read_tsv(cases)
    m.write_hosts(rows[0][1:])


for f in [c20]:
    try:
        f()
    except Exception as e:  # a tree that does not build is reported by the checks themselves
        print("pregen:", f.__name__, "failed:", e)
