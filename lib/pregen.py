"""Create the generated Coq inputs (coq/gen/*.v) from the current /repo tree so that a clean
build has them; each check regenerates its own files again on every run.  Every module under
lib/props may define pregen(ctx)."""
import glob
import importlib
import os
import sys
sys.path.insert(0, "/verif")
from lib import common as C  # noqa: E402

for path in sorted(glob.glob("/verif/lib/props/*.py")):
    name = os.path.basename(path)[:-3]
    if name.startswith("_"):
        continue
    try:
        mod = importlib.import_module("lib.props." + name)
        if hasattr(mod, "pregen"):
            ctx = C.Ctx(name.upper(), "quick", 1)
            mod.pregen(ctx)
            print("pregen:", name, "ok")
    except Exception as e:  # a tree that does not build is reported by the checks themselves
        print("pregen:", name, "failed:", str(e)[:300])
