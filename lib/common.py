"""Shared machinery of ./check: building the harness and the Coq development from the
current /repo tree, running model and implementation, reporting, evidence, findings."""
import fcntl
import hashlib
import json
import os
import re
import subprocess
import sys
import time

V = "/verif"
REPO = os.environ.get("VERIF_REPO", "/repo")
BUILD = os.environ.get("VERIF_BUILD", V + "/build")
COQ = V + "/coq"
# runs against a scratch tree (VERIF_BUILD set) keep their evidence and replays apart from the committed ones
OUTDIR = BUILD if "VERIF_BUILD" in os.environ else V
BIN = BUILD + "/bin"

GOENV = dict(os.environ)
GOENV.update({
    "GOFLAGS": "-mod=mod", "GOPROXY": "off", "GOSUMDB": "off", "GOTOOLCHAIN": "local",
    "CGO_ENABLED": "0",
})


class Ctx:
    """One run of one property's check."""

    def __init__(self, prop, tier, seed):
        self.prop = prop
        self.tier = tier
        self.seed = seed
        self.t0 = time.time()
        self.violations = []      # (key, text, replay_obj)
        self.notes = []
        self.work = "%s/run/%s" % (BUILD, prop)
        os.makedirs(self.work, exist_ok=True)
        os.makedirs(BIN, exist_ok=True)
        os.makedirs(OUTDIR + "/evidence", exist_ok=True)
        os.makedirs(OUTDIR + "/replays", exist_ok=True)

    def env(self):
        e = dict(GOENV)
        e["VERIF_SEED"] = str(self.seed)
        e["VERIF_TIER"] = self.tier
        return e


def log(*a):
    print("[check]", *a, file=sys.stderr, flush=True)


def sh(cmd, cwd=None, env=None, timeout=1200, stdin=None, shell=None):
    """Run a command; returns (rc, stdout+stderr text). rc 124 on timeout."""
    if shell is None:
        shell = isinstance(cmd, str)
    try:
        p = subprocess.run(cmd, cwd=cwd, env=env or GOENV, shell=shell, stdin=stdin,
                           stdout=subprocess.PIPE, stderr=subprocess.STDOUT, timeout=timeout)
        return p.returncode, p.stdout.decode("utf-8", "replace")
    except subprocess.TimeoutExpired as e:
        out = (e.stdout or b"").decode("utf-8", "replace")
        return 124, out + "\n[timeout after %ss]" % timeout


class Lock:
    def __init__(self, name):
        # the Coq tree (/verif/coq) and the harness sources are shared by every run, whatever its
        # VERIF_BUILD: the coq lock lives in one fixed place; go locks are per build directory
        d = (V + "/build") if name == "coq" else BUILD
        os.makedirs(d, exist_ok=True)
        self.path = "%s/.lock.%s" % (d, name)

    def __enter__(self):
        self.f = open(self.path, "w")
        fcntl.flock(self.f, fcntl.LOCK_EX)
        return self

    def __exit__(self, *a):
        fcntl.flock(self.f, fcntl.LOCK_UN)
        self.f.close()


class BuildError(Exception):
    """The tree under /repo (or the framework) does not build: outside every property."""


# ---------------------------------------------------------------------------------------
# Go harness

HARNESS_MODS = {
    # name: (dir under /verif/harness, module dir under /repo whose go.sum is copied)
    "deeplinks": ("deeplinks", "telegram/deeplinks"),
    "root": ("root", "."),
    "srp": ("srp", "."),
    "tlgen": ("tlgen", "internal/cmd/tlgen"),
    # stand-alone tool modules (own go.sum, no replace => /repo): the repo root is an argument
    "flowgraph": ("flowgraph", None),
}


def write_atomic(path, text):
    """Several checks may run at the same time on one build directory: a shared generated file is replaced in one
    step, never seen half-written."""
    tmp = "%s.%d.tmp" % (path, os.getpid())
    with open(tmp, "w") as f:
        f.write(text)
    os.replace(tmp, path)


def build_harness(name, pkg=".", out=None, tags="verif", extra=()):
    """go build one harness program against the current tree (REPO, default /repo).
    The module file is copied to the build directory (-modfile) with its `replace => /repo`
    lines pointed at REPO and the repo's own go.sum beside it, so the harness sources stay
    untouched and concurrent builds against different trees do not interfere."""
    d, mod = HARNESS_MODS[name]
    hd = "%s/harness/%s" % (V, d)
    tag = pkg.strip("./").replace("/", "_") or "main"
    out = out or "%s/h_%s_%s" % (BIN, name, tag)
    md = "%s/gomod/%s" % (BUILD, name)
    os.makedirs(md, exist_ok=True)
    with Lock("go-" + name):
        txt = open(hd + "/go.mod").read().replace("=> /repo", "=> " + REPO)
        with open(md + "/go.mod", "w") as f:
            f.write(txt)
        src = ("%s/%s/go.sum" % (REPO, mod)) if mod is not None else (hd + "/go.sum")
        data = open(src, "rb").read() if os.path.exists(src) else b""
        with open(md + "/go.sum", "wb") as f:
            f.write(data)
        rc, o = sh(["go", "build", "-modfile", md + "/go.mod", "-tags", tags] + list(extra) + ["-o", out, pkg], cwd=hd, timeout=900)
    if rc != 0:
        raise BuildError("go build of harness '%s' (%s) against %s failed:\n%s" % (name, pkg, REPO, o[-4000:]))
    return out


# ---------------------------------------------------------------------------------------
# Coq

def coq_makefile():
    rc, o = sh(["sh", COQ + "/mkmake.sh"], cwd=COQ)
    if rc != 0:
        raise BuildError("coq_makefile failed: " + o)


def coq_make(targets, timeout=1500):
    """(Re)build .vo targets (paths relative to /verif/coq). Returns (ok, log)."""
    with Lock("coq"):
        coq_makefile()
        rc, o = sh(["make", "-f", "Makefile.coq", "-j16"] + list(targets), cwd=COQ, timeout=timeout)
    return rc == 0, o


GEN_WANT = {}


def want_gen(path, data=None):
    """Remember what THIS run generated into coq/gen: the directory is shared by all runs, and a concurrent run
    against another tree (scratch worktrees, VERIF_REPO) may overwrite a file between its generation and the
    moment coqc reads it.  coq_props restores the remembered bytes inside the coq lock, so that the instance
    theorems are always evaluated on the inputs of the tree this run examines.  data: bytes, str (UTF-8) or
    None (= what is on disk now)."""
    if data is None:
        data = open(path, "rb").read()
    elif isinstance(data, str):
        data = data.encode("utf-8")
    GEN_WANT[path] = data


def restore_gen():
    n = 0
    for p, t in GEN_WANT.items():
        try:
            cur = open(p, "rb").read()
        except OSError:
            cur = None
        if cur != t:
            with open(p, "wb") as f:
                f.write(t)
            n += 1
    return n


def _make_vo(target, timeout, jobs=True):
    """make one .vo; a timeout under machine load is retried once before it counts"""
    cmd = ["make", "-f", "Makefile.coq"] + (["-j16"] if jobs else []) + [target]
    rc, o = sh(cmd, cwd=COQ, timeout=timeout)
    if rc == 124:
        log("make %s timed out after %ss, retrying once" % (target, timeout))
        rc, o = sh(cmd, cwd=COQ, timeout=2 * timeout)
    return rc, o


def _is_statement_file(f):
    """Props/ and Inst/ hold the property statements: there every statement must carry its Print Assumptions.
    A proof file that a property module lists as well (e.g. Misc/MigrateProofs.v) is only required to compile and
    to report no disallowed axiom where it prints assumptions; its theorems are re-stated in Props/."""
    return "/Props/" in "/" + f or "/Inst/" in "/" + f


def _assumption_report(txt, out, strict=True):
    """(statements, printed, closed, axiom names, problem) for one property file and the coqc output of it"""
    names = re.findall(r"^\s*(?:Theorem|Lemma|Example|Corollary)\s+([A-Za-z0-9_']+)", txt, re.M)
    printed = re.findall(r"^\s*Print Assumptions\s+([A-Za-z0-9_']+)\s*\.", txt, re.M)
    closed = out.count("Closed under the global context")
    axn = []
    blocks = re.findall(r"Axioms:\n((?:[ \t]*\S.*\n?)+)", out)
    for blk in blocks:
        for line in blk.splitlines():
            m = re.match(r"^([A-Za-z0-9_.']+)\s*:", line)
            if m:
                axn.append(m.group(1))
    problem = None
    missing = [n for n in names if n not in printed]
    bad = [a for a in axn if not allowed_axiom(a)]
    if bad:
        problem = "disallowed axioms: %s" % bad
    elif missing and strict:
        problem = "no Print Assumptions under: %s" % ", ".join(missing[:8])
    elif "Section Variables:" in out:
        problem = "Print Assumptions inside an open section (reports section variables, not the global context)"
    elif closed + len(blocks) < len(printed):
        problem = ("only %d of %d Print Assumptions reported 'Closed under the global context' or a list of axioms"
                   % (closed + len(blocks), len(printed)))
    return names, printed, closed, axn, problem


def coq_props(files, timeout=1500, slow=()):
    """Force re-check of the property files (Props/Cxx.v, Inst/Cxxi.v): every theorem, corollary and example in
    them is an obligation; it is discharged iff the file compiles, every statement is followed by its
    Print Assumptions and each of those reports 'Closed under the global context' or only axioms of the allowed
    standard-library list.  Returns dict."""
    res = {"obligations": 0, "discharged": 0, "axioms": [], "failed": [], "log": "", "theorems": [], "closed": 0, "printed": 0}
    logdir = "%s/build/coqlogs" % V
    os.makedirs(logdir, exist_ok=True)
    with Lock("coq"):
        restore_gen()
        coq_makefile()
        # expensive instances: rebuilt by make only when what they depend on (the generated files) changed;
        # an up-to-date .vo was checked by the kernel against exactly the present inputs. The coqc output of the
        # last real compilation is kept beside the build so that its Print Assumptions lines are read on every run.
        for f in slow:
            src = "%s/%s" % (COQ, f)
            txt = open(src).read()
            side = "%s/%s.log" % (logdir, f.replace("/", "_"))
            vo = src[:-2] + ".vo"
            rc, o = _make_vo(f[:-2] + ".vo", timeout)
            if rc == 0 and ("COQC " + f) in o:
                with open(side, "w") as fh:
                    fh.write(o)
            elif rc == 0 and not os.path.exists(side):
                # up to date but compiled by an earlier version of the framework: compile once more for the record
                if os.path.exists(vo):
                    os.remove(vo)
                rc, o = _make_vo(f[:-2] + ".vo", timeout, jobs=False)
                if rc == 0:
                    with open(side, "w") as fh:
                        fh.write(o)
            res["log"] += o
            names = re.findall(r"^\s*(?:Theorem|Lemma|Example|Corollary)\s+([A-Za-z0-9_']+)", txt, re.M)
            res["obligations"] += len(names)
            res["theorems"] += names
            if rc != 0:
                res["failed"].append({"file": f, "log": o[-3000:]})
                continue
            _, printed, closed, axn, problem = _assumption_report(txt, open(side).read(), _is_statement_file(f))
            res["axioms"] += sorted(set(axn))
            if problem:
                res["failed"].append({"file": f, "log": problem})
                continue
            res["discharged"] += len(names)
            res["closed"] += closed
            res["printed"] += len(printed)
        for f in files:
            src = "%s/%s" % (COQ, f)
            txt = open(src).read()
            vo = src[:-2] + ".vo"
            # dependencies first (incremental), then the file itself, always
            rc, o = _make_vo(f[:-2] + ".vo", timeout)
            if rc == 0:
                if os.path.exists(vo):
                    os.remove(vo)
                rc, o = _make_vo(f[:-2] + ".vo", timeout, jobs=False)
            res["log"] += o
            names, printed, closed, axn, problem = _assumption_report(txt, o if rc == 0 else "", _is_statement_file(f))
            res["obligations"] += len(names)
            res["theorems"] += names
            if rc != 0:
                res["failed"].append({"file": f, "log": o[-3000:]})
                continue
            res["axioms"] += sorted(set(axn))
            if problem:
                res["failed"].append({"file": f, "log": problem})
                continue
            res["discharged"] += len(names)
            res["closed"] += closed
            res["printed"] += len(printed)
    res["axioms"] = sorted(set(res["axioms"]))
    return res


ALLOWED_AXIOMS = (
    "Coq.Logic.FunctionalExtensionality.functional_extensionality_dep",
    "FunctionalExtensionality.functional_extensionality_dep",
    "functional_extensionality_dep",
    "Coq.Logic.Classical_Prop.classic", "classic",
    "Coq.Logic.ProofIrrelevance.proof_irrelevance", "proof_irrelevance",
    "Coq.Logic.JMeq.JMeq_eq", "JMeq_eq",
    "Eqdep.Eq_rect_eq.eq_rect_eq", "eq_rect_eq",
)


def allowed_axiom(a):
    return a in ALLOWED_AXIOMS or a.split(".")[-1] in ("functional_extensionality_dep", "classic",
                                                        "proof_irrelevance", "JMeq_eq", "eq_rect_eq")


def build_model(prop):
    with Lock("coq"):
        rc, o = sh(["sh", V + "/lib/build_model.sh", prop], timeout=900)
    if rc != 0:
        raise BuildError("model extraction/build for %s failed:\n%s" % (prop, o[-3000:]))
    return "%s/model_%s" % (BIN, prop)


def run_model(prop, cases_path, out_path, args=(), timeout=1800):
    with open(cases_path, "rb") as fin, open(out_path, "wb") as fout:
        # the extracted programs recurse over Coq lists without tail calls: inputs of a megabyte and more need a deep stack
        import shlex
        cmd = "ulimit -s unlimited 2>/dev/null || ulimit -s 1000000 2>/dev/null; exec " + \
              " ".join(shlex.quote(a) for a in ["%s/model_%s" % (BIN, prop)] + list(args))
        p = subprocess.run(cmd, shell=True, stdin=fin, stdout=fout, stderr=subprocess.PIPE, timeout=timeout)
    if p.returncode != 0:
        raise BuildError("model driver for %s failed: %s" % (prop, p.stderr.decode()[-2000:]))


def lint_coq():
    """No Admitted/admit/Axiom/Parameter/... anywhere in the development."""
    rc, o = sh(r"grep -rnE '\b(Admitted|admit|Axiom|Parameter|Conjecture|Admit Obligations|bypass_check)\b|Unset Guard|Unset Positivity|Unset Universe|type-in-type' "
               "--include=*.v theories extract gen 2>/dev/null || true", cwd=COQ)
    bad = [l for l in o.splitlines() if l.strip() and not re.search(r"\(\*.*\b(Admitted|admit|Axiom|Parameter)\b.*\*\)", l)]
    return bad


# ---------------------------------------------------------------------------------------
# findings, replays, evidence

def known_findings():
    known, fixed = [], []
    p = V + "/KNOWN_FINDINGS.txt"
    if os.path.exists(p):
        for line in open(p):
            line = line.strip()
            m = re.match(r"^known:\s+property=(\S+)\s+key=(\S+)\s+(.*)$", line)
            if m:
                known.append((m.group(1), m.group(2), m.group(3)))
            m = re.match(r"^fixed:\s+property=(\S+)\s+(\S+)\s+(.*)$", line)
            if m:
                fixed.append((m.group(1), m.group(2), m.group(3)))
    return known, fixed


def violation(ctx, key, text, replay):
    """Record a violation. key: stable identifier of the failing input / call site / history."""
    for (k, _, _) in ctx.violations:
        if k == key:
            return
    ctx.violations.append((key, text, replay))


def finish(ctx, level, coverage, assumptions, max_report=5):
    """Filter known findings, write replays + evidence, print lines, return exit code."""
    known, _ = known_findings()
    kmap = {(p, k): t for (p, k, t) in known}
    fresh = []
    seen_known = set()
    for key, text, replay in ctx.violations:
        if (ctx.prop, key) in kmap:
            if key not in seen_known:
                seen_known.add(key)
                print("KNOWN-FINDING: property=%s %s" % (ctx.prop, kmap[(ctx.prop, key)]))
            continue
        fresh.append((key, text, replay))
    for key, text, replay in fresh[:max_report]:
        h = hashlib.sha1(key.encode()).hexdigest()[:12]
        path = "%s/replays/%s-%s.json" % (OUTDIR, ctx.prop, h)
        obj = {"property": ctx.prop, "key": key, "what": text, "seed": ctx.seed, "tier": ctx.tier}
        obj.update(replay or {})
        with open(path, "w") as f:
            json.dump(obj, f, indent=1, sort_keys=True)
        tail = " no-failing-input-found" if (replay or {}).get("no_failing_input") else ""
        print("VIOLATION property=%s replay=%s%s" % (ctx.prop, path, tail))
        log("  ", text[:400])
    ev = {
        "property_id": ctx.prop,
        "tier": ctx.tier,
        "seed": ctx.seed,
        "level": level,
        "coverage": coverage,
        "assumptions": assumptions,
        "wall_s": round(time.time() - ctx.t0, 2),
        "violations": len(fresh),
    }
    if seen_known:
        ev["coverage"]["known_findings_reproduced"] = sorted(seen_known)
    if ctx.notes:
        ev["coverage"]["notes"] = ctx.notes
    with open("%s/evidence/%s.json" % (OUTDIR, ctx.prop), "w") as f:
        json.dump(ev, f, indent=1, sort_keys=True)
    return 1 if fresh else 0


TRUSTED_COMMON = [
    "Coq 8.16.1 kernel (coqc); vm_compute used for closed computations; no native_compute",
    "extraction to OCaml with ExtrOcamlBasic only (Extract Inductive bool/option/unit/list/prod/sumbool/sumor, "
    "Extract Inlined Constant andb/orb); numbers stay Coq datatypes; ocamlfind ocamlopt 4.13.1; hex/line I/O glue coq/extract/common/mtvio.ml",
    "the Go harness (generators, classification of results) and the diff of projected observables",
]


def proof_coverage(pr, checker_cmd, extra_trusted, corr):
    cov = {
        "obligations": pr["obligations"],
        "discharged": pr["discharged"],
        "checker_cmd": checker_cmd,
        "trusted_base": TRUSTED_COMMON + list(extra_trusted),
        "theorems": pr["theorems"],
        "print_assumptions": ("%d of %d Print Assumptions report 'Closed under the global context'"
                              % (pr.get("closed", 0), pr.get("printed", 0)))
        + ("; axioms seen: %s" % pr["axioms"] if pr["axioms"] else ""),
    }
    cov.update(corr)
    return cov


def no_verdict(ctx, reason):
    """The check could not be carried out on the tree it was given (a harness that does not build or dies, a model out
    of fuel, an unmet coverage guard, an exception in the driver).  The property is then not shown to hold: that is a
    violation without a concrete failing input, reported as such; violations recorded before the failure come first."""
    print("CHECK-COULD-NOT-RUN: %s" % reason[-3000:], file=sys.stderr)
    violation(ctx, "check-could-not-run",
              "the check could not be carried out on this tree, so the property is not shown to hold: %s" % reason[-600:],
              {"no_failing_input": True, "broken_obligation": "build / correspondence stage of ./check %s" % ctx.prop,
               "reason": reason[-6000:]})
    cov = {"evaluations": 0, "distinct_nontrivial": 0,
           "rule": "no case was judged: the run stopped before the correspondence could be evaluated",
           "samples": [{"no_verdict": reason[-800:]}], "obligations": 0, "discharged": 0,
           "checker_cmd": "./check %s --tier %s" % (ctx.prop, ctx.tier), "trusted_base": TRUSTED_COMMON,
           "explanation": "the check could not be carried out; see the replay file named in the VIOLATION line"}
    return finish(ctx, "other", cov, ["no verdict was reached; nothing is claimed by this run"])


def read_tsv(path):
    rows = []
    with open(path, "r", errors="surrogateescape") as f:
        for line in f:
            line = line.rstrip("\n")
            if line:
                rows.append(line.split("\t"))
    return rows


def coq_obligation_violations(ctx, pr, what):
    """A property file that no longer checks = the property is no longer shown."""
    for fl in pr["failed"]:
        violation(ctx, "coq:" + fl["file"],
                  "%s: %s no longer checks: %s" % (what, fl["file"], fl["log"][-600:]),
                  {"no_failing_input": True, "broken_obligation": fl["file"], "log": fl["log"][-2000:]})
