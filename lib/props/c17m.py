"""C17, live half: PHONE_MIGRATE_X on the real makeRequest path against two in-process reference servers.

stage(ctx) -> dict of coverage additions; violations are recorded under keys migrate-live:<what>:<scenario>.

The harness (harness/root/cmd/e2e migrate) runs every scenario in a child process and records observations only.
Expected behaviour comes from the extracted Coq model of Misc/RpcError.v run on the DC table the live client really
holds (VerifClientDCList):  handle tbl cat dcs code text = (structured error, Switch addr | NoSuchDC | Return)
  Switch addr -> exactly one new connection, to addr (= server B); the same request bytes arrive at B once, encrypted under
                 the same key, stored salt, no plain frame (no key exchange); the call returns B's answer; the client's
                 address is addr; a later request goes to B and completes; A saw the request once;
  NoSuchDC    -> an error wrapping the structured error (fields = to_native of the model); no connection anywhere, request
                 not repeated, address unchanged, a later request completes on A;
  Return      -> the structured error itself (fields = to_native), otherwise as NoSuchDC.
A dead child (the client killed the process), a hang or a panic of the call is a violation by itself.
Other calls waiting for A at the time: they must never receive a wrong value and must still complete when answered;
that they are not re-sent to the new data centre (they wait until someone answers their old ids) is recorded as
evidence and a note; set STRICT_INFLIGHT to report it as a violation.
"""
import os
import shutil
import time

from .. import common as C
from . import c13m

STRICT_INFLIGHT = False


def unhex(h):
    return b"" if h in ("-", "") else bytes.fromhex(h)


def show(h):
    return unhex(h).decode("utf-8", "backslashreplace")


def table_lines(ctx, work):
    """'#row/#msg/#dc' lines of the tree (written by harness/root/cmd/c17 gen); reuse the run's case file if present"""
    p = ctx.work + "/cases.txt"
    if not os.path.exists(p):
        hb = C.build_harness("root", pkg="./cmd/c17")
        p = work + "/tables-cases.txt"
        rc, out = C.sh([hb, "gen", "quick", p], env=ctx.env(), timeout=600)
        if rc != 0:
            raise C.BuildError("c17 harness gen failed: " + out[-2000:])
    return [l.rstrip("\n") for l in open(p, errors="surrogateescape") if l.startswith("#")]


def spec_fields(spec):
    d = {}
    for kv in spec.split(","):
        k, v = kv.split("=", 1)
        d[k] = v
    return d


def stage(ctx):
    t0 = time.time()
    hb = c13m.build_e2e()
    work = ctx.work + "/migrate"
    os.makedirs(work, exist_ok=True)
    out = work + "/migrate.txt"
    if os.path.exists(out):
        os.remove(out)
    rc, log = C.sh([hb, "migrate", ctx.tier, out], env=c13m.scratch_env(ctx, work), timeout=3000 if ctx.tier == "thorough" else 600)
    shutil.rmtree(work + "/scratch", ignore_errors=True)
    rows = C.read_tsv(out) if os.path.exists(out) else []
    if rc != 0 or not rows or rows[-1][0] != "END":
        raise C.BuildError("e2e migrate harness failed (rc=%s): %s" % (rc, log[-3000:]))

    scen = {}
    for r in rows:
        if r[0] == "T":
            scen[r[1]] = {"spec": r[2], "dcs": r[3], "code": r[4], "text": r[5], "obs": {}, "exit": None, "stderr": ""}
    pre = {}   # observations printed before the T line (newclient set-up)
    for r in rows:
        if r[0] == "O":
            tgt = scen[r[1]]["obs"] if r[1] in scen else pre.setdefault(r[1], {})
            tgt[r[2]] = r[3:] if len(r) > 4 else (r[3] if len(r) > 3 else "")
        elif r[0] == "X":
            if r[1] in scen:
                scen[r[1]]["exit"], scen[r[1]]["stderr"] = r[2], show(r[3]) if len(r) > 3 else ""
            else:
                pre.setdefault(r[1], {})["exit"] = (r[2], show(r[3]) if len(r) > 3 else "")
    for sid, o in pre.items():
        if sid in scen:
            scen[sid]["obs"].update({k: v for k, v in o.items() if k != "exit"})
        else:
            ex = o.get("exit", ("?", ""))
            C.violation(ctx, "migrate-live:setup:%s" % sid,
                        "scenario %s ended before the request was made (exit %s): %s %s" % (sid, ex[0], {k: v for k, v in o.items() if k != "exit"}, ex[1][-400:]),
                        {"scenario": sid, "observations": {k: str(v) for k, v in o.items()}, "expected": "a connected client", "got": "set-up failed"})

    # model run on the client's own DC table
    C.build_model("C17")
    mc = work + "/model_cases.txt"
    with open(mc, "w", errors="surrogateescape") as f:
        for l in table_lines(ctx, work):
            f.write(l + "\n")
        for sid, s in sorted(scen.items(), key=lambda kv: int(kv[0])):
            f.write("M\tm%s\t%s\t%s\t%s\n" % (sid, s["dcs"], s["code"], s["text"]))
            f.write("E\te%s\t%s\t%s\n" % (sid, s["code"], s["text"]))
    mo = work + "/model_out.txt"
    C.run_model("C17", mc, mo)
    model = {}
    for f in C.read_tsv(mo):
        model[f[0]] = f[1:]

    classes = {}
    sched = {}
    infl = {"scenarios": 0, "calls": 0, "finished_unaided": 0, "finished_after_old_ids_answered": 0}
    deaths = 0
    samples = []
    abandoned = []
    for sid, s in sorted(scen.items(), key=lambda kv: int(kv[0])):
        sp = spec_fields(s["spec"])
        text = show(s["text"])
        short = "%s/%s/code%s/seq-%s/inflight%s/%s%s" % (text, sp["setup"], s["code"], sp["seq"], sp["inflight"], sp["sched"],
                                                         "/B-refuses" if sp.get("b") == "error" else "")
        o = s["obs"]
        rep = {"scenario": s["spec"], "error_text": text, "error_code": int(s["code"]), "client_dc_table": s["dcs"],
               "observations": {k: (" ".join(v) if isinstance(v, list) else v) for k, v in o.items()},
               "how_to_run": "build/bin/h_root_cmd_e2e migrate one %s '%s'" % (sid, s["spec"])}

        def bad(what, msg, expected, got):
            r = dict(rep)
            r.update({"expected": expected, "got": got})
            C.violation(ctx, "migrate-live:%s:%s" % (what, short), "rpc_error %s %r [%s]: %s" % (s["code"], text, short, msg), r)

        if s["exit"] != "0":
            deaths += 1
            bad("died" if s["exit"] == "died" else "stuck",
                "the client process %s: %s" % ("died" if s["exit"] == "died" else "did not finish", s["stderr"][:300]),
                "the call returns", "process %s\n%s" % (s["exit"], s["stderr"][-2500:]))
            continue
        if "sched" in o:
            sched[o["sched"]] = sched.get(o["sched"], 0) + 1
        if sp["setup"] == "newclient" and o.get("newclient-init-request") != "invokeWithLayer(initConnection(help.getConfig))":
            bad("newclient-init", "NewClient's initialisation request is not invokeWithLayer(initConnection(help.getConfig))",
                "invokeWithLayer(layer, initConnection(..., help.getConfig))", str(o.get("newclient-init-request")))
        mm = model.get("m" + sid)
        me = model.get("e" + sid)
        if not mm or mm[0] in ("P", "ERR") or not me or me[0] != "ok":
            C.violation(ctx, "migrate-live:model:%s" % short, "the model gives no decision for %r: %s %s" % (text, mm, me),
                        dict(rep, no_failing_input=True))
            continue
        action, maddr = mm[0], mm[1]
        want_fields = [me[3], me[1], me[2]]   # code, message hex, info
        call = o.get("call", "?")
        classes[action + " -> " + call] = classes.get(action + " -> " + call, 0) + 1
        if call in ("panic", "hang"):
            bad(call, "the call %s" % ("panics: " + show(o.get("call-detail", "-"))[:200] if call == "panic" else "never returns"),
                "a value or an error", call)
            continue
        got_fields = o.get("error-fields")
        conns = (o.get("A-new-conns"), o.get("B-new-conns"))
        if action == "switch":
            if maddr != o.get("addr-B"):
                C.violation(ctx, "migrate-live:harness:%s" % short, "the model switches to %r which is not server B" % show(maddr),
                            dict(rep, no_failing_input=True))
                continue
            if sp.get("b") == "error":
                ok_call = call == "error:self" and got_fields == ["400", "PHONE_NUMBER_INVALID".encode().hex(), "nil"]
                want_call = "the error B answered the repeated request with (400 PHONE_NUMBER_INVALID)"
            else:
                ok_call = call == "value-from-B"
                want_call = "the answer of the data centre the request was repeated at"
            checks = [
                (ok_call, "result", want_call, "%s %s" % (call, got_fields)),
                (conns == ("0", "1"), "connections", "one new connection, to the configured address", "new connections A=%s B=%s" % conns),
                (o.get("B-requests") == "1", "repeat-count", "the request repeated once at the new data centre", "%s requests at B" % o.get("B-requests")),
                (o.get("B-first-request-equals-A-request") == "true", "repeat-bytes", "the same request bytes", "different bytes"),
                (o.get("B-plain-frames") == "0" and o.get("B-unopenable-frames") == "0", "key",
                 "only frames that open under the client's existing key (no key exchange)",
                 "plain=%s unopenable=%s" % (o.get("B-plain-frames"), o.get("B-unopenable-frames"))),
                (o.get("B-first-request-salt-is-stored-salt") == "true", "salt", "the session's salt", "another salt"),
                (o.get("A-requests") == "1", "old-dc-count", "the request sent once to the old data centre", "%s requests at A" % o.get("A-requests")),
                (o.get("addr-after") == maddr, "address", "client address = %r" % show(maddr), "client address = %r" % show(o.get("addr-after", "-"))),
                (o.get("later-request") == "pong" and o.get("later-request-went-to") == "B", "later-request",
                 "a later request completes at the new data centre", "%s via %s" % (o.get("later-request"), o.get("later-request-went-to"))),
            ]
        else:
            want_class = "error:nodc" if action == "nodc" else "error:self"
            checks = [
                (call == want_class, "result",
                 "an error wrapping the structured error" if action == "nodc" else "the structured error itself", call),
                (got_fields == want_fields, "error-fields", "code/message/parameter = %s %r %s" % (want_fields[0], show(want_fields[1]), want_fields[2]),
                 "code/message/parameter = %s" % (got_fields and "%s %r %s" % (got_fields[0], show(got_fields[1]), got_fields[2]),)),
                (conns == ("0", "0"), "connections", "no reconnect", "new connections A=%s B=%s" % conns),
                (o.get("B-requests") == "0" and o.get("A-requests") == "1", "repeat-count", "the request sent once, not repeated",
                 "A=%s B=%s" % (o.get("A-requests"), o.get("B-requests"))),
                (o.get("addr-after") == o.get("addr-before"), "address", "address unchanged", "address %r" % show(o.get("addr-after", "-"))),
                (o.get("later-request") == "pong" and o.get("later-request-went-to") == "A", "later-request",
                 "a later request completes on the same connection", "%s via %s" % (o.get("later-request"), o.get("later-request-went-to"))),
            ]
        failed = False
        for ok, what, exp, got in checks:
            if not ok:
                failed = True
                bad(what, "model (Misc/RpcError.v handle) decides %s; expected %s, got %s" % (action, exp, got), exp, got)
                break
        if failed:
            continue
        n = int(sp["inflight"])
        if n > 0:
            infl["scenarios"] += 1
            infl["calls"] += n
            un = int(o.get("inflight-finished-unaided", "0"))
            late = int(o.get("inflight-finished-after-late-answer", "0"))
            infl["finished_unaided"] += un
            infl["finished_after_old_ids_answered"] += late
            res = o.get("inflight-results", "").split(",")
            wantres = ["pong:%d" % (9000 + i) for i in range(n)]
            if late != n or res != wantres:
                bad("inflight-lost" if "waiting" in res else "inflight-wrong-result",
                    "calls that were waiting for the old data centre: %s" % res, "each completes with its own answer once answered: %s" % wantres, str(res))
                continue
            if action == "switch" and un < n:
                abandoned.append(short)
        if len(samples) < 6 and int(sid) % 5 == 1:
            samples.append({"scenario": short, "model": action, "live": call, "connections_new_A_B": list(conns)})

    if abandoned:
        txt = ("calls waiting for the old data centre when another call is migrated are neither re-sent to the new data centre nor failed: "
               "they wait until their old msg_ids are answered (a real data centre never saw them); observed in %d scenarios, e.g. %s"
               % (len(abandoned), abandoned[0]))
        ctx.notes.append(txt)
        if STRICT_INFLIGHT:
            C.violation(ctx, "migrate-live:inflight-abandoned", txt, {"scenarios": abandoned[:20], "expected": "re-sent or failed", "got": "wait forever"})
    if sched.get("unavailable"):
        ctx.notes.append("the tree has no yield point between Disconnect and CreateConnection (hook commit 'verif hook: yield point between Disconnect "
                         "and CreateConnection in Reconnect' missing): the scheduled orders ack-after-close / read-after-close were run unscheduled")
    if not samples:
        samples.append({"note": "no sample selected"})
    cov = {
        "scenarios": len(scen), "process_deaths_or_timeouts": deaths,
        "model_decision_to_live_outcome": classes, "scheduled_orders": sched,
        "other_calls_in_flight": infl,
        "other_calls_in_flight_reading": "finished_unaided counts calls that came back within 300 ms of the migration without anybody answering them; "
                                         "after that the server the client is connected to answers their old msg_ids",
        "rule": "rpc_error texts {PHONE_MIGRATE_<configured id>, <unconfigured id>, literal X, non-numeric, empty, out of range, other *_MIGRATE_ and plain errors} x "
                "set-up {SetDCList on a connected client, telegram.NewClient fed by help.getConfig} x seq_no of the error message {needs ack, does not} x "
                "{0,1,2} other calls waiting x {free run, receive loop's ack held until the caller has closed the old socket, its next read held likewise, its next read held until the caller has switched to the new data centre and repeated the request}; "
                "every scenario in its own process; decision compared with the extracted handle/to_native on the DC table read from the live client",
        "samples": samples, "migrate_stage_wall_s": round(time.time() - t0, 1),
    }
    return {"phone_migrate_live": cov}


def replay(ctx, path):
    """re-run the stage under the replay's tier and seed; the finding is reproduced iff its key is reported again"""
    import json
    obj = json.load(open(path))
    ctx.tier = obj.get("tier", ctx.tier)
    ctx.seed = obj.get("seed", ctx.seed)
    stage(ctx)
    hit = [v for v in ctx.violations if v[0] == obj.get("key")]
    print("scenario=%s expected=%s got=%s" % (obj.get("scenario"), obj.get("expected"), hit[0][2].get("got") if hit else "as expected"))
    if hit:
        print("VIOLATION property=%s replay=%s" % (ctx.prop, path))
        return 1
    return 0
