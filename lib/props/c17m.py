"""C17, live half: PHONE_MIGRATE_X on the real makeRequest path against two in-process reference servers.

stage(ctx) -> dict of coverage additions; violations are recorded under keys migrate-live:<what>:<scenario>.

The harness (harness/root/cmd/e2e migrate) runs every scenario in a child process and records observations only.
Expected behaviour comes from the extracted Coq model of Misc/RpcError.v run on the DC table the live client really
holds (VerifClientDCList):  handle tbl cat dcs code text = (structured error, Switch addr | NoSuchDC | Return)
  Switch addr -> exactly one new connection, to addr (= server B); the same request bytes arrive at B once, encrypted under
                 the same key, stored salt, no plain frame (no key exchange); the call returns B's answer; the client's
                 address is addr; a later request goes to B and completes; A saw the request once;
  NoSuchDC    -> an error wrapping the structured error (fields = to_native of the model); no connection anywhere, request
                 not repeated, address unchanged, a later request completes on A;
  Return      -> the structured error itself (fields = to_native), otherwise as NoSuchDC.
A dead child (the client killed the process), a hang or a panic of the call is a violation by itself.
Other calls waiting for A at the time: they must never receive a wrong value and must still complete when answered;
that they are not re-sent to the new data centre (they wait until someone answers their old ids) is recorded as
evidence and a note; set STRICT_INFLIGHT to report it as a violation.

Several callers answered with PHONE_MIGRATE_X at once (spec kind=multi, harness migrate_multi.go): every caller must come
back with its OWN answer from a data centre it was sent to, the caller answered normally in between gets its pong, nobody
dies, panics, hangs or gets an error, a later request completes; for equal X the request of each caller arrives exactly
once at the data centre of X and nowhere else.  Finally the projected outcome (which data centre received whose request how
often, who answered whom, connections per data centre, final address) must be one of the outcomes the Coq protocol model
Misc/Migrate.v can end in (all interleavings explored by the extracted step function; theorems C17_concurrent_migrate_*).

Confirm before report: the verdicts of this half depend on a live TCP client under load.  Every failing scenario is run
again alone with 4x the watchdog and 4x the settle pauses (racing scenarios up to 3 times); it is reported only if the
same check fails again.  coverage.timing_retries counts the re-runs, timing_not_reproduced the verdicts dropped.
"""
import os
import shutil
import time

from .. import common as C
from . import c13m

STRICT_INFLIGHT = False
MAX_CONFIRMED = 2   # confirmation re-runs of hangs are slow (4x watchdog each): stop confirming after this many violations


def unhex(h):
    return b"" if h in ("-", "") else bytes.fromhex(h)


def show(h):
    return unhex(h).decode("utf-8", "backslashreplace")


def table_lines(ctx, work):
    """'#row/#msg/#dc' lines of the tree (written by harness/root/cmd/c17 gen); reuse the run's case file if present"""
    p = ctx.work + "/cases.txt"
    if not os.path.exists(p):
        hb = C.build_harness("root", pkg="./cmd/c17")
        p = work + "/tables-cases.txt"
        rc, out = C.sh([hb, "gen", "quick", p], env=ctx.env(), timeout=600)
        if rc != 0:
            raise C.BuildError("c17 harness gen failed: " + out[-2000:])
    return [l.rstrip("\n") for l in open(p, errors="surrogateescape") if l.startswith("#")]


def spec_fields(spec):
    d = {}
    for kv in spec.split(","):
        k, v = kv.split("=", 1)
        d[k] = v
    return d


def rerun(ctx, hb, work, sid, s, procs=None):
    """one scenario again, alone, with 4x the watchdog and settle pauses; returns a scenario dict or None.
    procs: GOMAXPROCS of the re-run (None = the machine's).  A failure that depends on WHEN a freshly started goroutine
    first runs (a loop variable captured by `go func`, a send racing with a registration) shows under load and may not
    show on an idle machine; one processor is a legitimate schedule on which such a goroutine runs late."""
    out = work + "/rerun.txt"
    if os.path.exists(out):
        os.remove(out)
    e = c13m.scratch_env(ctx, work)
    e["VERIF_TIMESCALE"] = "4"
    e["VERIF_WATCHDOG_MS"] = str(4 * int(os.environ.get("VERIF_WATCHDOG_MS", "10000")))
    if procs:
        e["GOMAXPROCS"] = str(procs)
    rc, log = C.sh([hb, "migrate", "rerun", out, sid, s["spec"]], env=e, timeout=1200)
    shutil.rmtree(work + "/scratch", ignore_errors=True)
    rows = C.read_tsv(out) if os.path.exists(out) else []
    if rc != 0 or not rows or rows[-1][0] != "END":
        return None
    r2 = {"spec": s["spec"], "dcs": s["dcs"], "code": s["code"], "text": s["text"], "obs": {}, "exit": None, "stderr": ""}
    seen_t = False
    for r in rows:
        if r[0] == "T":
            seen_t = True
            r2["dcs"] = r[3]
        elif r[0] == "O":
            r2["obs"][r[2]] = r[3:] if len(r) > 4 else (r[3] if len(r) > 3 else "")
        elif r[0] == "X":
            r2["exit"], r2["stderr"] = r[2], show(r[3]) if len(r) > 3 else ""
    if not seen_t:
        return None
    return r2


def judge_multi(ctx, sid, s, sp, st, count, model):
    o = s["obs"]
    xs = sp["xs"].split("+")
    short = "multi/PHONE_MIGRATE_%s/normal%s/seq-%s/%s%s" % ("+".join(xs), sp["normal"], sp["seq"], sp["sched"],
                                                            "/GOMAXPROCS=" + sp["procs"] if sp.get("procs") else "")
    rep = {"scenario": s["spec"], "observations": {k: (" ".join(v) if isinstance(v, list) else v) for k, v in o.items()},
           "history": "%d callers send auth.sendCode with their own phone numbers to A%s; A answers all in one container: rpc_error 303 PHONE_MIGRATE_%s%s; "
                      "data centres 2 and 12 live at B, 3 at C; order of the callers: %s"
                      % (len(xs), ", one more caller sends a ping" if sp["normal"] == "1" else "", ", PHONE_MIGRATE_".join(xs),
                         " with the pong after the first" if sp["normal"] == "1" else "", sp["sched"]),
           "how_to_run": "build/bin/h_root_cmd_e2e migrate one %s '%s'" % (sid, s["spec"])}

    def bad(what, msg, expected, got):
        return {"what": what, "short": short, "msg": "%d callers answered with PHONE_MIGRATE_X at once [%s]: %s" % (len(xs), short, msg),
                "expected": expected, "got": got, "rep": rep}

    if s["exit"] != "0":
        return bad("died" if s["exit"] == "died" else "stuck",
                   "the client process %s: %s" % ("died" if s["exit"] == "died" else "did not finish", s["stderr"][:300]),
                   "every call returns", "process %s\n%s" % (s["exit"], s["stderr"][-2500:]))
    dcs = {"2": "B", "12": "B", "3": "C", "2>3": "C", "12>3": "C", "3>2": "B"}
    chain = any(">" in x for x in xs)
    same = len(set(dcs[x] for x in xs)) == 1
    allowed = set(dcs[x] for x in xs)
    if count and st is not None:
        m = st["multi"]
        m["scenarios"] += 1
        m["callers"] += len(xs)
        m["new_connections"][o.get("new-conns", "?")] = m["new_connections"].get(o.get("new-conns", "?"), 0) + 1
        if "sched" in o:
            st["sched"]["multi:" + o["sched"]] = st["sched"].get("multi:" + o["sched"], 0) + 1
    for i, x in enumerate(xs):
        got = o.get("caller-%d" % i, "?")
        if count and st is not None:
            k = got if not got.startswith("foreign") else "foreign-answer"
            st["multi"]["outcomes"][k] = st["multi"]["outcomes"].get(k, 0) + 1
        want = "own-answer-from-" + dcs[x] if same else "its own answer from one of the data centres named (%s)" % "/".join(sorted(allowed))
        ok = got == "own-answer-from-" + dcs[x] if same else got in ["own-answer-from-" + a for a in allowed]
        if not ok:
            what = {"hang": "hang", "panic": "panic"}.get(got, "foreign-answer" if got.startswith("foreign") else "result")
            detail = ""
            if got == "panic":
                detail = ": " + show(o.get("caller-%d-detail" % i, "-"))[:200]
            return bad("multi-" + what, "caller %d (PHONE_MIGRATE_%s) ends with %s%s; its request arrived at %s (connections: %s)"
                       % (i, x, got, detail, o.get("caller-%d-repeats" % i), o.get("caller-%d-arrived-on" % i)), want, got + detail)
        if same:
            reps = o.get("caller-%d-repeats" % i, "")
            via = {"2>3": "B", "12>3": "B", "3>2": "C"}.get(x)
            wantreps = ",".join("%s:%d" % (n, 1 if n in (dcs[x], via) else 0) for n in "ABC")
            if reps != wantreps:
                return bad("multi-repeat-count", "the request of caller %d arrived %s" % (i, reps),
                           "repeated once at the data centre of X and nowhere else (%s)" % wantreps, reps)
    if sp["normal"] == "1" and o.get("normal-caller") != "pong:7777":
        return bad("multi-normal-caller", "the caller answered normally by the old data centre in between ends with %s" % o.get("normal-caller"),
                   "pong:7777", str(o.get("normal-caller")))
    if o.get("addr-after") not in allowed:
        return bad("multi-address", "the client's address afterwards is that of %s" % o.get("addr-after"), "/".join(sorted(allowed)), str(o.get("addr-after")))
    if o.get("later-request") != "pong" or o.get("later-request-went-to") != o.get("addr-after"):
        return bad("multi-later-request", "a later request: %s via %s" % (o.get("later-request"), o.get("later-request-went-to")),
                   "completes at the data centre the client is at (%s)" % o.get("addr-after"), "%s via %s" % (o.get("later-request"), o.get("later-request-went-to")))
    if chain:
        # a request redirected twice is outside the protocol model of Misc/Migrate.v (one target per caller); the sequential model
        # decides it (Misc/RpcError.v make_request, C17_live_migrate_twice): written once to each data centre on the way, answered by the last
        if count and st is not None:
            st["multi"]["redirected_twice"] = st["multi"].get("redirected_twice", 0) + 1
        return None
    # the outcome must be one the protocol model (Misc/Migrate.v, proved properties) can end in: explored exhaustively by the
    # extracted step function from the state in which every caller has written its request to A and waits
    mo = model.get("r" + sp["xs"])
    if not mo or len(mo) < 2:
        return bad("multi-model-missing", "the protocol model gave no outcomes for %s" % sp["xs"], "a set of outcomes", str(mo))
    proj = []
    for i in range(len(xs)):
        reps = dict(kv.split(":") for kv in o.get("caller-%d-repeats" % i, "").split(","))
        proj.append("c%d=A%sB%sC%s>%s" % (i, reps.get("A"), reps.get("B"), reps.get("C"), o.get("caller-%d" % i, "?").rsplit("-", 1)[-1]))
    nc = dict(kv.split(":") for kv in o.get("new-conns", "").split(","))
    proj.append("conns=A%sB%sC%s" % (nc.get("A"), nc.get("B"), nc.get("C")))
    proj.append("addr=%s" % o.get("addr-after"))
    proj = ";".join(proj)
    allowed_outcomes = mo[1].split("|")
    if count and st is not None:
        st["multi"]["outcomes_checked_against_protocol_model"] = st["multi"].get("outcomes_checked_against_protocol_model", 0) + 1
        st["multi"].setdefault("protocol_model_states_explored", {})[sp["xs"]] = int(mo[0])
        st["multi"].setdefault("distinct_observed_outcomes", set()).add(sp["xs"] + ":" + proj)
    if proj not in allowed_outcomes:
        return bad("multi-model", "the observed outcome %s is none of the %d outcomes the protocol model can reach" % (proj, len(allowed_outcomes)),
                   "one of: " + " | ".join(allowed_outcomes[:12]) + (" ..." if len(allowed_outcomes) > 12 else ""), proj)
    if count and st is not None and len(st["samples"]) < 9 and int(sid) % 4 == 1:
        st["samples"].append({"scenario": short, "callers": [o.get("caller-%d" % i) for i in range(len(xs))], "new_connections": o.get("new-conns"),
                              "projection": proj})
    return None


def judge(ctx, sid, s, model, st, count):
    """verdict of one scenario: None, or {what, short, msg, expected, got, rep}; statistics go to st when count is set"""
    sp = spec_fields(s["spec"])
    if sp.get("kind") == "multi":
        return judge_multi(ctx, sid, s, sp, st, count, model)
    if st is None:
        st = {"classes": {}, "sched": {}, "infl": {"scenarios": 0, "calls": 0, "finished_unaided": 0, "finished_after_old_ids_answered": 0,
                                                    "repeated_at_new_dc": 0}, "deaths": 0, "samples": [], "abandoned": [], "multi": {}}
    classes, sched, infl, samples, abandoned = st["classes"], st["sched"], st["infl"], st["samples"], st["abandoned"]
    text = show(s["text"])
    short = "%s/%s/code%s/seq-%s/inflight%s/%s%s" % (text, sp["setup"], s["code"], sp["seq"], sp["inflight"], sp["sched"],
                                                     ("/B-refuses" if sp.get("b") == "error" else "") +
                                                     ("/GOMAXPROCS=" + sp["procs"] if sp.get("procs") else ""))
    o = s["obs"]
    rep = {"scenario": s["spec"], "error_text": text, "error_code": int(s["code"]), "client_dc_table": s["dcs"],
           "observations": {k: (" ".join(v) if isinstance(v, list) else v) for k, v in o.items()},
           "how_to_run": "build/bin/h_root_cmd_e2e migrate one %s '%s'" % (sid, s["spec"])}

    def bad(what, msg, expected, got, no_input=False):
        return {"what": what, "short": short, "msg": "rpc_error %s %r [%s]: %s" % (s["code"], text, short, msg),
                "expected": expected, "got": got, "rep": rep, "no_failing_input": no_input}

    if s["exit"] != "0":
        return bad("died" if s["exit"] == "died" else "stuck",
                   "the client process %s: %s" % ("died" if s["exit"] == "died" else "did not finish", s["stderr"][:300]),
                   "the call returns", "process %s\n%s" % (s["exit"], s["stderr"][-2500:]))
    if "sched" in o:
        sched[o["sched"]] = sched.get(o["sched"], 0) + 1
    if sp["setup"] == "newclient" and o.get("newclient-init-request") != "invokeWithLayer(initConnection(help.getConfig))":
        return bad("newclient-init", "NewClient's initialisation request is not invokeWithLayer(initConnection(help.getConfig))",
                   "invokeWithLayer(layer, initConnection(..., help.getConfig))", str(o.get("newclient-init-request")))
    if sp["setup"] == "newclient" and o.get("newclient-ipv6-entry") != "ok":
        return bad("newclient-ipv6-dc", "the DC table NewClient builds from help.getConfig holds, for the IPv6 option {id 14, 2001:db8::e, port 443}, "
                   "an address that cannot be taken apart into that host and port again: a PHONE_MIGRATE_14 could not be followed",
                   "[2001:db8::e]:443", str(o.get("newclient-ipv6-entry")))
    if sp["setup"] == "newclient" and o.get("newclient-config"):
        mc = model.get("c" + sid)
        if not mc:
            return bad("model", "the model gives no DC table for the config of scenario %s" % sid, "a table", "none", no_input=True)
        held = dict(kv.split("=", 1) for kv in s["dcs"].split(",") if "=" in kv)
        if count:
            st["config_tables_compared"] = st.get("config_tables_compared", 0) + 1
        for kv in ([] if mc[0] == "-" else mc[0].split(",")):
            k, want = kv.split("=", 1)
            got = held.get(k, "-")
            if got != want:
                unhex = lambda h: "absent" if h == "-" else bytes.fromhex(h).decode("utf-8", "replace")
                return bad("newclient-dc-table", "the DC table NewClient builds from help.getConfig (options %s) holds %s for DC %s; the last non-CDN "
                           "option for that id gives %s (Misc/DcConfig.v config_table)" % (o.get("newclient-config"), unhex(got), k, unhex(want)),
                           unhex(want), unhex(got))
    mm = model.get("m" + sid)
    me = model.get("e" + sid)
    if not mm or mm[0] in ("P", "ERR") or not me or me[0] != "ok":
        return bad("model", "the model gives no decision for %r: %s %s" % (text, mm, me), "a decision", "none", no_input=True)
    action, maddr = mm[0], mm[1]
    want_fields = [me[3], me[1], me[2]]   # code, message hex, info
    call = o.get("call", "?")
    classes[action + " -> " + call] = classes.get(action + " -> " + call, 0) + 1
    if call in ("panic", "hang"):
        return bad(call, "the call %s" % ("panics: " + show(o.get("call-detail", "-"))[:200] if call == "panic" else "never returns"),
                   "a value or an error", call)
    got_fields = o.get("error-fields")
    conns = (o.get("A-new-conns"), o.get("B-new-conns"))
    if action == "switch":
        if maddr != o.get("addr-B"):
            return bad("harness", "the model switches to %r which is not server B" % show(maddr), "server B", show(maddr), no_input=True)
        if sp.get("b") == "error":
            ok_call = call == "error:self" and got_fields == ["400", "PHONE_NUMBER_INVALID".encode().hex(), "nil"]
            want_call = "the error B answered the repeated request with (400 PHONE_NUMBER_INVALID)"
        else:
            ok_call = call == "value-from-B"
            want_call = "the answer of the data centre the request was repeated at"
        checks = [
            (ok_call, "result", want_call, "%s %s" % (call, got_fields)),
            (conns == ("0", "1"), "connections", "one new connection, to the configured address", "new connections A=%s B=%s" % conns),
            (o.get("B-requests") == "1", "repeat-count", "the request repeated once at the new data centre", "%s requests at B" % o.get("B-requests")),
            (o.get("B-first-request-equals-A-request") == "true", "repeat-bytes", "the same request bytes", "different bytes"),
            (o.get("B-plain-frames") == "0" and o.get("B-unopenable-frames") == "0", "key",
             "only frames that open under the client's existing key (no key exchange)",
             "plain=%s unopenable=%s" % (o.get("B-plain-frames"), o.get("B-unopenable-frames"))),
            (o.get("B-first-request-salt-is-stored-salt") == "true", "salt", "the session's salt", "another salt"),
            (o.get("A-requests") == "1", "old-dc-count", "the request sent once to the old data centre", "%s requests at A" % o.get("A-requests")),
            (o.get("addr-after") == maddr, "address", "client address = %r" % show(maddr), "client address = %r" % show(o.get("addr-after", "-"))),
            (o.get("later-request") == "pong" and o.get("later-request-went-to") == "B", "later-request",
             "a later request completes at the new data centre", "%s via %s" % (o.get("later-request"), o.get("later-request-went-to"))),
        ]
    else:
        want_class = "error:nodc" if action == "nodc" else "error:self"
        checks = [
            (call == want_class, "result",
             "an error wrapping the structured error" if action == "nodc" else "the structured error itself", call),
            (got_fields == want_fields, "error-fields", "code/message/parameter = %s %r %s" % (want_fields[0], show(want_fields[1]), want_fields[2]),
             "code/message/parameter = %s" % (got_fields and "%s %r %s" % (got_fields[0], show(got_fields[1]), got_fields[2]),)),
            (conns == ("0", "0"), "connections", "no reconnect", "new connections A=%s B=%s" % conns),
            (o.get("B-requests") == "0" and o.get("A-requests") == "1", "repeat-count", "the request sent once, not repeated",
             "A=%s B=%s" % (o.get("A-requests"), o.get("B-requests"))),
            (o.get("addr-after") == o.get("addr-before"), "address", "address unchanged", "address %r" % show(o.get("addr-after", "-"))),
            (o.get("later-request") == "pong" and o.get("later-request-went-to") == "A", "later-request",
             "a later request completes on the same connection", "%s via %s" % (o.get("later-request"), o.get("later-request-went-to"))),
        ]
    for ok, what, exp, got in checks:
        if not ok:
            return bad(what, "model (Misc/RpcError.v handle) decides %s; expected %s, got %s" % (action, exp, got), exp, got)
    n = int(sp["inflight"])
    if n > 0:
        un = int(o.get("inflight-finished-unaided", "0"))
        late = int(o.get("inflight-finished-after-late-answer", "0"))
        resent = int(o.get("inflight-repeated-at-current-dc", "0"))
        if count:
            infl["scenarios"] += 1
            infl["calls"] += n
            infl["finished_unaided"] += un
            infl["finished_after_old_ids_answered"] += late
            infl["repeated_at_new_dc"] += resent if action == "switch" else 0
        res = o.get("inflight-results", "").split(",")
        wantres = ["pong:%d" % (9000 + i) for i in range(n)]
        if late != n or res != wantres:
            return bad("inflight-lost" if "waiting" in res else "inflight-wrong-result",
                       "calls that were waiting for the old data centre: %s" % res, "each completes with its own answer once answered: %s" % wantres, str(res))
        if action == "switch" and un < n and resent < n and count:
            abandoned.append(short)
    if count and len(samples) < 6 and int(sid) % 5 == 1:
        samples.append({"scenario": short, "model": action, "live": call, "connections_new_A_B": list(conns)})
    return None


def stage(ctx):
    t0 = time.time()
    hb = c13m.build_e2e()
    work = ctx.work + "/migrate"
    os.makedirs(work, exist_ok=True)
    out = work + "/migrate.txt"
    if os.path.exists(out):
        os.remove(out)
    rc, log = C.sh([hb, "migrate", ctx.tier, out], env=c13m.scratch_env(ctx, work), timeout=3000 if ctx.tier == "thorough" else 600)
    shutil.rmtree(work + "/scratch", ignore_errors=True)
    rows = C.read_tsv(out) if os.path.exists(out) else []
    if rc != 0 or not rows or rows[-1][0] != "END":
        raise C.BuildError("e2e migrate harness failed (rc=%s): %s" % (rc, log[-3000:]))

    scen = {}
    for r in rows:
        if r[0] == "T":
            scen[r[1]] = {"spec": r[2], "dcs": r[3], "code": r[4], "text": r[5], "obs": {}, "exit": None, "stderr": ""}
    pre = {}   # observations printed before the T line (newclient set-up)
    for r in rows:
        if r[0] == "O":
            tgt = scen[r[1]]["obs"] if r[1] in scen else pre.setdefault(r[1], {})
            tgt[r[2]] = r[3:] if len(r) > 4 else (r[3] if len(r) > 3 else "")
        elif r[0] == "X":
            if r[1] in scen:
                scen[r[1]]["exit"], scen[r[1]]["stderr"] = r[2], show(r[3]) if len(r) > 3 else ""
            else:
                pre.setdefault(r[1], {})["exit"] = (r[2], show(r[3]) if len(r) > 3 else "")
    for sid, o in pre.items():
        if sid in scen:
            scen[sid]["obs"].update({k: v for k, v in o.items() if k != "exit"})
        else:
            ex = o.get("exit", ("?", ""))
            C.violation(ctx, "migrate-live:setup:%s" % sid,
                        "scenario %s ended before the request was made (exit %s): %s %s" % (sid, ex[0], {k: v for k, v in o.items() if k != "exit"}, ex[1][-400:]),
                        {"scenario": sid, "observations": {k: str(v) for k, v in o.items()}, "expected": "a connected client", "got": "set-up failed"})

    # model run on the client's own DC table
    C.build_model("C17")
    mc = work + "/model_cases.txt"
    multi_xs = set()
    with open(mc, "w", errors="surrogateescape") as f:
        for l in table_lines(ctx, work):
            f.write(l + "\n")
        for sid, s in sorted(scen.items(), key=lambda kv: int(kv[0])):
            sp0 = spec_fields(s["spec"])
            if sp0.get("kind") == "multi":
                if sp0["xs"] not in multi_xs and ">" not in sp0["xs"]:
                    multi_xs.add(sp0["xs"])
                    f.write("R\tr%s\t%s\n" % (sp0["xs"], sp0["xs"]))   # all outcomes of the protocol model (Misc/Migrate.v)
                continue
            f.write("M\tm%s\t%s\t%s\t%s\n" % (sid, s["dcs"], s["code"], s["text"]))
            f.write("E\te%s\t%s\t%s\n" % (sid, s["code"], s["text"]))
            if s["obs"].get("newclient-config"):
                f.write("C\tc%s\t%s\n" % (sid, s["obs"]["newclient-config"]))   # Misc/DcConfig.v: the table of that config
    mo = work + "/model_out.txt"
    C.run_model("C17", mc, mo)
    model = {}
    for f in C.read_tsv(mo):
        model[f[0]] = f[1:]

    st = {"classes": {}, "sched": {}, "infl": {"scenarios": 0, "calls": 0, "finished_unaided": 0, "finished_after_old_ids_answered": 0,
                                                 "repeated_at_new_dc": 0},
          "deaths": 0, "samples": [], "abandoned": [], "multi": {"scenarios": 0, "callers": 0, "outcomes": {}, "new_connections": {}}}
    retries = 0
    dropped = []
    skipped = []
    seen_keys = set()
    confirmed_keys = []
    for sid, s in sorted(scen.items(), key=lambda kv: int(kv[0])):
        fail = judge(ctx, sid, s, model, st, count=True)
        if fail is None:
            continue
        # confirm before report: alone, 4x the time bounds
        key = "%s:%s" % (fail["what"], fail["short"])
        if key in seen_keys:
            continue            # this verdict of this scenario shape is already confirmed (or dropped) in this run
        if len(confirmed_keys) >= MAX_CONFIRMED:
            skipped.append(key)  # enough confirmed violations to fail the check; the others are only listed
            continue
        seen_keys.add(key)
        racing = "sched=free" in s["spec"]
        confirmed = None
        for procs in ([None, None, None] if racing else [None]) + [1, 2]:
            retries += 1
            again = rerun(ctx, hb, work, sid, s, procs)
            if again is None:
                continue
            # the re-run has servers of its own (other ports): the model decides on THAT client's DC table
            model2 = dict(model)
            if spec_fields(s["spec"]).get("kind") != "multi":
                mc2, mo2 = work + "/model_cases_rerun.txt", work + "/model_out_rerun.txt"
                with open(mc2, "w", errors="surrogateescape") as f:
                    for l in table_lines(ctx, work):
                        f.write(l + "\n")
                    f.write("M\tm%s\t%s\t%s\t%s\n" % (sid, again["dcs"], again["code"], again["text"]))
                    f.write("E\te%s\t%s\t%s\n" % (sid, again["code"], again["text"]))
                    if again["obs"].get("newclient-config"):
                        f.write("C\tc%s\t%s\n" % (sid, again["obs"]["newclient-config"]))
                C.run_model("C17", mc2, mo2)
                for fl in C.read_tsv(mo2):
                    model2[fl[0]] = fl[1:]
            f2 = judge(ctx, sid, again, model2, None, count=False)
            if f2 is not None and f2["what"] == fail["what"]:
                confirmed = f2
                break
        if confirmed is None:
            dropped.append(key)
            continue
        confirmed_keys.append(key)
        if confirmed["what"] in ("died", "stuck"):
            st["deaths"] += 1
        rep = dict(confirmed["rep"])
        rep.update({"expected": confirmed["expected"], "got": confirmed["got"], "confirmed_alone_with_4x_time_bounds": True, "confirmed_with_GOMAXPROCS": procs or "default"})
        if confirmed.get("no_failing_input"):
            rep["no_failing_input"] = True
        C.violation(ctx, "migrate-live:%s:%s" % (confirmed["what"], confirmed["short"]), confirmed["msg"], rep)
    if isinstance(st["multi"].get("distinct_observed_outcomes"), set):
        st["multi"]["distinct_observed_outcomes"] = len(st["multi"]["distinct_observed_outcomes"])
    classes, sched, infl, deaths, samples, abandoned = st["classes"], st["sched"], st["infl"], st["deaths"], st["samples"], st["abandoned"]

    if abandoned:
        txt = ("calls waiting for the old data centre when another call is migrated are neither re-sent to the new data centre nor failed: "
               "they wait until their old msg_ids are answered (a real data centre never saw them); observed in %d scenarios, e.g. %s"
               % (len(abandoned), abandoned[0]))
        ctx.notes.append(txt)
        if STRICT_INFLIGHT:
            C.violation(ctx, "migrate-live:inflight-abandoned", txt, {"scenarios": abandoned[:20], "expected": "re-sent or failed", "got": "wait forever"})
    if sched.get("unavailable"):
        ctx.notes.append("the scheduled orders ack-after-close / read-after-close could not be reached in %d scenarios: while the receive loop is held "
                         "at its acknowledgement the migrating caller never arrives between Disconnect and CreateConnection - the tree serialises "
                         "sending with migration (or lacks that yield point); those scenarios ran unscheduled" % sched["unavailable"])
    if not samples:
        samples.append({"note": "no sample selected"})
    cov = {
        "scenarios": len(scen), "process_deaths_or_timeouts": deaths,
        "model_decision_to_live_outcome": classes, "scheduled_orders": sched,
        "other_calls_in_flight": infl,
        "several_callers_migrated_at_once": st["multi"],
        "dc_tables_built_from_help_getConfig_compared_with_config_table": st.get("config_tables_compared", 0),
        "timing_retries": retries, "timing_not_reproduced": dropped, "failing_scenarios_not_confirmed_after_enough_violations": skipped,
        "timing_policy": "every failing scenario is run again alone with 4x watchdog and 4x settle pauses (racing free runs up to 3 times), then once on one and once on two processors (GOMAXPROCS: a failure that depends on when a freshly started goroutine first runs shows under load or on few processors) and "
                         "reported only if the same check fails again; waits are for events (frame seen by a reference server, goroutine parked at a "
                         "yield point) bounded by the watchdog, the remaining settle pauses (20/60/50 ms, 300 ms grace) are scaled in the re-run",
        "other_calls_in_flight_reading": "finished_unaided counts calls that came back within 300 ms of the migration without anybody answering them; "
                                         "after that the server the client is connected to answers their old msg_ids",
        "rule": "rpc_error texts {PHONE_MIGRATE_<configured id>, <unconfigured id>, literal X, non-numeric, empty, out of range, other *_MIGRATE_ and plain errors} x "
                "set-up {SetDCList on a connected client, telegram.NewClient fed by help.getConfig} x seq_no of the error message {needs ack, does not} x "
                "{0,1,2} other calls waiting x {free run, receive loop's ack held until the caller has closed the old socket, its next read held likewise, its next read held until the caller has switched to the new data centre and repeated the request}; "
                "plus 2 and 3 callers answered with PHONE_MIGRATE_X in one container (equal X, two ids of one data centre, different X; "
                "with and without a caller answered normally in between; racing, or ordered at the yield points before/after Disconnect); "
                "every scenario in its own process; decision compared with the extracted handle/to_native on the DC table read from the live client",
        "samples": samples, "migrate_stage_wall_s": round(time.time() - t0, 1),
    }
    return {"phone_migrate_live": cov}


def replay(ctx, path):
    """re-run the stage under the replay's tier and seed; the finding is reproduced iff its key is reported again"""
    import json
    obj = json.load(open(path))
    ctx.tier = obj.get("tier", ctx.tier)
    ctx.seed = obj.get("seed", ctx.seed)
    stage(ctx)
    hit = [v for v in ctx.violations if v[0] == obj.get("key")]
    print("scenario=%s expected=%s got=%s" % (obj.get("scenario"), obj.get("expected"), hit[0][2].get("got") if hit else "as expected"))
    if hit:
        print("VIOLATION property=%s replay=%s" % (ctx.prop, path))
        return 1
    return 0
