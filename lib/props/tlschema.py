"""schema-embed translator: the .tl files of the tree, copied verbatim (line by line, as Coq
string literals) into coq/gen/SchemaText.v; nothing is interpreted here."""
import os

from .. import common as C


def coq_str(line):
    # Coq string literal: bytes as they are, '"' doubled
    return '"' + line.replace('"', '""') + '"'


def write_schema_v():
    out = ["(* generated: the schema files of the current tree, verbatim - do not edit *)",
           "From Coq Require Import String List.", "Import ListNotations.", "Open Scope string_scope.", ""]
    counts = {}
    for name, rel in (("api_lines", "schemes/api_latest.tl"), ("mtproto_lines", "schemes/mtproto.tl")):
        p = os.path.join(C.REPO, rel)
        data = open(p, "rb").read().decode("latin-1")   # bytes preserved 1:1
        lines = data.split("\n")
        # non-ASCII only occurs in comments; Coq literals are byte strings, keep them as they are
        counts[name] = len(lines)
        out.append("Definition %s : list string := [" % name)
        out.append(";\n".join("  " + coq_str(l.rstrip("\r")) for l in lines))
        out.append("].")
        out.append("")
    txt = "\n".join(out) + "\n"
    p = C.COQ + "/gen/SchemaText.v"
    os.makedirs(C.COQ + "/gen", exist_ok=True)
    if not os.path.exists(p) or open(p, encoding="latin-1").read() != txt:
        with open(p, "w", encoding="latin-1") as f:
            f.write(txt)
    C.want_gen(p, txt.encode("latin-1"))
    return counts
