"""C11 - salt rotation: pending requests are retried, nothing stalls, salt is saved (client as LTS:
Coq invariants over all histories of Client/Live.v + trace validation of the real client against the
extracted step2, direct oracles on what the reference server saw)."""
from .. import common as C
from . import live_common as L

RULE = (
    "schedules are drawn while they run: at every point one of the enabled actions - start a call (1-4 callers, 1-2 calls each, five result "
    "kinds), release one parked goroutine, let the server answer a random subset of the open requests (plain / gzip_packed / msg_container "
    "with service items), send bad_server_salt (0-2 rotations per schedule: naming a pending request, an answered one, an earlier attempt of "
    "a retried one, or an id never used; alone, gzip-packed, or in one container with the answer to ANOTHER, accepted request in either "
    "order; EVERY pending request rejected by its own bad_server_salt, all naming the SAME salt, as separate messages or in one container; "
    "new_session_created(s) followed by bad_server_salt(id, s); the announced salt is a new value, the value announced last, or an earlier "
    "one - rotation back - or a corner of int64: 0, 1, -1, 2^31-1, -2^31, 2^32, 2^32+5, -2^40, int64 max, int64 min; a bad_server_salt "
    "naming the msg id of one of the client's own msgs_ack), new_session_created, other service messages, close the connection 0-2 times (the client reconnects), drain the Warnings channel - "
    "chosen by a splitmix64 stream seeded with VERIF_SEED; every 4th schedule starts with a key exchange in the same process (fresh "
    "session), the others resume a stored session. Every schedule ends with the closing procedure: run everything that is enabled, "
    "answer every request that is open under its latest id, then a probe call of a new caller that must complete. Thorough adds every "
    "maximal history of two callers x one rotation (naming any frame written so far) x all answer orders, enumerated by the extracted "
    "model. Each action's projected observation must equal the extracted step2's. Direct oracles on the frames the reference server "
    "decrypted: a request (identified by its token) is written again only after a bad_server_salt named exactly its previous frame, and "
    "then under the salt of that message or a later one; a rejected pending request IS written again; every completed call returned the "
    "answer addressed to its own latest msg id; after the last salt message the client's salt and the session file hold that salt; no "
    "stall (watchdog + goroutine dump), no death of the process. Non-trivial = distinct schedule containing a rotation or "
    "new_session_created in which a call completed.")


def run(ctx):
    pr = C.coq_props(["theories/Props/C11.v"])
    C.coq_obligation_violations(ctx, pr, "C11")
    n = 150 if ctx.tier == "quick" else 3000
    scopes = () if ctx.tier == "quick" else (("obj", "obj"), ("bool", "err"))
    stats, validated, dis, distinct, samples, exh = L.run_batches(
        ctx, "C11", "c11", n, [L.PINNED + "/pinned-c11.script"], scopes)
    if ctx.tier == "thorough":
        L.coqchk(ctx, "C11", exh)
    return L.finish(ctx, "C11", pr, stats, validated, dis, distinct, samples, exh, RULE, L.PROJECTION)


def replay(ctx, path):
    r = L.replay(ctx, "C11", path)
    return run(ctx) if r is None else r
