"""C15 - decoding arbitrary bytes is total (no panic, terminates, bounded allocation)."""
import hashlib
import json

from .. import common as C
from . import tlcommon as T

PROPS = ["theories/Props/C15.v", "theories/Inst/C15i.v"]


def run(ctx):
    prep = T.prepare(ctx)
    pr = C.coq_props(PROPS)
    C.coq_obligation_violations(ctx, pr, "C15")
    model = T.run_model(ctx, prep)
    evals = 0
    nontrivial = set()
    disagreements = 0
    samples = []
    classes = {}
    out_of_proportion = 0
    for f in T.iter_cases(prep["cases"]):
        if f[0] == "Q":
            _, cid, mode, hints, hx, alloc = f
            out_of_proportion += 1
            allowed = 512 * (len(hx) // 2) + (1 << 20)
            C.violation(ctx, "alloc-out-of-proportion:%s:%s:%s" % (mode, hints, hashlib.sha1(hx.encode()).hexdigest()[:10]),
                        "decoding %d bytes %s (%s, hints %s) allocates %s bytes (allowed: 512 per input byte + 1 MiB = %d)"
                        % (len(hx) // 2, T.short(hx, 80), mode, hints, alloc, allowed),
                        {"kind": "D", "mode": mode, "hints": hints, "hex": hx, "expected": "value or error", "oracle": "allocation",
                         "allocated": int(alloc), "allowed": allowed})
            continue
        if f[0] != "D":
            continue
        _, cid, mode, hints, hx, impl = f
        evals += 1
        m = model.get(cid, "missing")
        ic = T.norm_class(impl)
        cls = impl.split(":")[0]
        classes[cls] = classes.get(cls, 0) + 1
        nontrivial.add(hashlib.sha1((mode + hints + hx).encode()).hexdigest())
        key = "%s:%s:%s" % (mode, hints, hashlib.sha1(hx.encode()).hexdigest()[:10])
        if cls in ("panic", "fatal"):
            what = impl.split(":", 1)[1] if ":" in impl else ""
            if cls == "panic":
                try:
                    what = bytes.fromhex(what).decode("utf-8", "replace")
                except ValueError:
                    pass
            C.violation(ctx, "decode-crash:" + key,
                        "decoding %s (%s, hints %s) %s: %s" % (T.short(hx, 80), mode, hints,
                                                               "kills the process (out of memory / fatal / hang)" if cls == "fatal" else "panics", what[:200]),
                        {"kind": "D", "mode": mode, "hints": hints, "hex": hx, "expected": "value or error", "got": cls + " " + what[:300]})
            continue
        if m == "FUEL":
            raise C.BuildError("model ran out of fuel on case %s" % cid)
        if m != ic:
            disagreements += 1
            C.violation(ctx, "decode-differs:" + key,
                        "decode (%s, hints %s) of %s: model (proved total) gives %s, implementation gives %s"
                        % (mode, hints, T.short(hx, 80), T.short(m), T.short(ic)),
                        {"kind": "D", "mode": mode, "hints": hints, "hex": hx, "expected": m, "got": ic, "oracle": "model TL/Codec.v dec"})
        if len(samples) < 6 and evals % 1201 == 0:
            samples.append({"mode": mode, "hints": hints, "bytes": T.short(hx, 120), "impl": T.short(impl, 120)})
    if not samples:
        samples.append({"note": "no sample selected"})
    cov = C.proof_coverage(
        pr, "make -f Makefile.coq theories/Props/C15.vo theories/Inst/C15i.vo (coqc 8.16.1) in /verif/coq",
        T.TRUSTED_TL + ["each decode runs in a child process under RLIMIT_AS = 3 GB and a 20 s watchdog; death or hang of the child is the result class 'fatal'"],
        {"evaluations": evals, "distinct_nontrivial": len(nontrivial),
         "rule": "every valid encoding produced for C01 is decoded by name and by id, then mutated: prefix truncation, 32-bit words replaced by boundary integers "
                 "(0, -1, 2^31-1, 2^31, 0xfe headers) / registered constructor ids / enum ids / vector, bool, null, gzip, container ids, single bit flips, trailing junk; "
                 "bare enum ids; bare vectors with and without hints; containers with negative and huge counts and sizes; gzip payloads (valid, nested, corrupt, truncated); "
                 "vectors announcing up to 2^32-1 elements, long-form byte-string headers announcing 16 MB; hints: slices of int/long/string/bytes/bool/double, of struct pointers and of interfaces. "
                 "every decode is charged with the heap bytes the library call allocated (runtime/metrics /gc/heap/allocs:bytes, after a warm-up): more than 512 bytes per input byte + 1 MiB is a violation "
                 "unless the input holds a gzip_packed id. non-trivial = distinct (mode, hints, bytes)",
         "allocation_out_of_proportion": out_of_proportion,
         "samples": samples, "input_distribution": prep["stats"], "result_classes": classes, "disagreements_checked": disagreements,
         "projection": "result class ok/err/panic(fatal) and, on ok, the abstracted value"})
    return C.finish(ctx, "proof", cov, [
        "gzip expansion is exempt by the property; a self-reproducing gzip stream could nest without bound (named in DESIGN.md)",
        "memory exhaustion itself is observed through the address-space limit of the child, the theorem bounds the counts passed to make/MakeSlice"])


def replay(ctx, path):
    obj = json.load(open(path))
    if obj.get("kind") == "D" and "hex" in obj:
        prep_hb, _ = T.build_tl_harness(ctx)
        rc, out = C.sh([prep_hb, "one", "D", obj["mode"], obj["hints"], obj["hex"]], env=ctx.env(), timeout=120)
        got = out.strip().splitlines()[-1] if out.strip() else "fatal"
        print("decode(%s,%s,%s...) -> %s" % (obj["mode"], obj["hints"], obj["hex"][:40], got[:200]))
        if obj.get("oracle") == "allocation":
            al = [l.split("\t") for l in out.splitlines() if l.startswith("alloc\t")]
            if al and int(al[-1][1]) > int(al[-1][2]):
                print("allocated %s bytes, allowed %s" % (al[-1][1], al[-1][2]))
                print("VIOLATION property=C15 replay=%s" % path)
                return 1
        if got.startswith("panic") or got.startswith("fatal"):
            print("VIOLATION property=C15 replay=%s" % path)
            return 1
        exp = obj.get("expected", "")
        if exp and exp not in ("value or error",) and T.norm_class(got) != exp:
            print("VIOLATION property=C15 replay=%s" % path)
            return 1
        return 0
    ctx.seed = obj.get("seed", ctx.seed)
    return run(ctx)
