"""C18 - the 2FA SRP answer verifies for the right password and only for it.

Theorems: coq/theories/Props/C18.v (model Crypto/Srp.v, proofs Crypto/SrpProofs.v).
Tie: harness/srp runs telegram/internal/srp (hook: injected random) and telegram.GetInputCheckPassword
on generated cases, judges the answers with an independent reference SRP server (math/big), and the
extracted Coq model (client + model server, Gallina SHA-256, modexp by square-and-multiply on small
groups / math/big oracle table on 2048-bit groups, PBKDF2 always an oracle table) is run on the same cases."""
import hashlib
import json
import subprocess

from .. import common as C

PROPS = ["theories/Props/C18.v"]
NPROC = 16
# M1 of the exchange recorded from Telegram (telegram/internal/srp/2fa_test.go)
RECORDED_M1 = "999df906bda2c6cbb52f503406eba2d0d0503ace0cc302c38f13ee5010ad4051"


def split_cases(path, n):
    """Split the case file into n self-contained chunks (oracle lines stay with their case)."""
    chunks = [[] for _ in range(n)]
    pending, i = [], 0
    cases = []
    with open(path) as f:
        for line in f:
            if not line.strip():
                continue
            pending.append(line)
            tag = line.split("\t", 1)[0]
            if tag in ("x", "r", "t"):
                cases.append(line.rstrip("\n").split("\t"))
                chunks[i % n].extend(pending)
                pending = []
                i += 1
    return chunks, cases


def run_model_parallel(ctx, model_bin, chunks):
    procs = []
    for k, ch in enumerate(chunks):
        if not ch:
            continue
        p = "%s/chunk%02d.txt" % (ctx.work, k)
        with open(p, "w") as f:
            f.writelines(ch)
        fin = open(p, "rb")
        procs.append((subprocess.Popen([model_bin], stdin=fin, stdout=subprocess.PIPE, stderr=subprocess.PIPE), fin))
    out = {}
    for pr, fin in procs:
        try:
            o, e = pr.communicate(timeout=3000)
        except subprocess.TimeoutExpired:
            pr.kill()
            raise C.BuildError("model driver for C18 timed out")
        fin.close()
        if pr.returncode != 0:
            raise C.BuildError("model driver for C18 failed (rc %d): %s" % (pr.returncode, e.decode()[-1500:]))
        for l in o.decode().splitlines():
            f = l.split("\t")
            out[f[0]] = f[1:]
    return out


def digest(fields):
    return hashlib.sha1("\t".join(fields).encode()).hexdigest()[:16]


def show_pw(h):
    return (b"" if h in ("-", "") else bytes.fromhex(h)).decode("utf-8", "backslashreplace")


def run(ctx):
    hb = C.build_harness("srp")
    cases_path = ctx.work + "/cases.txt"
    gen_path = ctx.work + "/cases_gen.txt"
    probe_path = ctx.work + "/cases_probe.txt"
    stats = {}

    def take_stats(out):
        for l in out.splitlines():
            f = l.split("\t")
            if len(f) == 3 and f[0] == "stat":
                stats[f[1]] = int(f[2])

    # history stage 1 (own process, one goroutine, started now and collected after the concurrent stage): truncated-key
    # collision probe + one-factor-at-a-time call history; a separate process, so it still reports if stage 2 dies
    probe_proc = subprocess.Popen([hb, "probe", probe_path, ctx.tier], env=ctx.env(), stdout=subprocess.PIPE, stderr=subprocess.STDOUT)
    # stage 2: all generated cases in one long-lived process, 16 goroutines
    rc, out = C.sh([hb, "gen", ctx.tier, gen_path], env=ctx.env(), timeout=3000)
    gen_failure = None
    if rc != 0:
        gen_failure = out[-2000:]
        open(gen_path, "w").close()
    take_stats(out)
    try:
        pout, _ = probe_proc.communicate(timeout=3000)
    except subprocess.TimeoutExpired:
        probe_proc.kill()
        raise C.BuildError("harness probe timed out")
    if probe_proc.returncode != 0:
        raise C.BuildError("harness probe failed: " + pout.decode("utf-8", "replace")[-2000:])
    take_stats(pout.decode("utf-8", "replace"))
    with open(cases_path, "w") as f:
        f.write(open(probe_path).read())
        f.write(open(gen_path).read())

    pr = C.coq_props(PROPS)
    C.coq_obligation_violations(ctx, pr, "C18")

    model_bin = C.build_model("C18")
    chunks, cases = split_cases(cases_path, NPROC)
    model = run_model_parallel(ctx, model_bin, chunks)

    evals = 0
    exchanges = 0
    nontrivial = set()
    disagreements = 0
    samples = []
    verdicts = {"acc": 0, "rej": 0, "na": 0}
    layouts = {}
    fresh_jobs = []
    probe_history = []

    def internal(msg):
        raise C.BuildError("C18 framework inconsistency (no verdict): " + msg)

    for c in cases:
        kind, cid = c[0], c[1]
        m = model.get(cid)
        if m is None:
            internal("model printed nothing for case %s" % cid)
        evals += 1
        if kind == "x":
            (_, _, mode, regpw, pw, s1, s2, g, p, b, srpB, random,
             refV, refB, icls, iA, iM1, rverdict, expect, tags, lay, intact) = c
            mcls, mA, mM1, mV, mB, mverdict = m
            inputs = ["x", regpw, pw, s1, s2, g, p, b, srpB, random, lay]
            layouts[lay] = layouts.get(lay, 0) + 1
            key = "exchange:" + digest(inputs)
            if mV != refV or mB != refB:
                internal("reference server (Go) and model server (Coq) disagree on v or B in case %s" % cid)
            exchanges += 1
            verdicts[rverdict] = verdicts.get(rverdict, 0) + 1
            base = {"kind": "x", "inputs": inputs, "tags": tags, "password": show_pw(pw), "registered_password": show_pw(regpw),
                    "layout": lay}
            if cid.startswith("p"):
                # probe calls are sequential in one process: the replay repeats the calls made before this one
                base["history"] = [list(h) for h in probe_history]
                base["history_passwords"] = [[show_pw(h[2]), show_pw(h[1])] for h in probe_history]
                probe_history.append(inputs)
            agree = (icls, iA, iM1) == (mcls, mA, mM1)
            fresh_jobs.append((cid, inputs, (icls, iA, iM1), key, base))
            if intact != "intact":
                C.violation(ctx, key,
                            "getInputCheckPassword wrote into the caller's byte slices (layout %s: salts/B/P/random as windows of a shared "
                            "array or with spare capacity); server verdict %s, expected %s; tags %s" % (lay, rverdict, expect, tags),
                            dict(base, expected={"verdict": expect, "class": mcls, "A": mA, "M1": mM1, "inputs": "intact"},
                                 got={"verdict": rverdict, "class": icls, "A": iA, "M1": iM1, "inputs": intact},
                                 oracle="backing arrays before/after + reference SRP server"))
            elif expect != rverdict:
                # direct oracle: the reference server's verdict on the implementation's answer
                C.violation(ctx, key,
                            "SRP answer for the %s password is %s by the reference server (class %s; tags %s)"
                            % ("right" if regpw == pw else "wrong", {"acc": "accepted", "rej": "rejected", "na": "not produced"}[rverdict], icls, tags),
                            dict(base, expected={"verdict": expect, "class": mcls, "A": mA, "M1": mM1},
                                 got={"verdict": rverdict, "class": icls, "A": iA, "M1": iM1}, oracle="reference SRP server"))
            elif not agree:
                disagreements += 1
                C.violation(ctx, key,
                            "getInputCheckPassword differs from the model (class %s/%s, A %s, M1 %s; tags %s)"
                            % (icls, mcls, "same" if iA == mA else "differs", "same" if iM1 == mM1 else "differs", tags),
                            dict(base, expected={"verdict": expect, "class": mcls, "A": mA, "M1": mM1},
                                 got={"verdict": rverdict, "class": icls, "A": iA, "M1": iM1}, oracle="model Crypto/Srp.v",
                                 no_failing_input=True))
            else:
                if mverdict != rverdict:
                    internal("model server and reference server judge the same answer differently in case %s" % cid)
                if icls == "ok":
                    nontrivial.add((pw, s1, s2, g, p, srpB, random))
            if len(samples) < 4 and icls == "ok" and (evals % 7 == 1 or "lz" in tags):
                samples.append({"case": cid, "group": tags.split(",")[0], "tags": tags, "password": show_pw(pw),
                                "A[0:8]": iA[:16], "M1": iM1, "server": rverdict, "model_M1": mM1})
        elif kind == "r":
            (_, _, mode, pw, srpB, flag, s1, s2, g, P, random, icls, iA, iM1, expect, tag, lay, intact) = c
            mcls, mA, mM1 = m
            inputs = ["r", pw, srpB, flag, s1, s2, g, P, random, lay]
            layouts[lay] = layouts.get(lay, 0) + 1
            key = "client:" + digest(inputs)
            base = {"kind": "r", "inputs": inputs, "tags": tag, "password": show_pw(pw), "layout": lay}
            fresh_jobs.append((cid, inputs, (icls, iA, iM1), key, base))
            if intact != "intact":
                C.violation(ctx, key, "getInputCheckPassword on '%s' wrote into the caller's byte slices (layout %s)" % (tag, lay),
                            dict(base, expected={"class": expect, "A": mA, "M1": mM1, "inputs": "intact"},
                                 got={"class": icls, "A": iA, "M1": iM1, "inputs": intact}, oracle="backing arrays before/after"))
                continue
            if tag.startswith("recorded vector"):
                if mM1 != RECORDED_M1:
                    internal("the model does not reproduce the M1 recorded from Telegram")
                if iM1 != RECORDED_M1:
                    C.violation(ctx, key, "getInputCheckPassword does not reproduce the M1 recorded from Telegram",
                                dict(base, expected={"class": "ok", "A": mA, "M1": RECORDED_M1}, got={"class": icls, "A": iA, "M1": iM1},
                                     oracle="recorded exchange"))
                    continue
            if icls != expect:
                C.violation(ctx, key, "getInputCheckPassword on '%s': class %s, the property requires %s" % (tag, icls, expect),
                            dict(base, expected={"class": expect, "A": mA, "M1": mM1}, got={"class": icls, "A": iA, "M1": iM1},
                                 oracle="range rule of the property"))
            elif (icls, iA, iM1) != (mcls, mA, mM1):
                disagreements += 1
                C.violation(ctx, key, "getInputCheckPassword on '%s' differs from the model (class %s/%s)" % (tag, icls, mcls),
                            dict(base, expected={"class": mcls, "A": mA, "M1": mM1}, got={"class": icls, "A": iA, "M1": iM1},
                                 oracle="model Crypto/Srp.v", no_failing_input=True))
            else:
                nontrivial.add((pw, srpB, flag, s1, s2, g, P, random))
        elif kind == "t":
            (_, _, mode, pw, apkind, srpB, srpid, s1, s2, g, P, b, regpw,
             icls, iid, iA, iM1, rverdict, expect, expect_verdict, tag, lay, intact) = c
            mcls, mid = m
            inputs = ["t", pw, apkind, srpB, srpid, s1, s2, g, P, b, regpw, lay]
            layouts[lay] = layouts.get(lay, 0) + 1
            key = "exported:" + digest(inputs)
            base = {"kind": "t", "inputs": inputs, "tags": tag, "password": show_pw(pw), "registered_password": show_pw(regpw),
                    "password_hex": pw, "registered_password_hex": regpw}
            if mcls != expect:
                internal("model class %s but harness expects %s in case %s" % (mcls, expect, cid))
            bad = None
            if intact != "intact":
                bad = "the caller's byte slices were written to (layout %s); verdict %s, expected %s" % (lay, rverdict, expect_verdict)
            elif icls != expect:
                bad = "class %s, expected %s" % (icls, expect)
            elif icls == "srp" and iid != srpid:
                bad = "srp_id not copied"
            elif icls == "srp" and len(iA) != 512:
                bad = "A is not 256 bytes"
            elif icls == "srp" and rverdict != expect_verdict:
                bad = ("the %s password is %s by the reference server holding the verifier of %r"
                       % ("right" if pw == regpw else "wrong", "accepted" if rverdict == "acc" else "rejected", show_pw(regpw)))
            if bad:
                C.violation(ctx, key, "telegram.GetInputCheckPassword(%r) (%s): %s" % (show_pw(pw), tag, bad),
                            dict(base, expected={"class": expect, "srpid": srpid, "verdict": expect_verdict, "inputs": "intact"},
                                 got={"class": icls, "srpid": iid, "verdict": rverdict, "inputs": intact},
                                 oracle="reference SRP server / model class / backing arrays before/after"))
            else:
                nontrivial.add((pw, regpw, apkind, srpB, s1, s2))
                if icls == "srp":
                    exchanges += 1
                    verdicts[rverdict] = verdicts.get(rverdict, 0) + 1

    if gen_failure is not None and not ctx.violations:
        raise C.BuildError("harness gen failed: " + gen_failure)
    if gen_failure is not None:
        ctx.notes.append("the concurrent generation stage died: " + gen_failure[-400:])

    # history independence: the answers above come from ONE long-lived process that served all cases (16 goroutines);
    # with the random bytes injected the answer is a function of the inputs, so a fresh process must give the same bytes
    fresh_checked, fresh_diff = history_independence(ctx, hb, fresh_jobs)

    # report wrong verdicts / classes before violations that only concern written-to inputs
    def weight(v):
        e, g = (v[2] or {}).get("expected", {}), (v[2] or {}).get("got", {})
        return 0 if any(k in e and k in g and e[k] != g[k] for k in ("verdict", "class")) else 1
    ctx.violations.sort(key=weight)

    minimise_histories(ctx, hb)

    cov = C.proof_coverage(
        pr, "make -f Makefile.coq theories/Props/C18.vo (coqc 8.16.1) in /verif/coq",
        ["crypto/sha256, golang.org/x/crypto/pbkdf2 and math/big.Int.Exp are Section variables of the theorems "
         "(hypotheses: SHA-256 output has 32 bytes; Exp b e m = b^e mod m for e >= 0, m > 0; nothing about PBKDF2)",
         "execution of the model: Gallina SHA-256 (Prim/Sha256.v, FIPS known answers) and square-and-multiply (proved = Z.pow mod) on "
         "groups up to 256 bits; on 2048-bit groups the math/big results of exactly the Exp calls of the case are passed as a table "
         "(in calc mode the table is cross-checked against the Gallina modexp); PBKDF2-HMAC-SHA512 x100000 always a table from x/crypto",
         "reference SRP server in harness/srp/main.go (math/big, from Telegram's definition) - compared with the Coq server "
         "definition (v, B, verdict) on every exchange",
         "add-only hook telegram/internal/srp/verif_export.go (build tag verif): getInputCheckPassword with injected random"],
        {"evaluations": evals, "distinct_nontrivial": len(nontrivial),
         "rule": "evaluations = generated cases (full exchanges x, raw client calls r, exported entry point t); non-trivial = distinct inputs on "
                 "which implementation, model and reference server agreed on class, A, M1 and verdict; groups: Telegram's 2048-bit prime, "
                 "random odd 2025..2047-bit moduli (leading zero bytes in A/B/S/k*v), 33..256-bit moduli with 256-byte encodings; "
                 "searched secrets with A, B, S, u starting with a zero byte; B in {0, p, p+1, p-1, 1, 247/248/255/257 bytes, empty}; "
                 "passwords over ASCII/Latin-1/Cyrillic/CJK/Hebrew/non-BMP/invalid UTF-8; salts 0..64 bytes; wrong passwords; "
                 "through the exported telegram.GetInputCheckPassword: passwords with leading/trailing/only white space "
                 "(space, tab, CR, LF, CRLF, VT, FF, U+0085, U+00A0, U+2003, U+3000) as the right password (server holds the verifier of "
                 "the exact string: accept), as a near-miss of the registered one (reject) and alone (an SRP answer, not the no-password answer); "
                 "byte-slice inputs (salt1, salt2, srp_B, p, random) handed in as exact separate slices, with spare capacity, or as windows of one "
                 "guarded array in four orders, whole backing arrays compared before/after; every x/r case re-run in a fresh process and "
                 "compared with the answer of the long-lived process (history independence); truncated-key collision probe: password pairs "
                 "(birthday search with the harness's reference SHA-256) whose PH1 resp. SH(pw,salt1) agree on the first / last 4 bytes, "
                 "called A/A, B/A, B/B, A/B (typed/registered) sequentially in one process; one-factor-at-a-time history in the same "
                 "single-goroutine process: base / variant differing only in salt2, salt1, password, B, client random, g, p / base ..., "
                 "each variant twice, variants back to back, each call followed by its wrong-password counterpart and itself again, "
                 "every call judged by the reference server for its own inputs",
         "samples": samples, "input_distribution": stats, "disagreements_checked": disagreements,
         "input_layouts": layouts, "fresh_process_reruns": fresh_checked, "fresh_process_differences": fresh_diff,
         "exchanges_judged_by_reference_server": exchanges, "reference_server_verdicts": verdicts,
         "projection": "result class (answer / no-password / error / panic), A bytes, M1 bytes, srp_id, accept/reject by the reference server; "
                       "error texts not compared"})
    return C.finish(ctx, "proof", cov, [
        "SHA-256 returns 32 bytes; big.Int.Exp(b, e, m) = b^e mod m for e >= 0, m > 0; big.Int.Bytes/SetBytes are big-endian",
        "server-side parameters: 1 < p < 2^2048 sent as 256 bytes (2fa.go itself validates neither p nor g)",
        "wrong password rejected: only under injectivity of SHA-256 on the two compared strings and S_client <> S_server (C18_wrong_password_partial)"])


def minimise_histories(ctx, hb, limit=5):
    """For the violations that will be reported: find the shortest suffix of the earlier same-process calls that still
    reproduces the observed (wrong) answer, and keep only that as the replay history."""
    done = 0
    for key, text, rep in ctx.violations:
        if done >= limit:
            break
        hist = (rep or {}).get("history")
        if not hist or rep.get("kind") != "x":
            continue
        done += 1
        seen = rep.get("got", {})
        for k in (1, 2, 3, 4):
            if k >= len(hist):
                break
            seq = ctx.work + "/min_seq.txt"
            with open(seq, "w") as fh:
                for h in hist[-k:] + [rep["inputs"]]:
                    fh.write("\t".join(h) + "\n")
            rc, out = C.sh([hb, "seq", seq], env=ctx.env(), timeout=1200)
            if rc != 0:
                break
            f = out.strip().split("\n")[-1].split("\t")
            if len(f) >= 4 and (f[0], f[2], f[3]) == (seen.get("class"), seen.get("M1"), seen.get("verdict")):
                rep["history_full_length"] = len(hist)
                rep["history"] = hist[-k:]
                rep["history_passwords"] = rep.get("history_passwords", [])[-k:]
                break


def history_independence(ctx, hb, jobs):
    from concurrent.futures import ThreadPoolExecutor

    def one(job):
        cid, inputs, seen, key, base = job
        rc, out = C.sh([hb, "one"] + inputs, env=ctx.env(), timeout=600)
        if rc != 0:
            raise C.BuildError("harness one failed on case %s: %s" % (cid, out[-500:]))
        f = out.rstrip("\n").split("\t")
        return job, (f[0], f[1], f[2])

    diff = 0
    with ThreadPoolExecutor(max_workers=NPROC) as ex:
        for (cid, inputs, seen, key, base), got in ex.map(one, jobs):
            if got != seen:
                diff += 1
                C.violation(ctx, key,
                            "getInputCheckPassword answers differently in a process that served other calls before "
                            "(class %s, M1 %s) than in a fresh process (class %s, M1 %s): the answer depends on earlier calls"
                            % (seen[0], seen[2][:16], got[0], got[2][:16]),
                            dict(base, expected={"class": got[0], "A": got[1], "M1": got[2]},
                                 got={"class": seen[0], "A": seen[1], "M1": seen[2]},
                                 oracle="same inputs in a fresh process", history_dependent=True, no_failing_input=True))
    return len(jobs), diff


def replay(ctx, path):
    obj = json.load(open(path))
    if "inputs" not in obj:
        print("replay names a broken obligation, re-running the full check")
        return run(ctx)
    hb = C.build_harness("srp")
    if obj.get("history"):
        seq = ctx.work + "/replay_seq.txt"
        with open(seq, "w") as fh:
            for h in obj["history"] + [obj["inputs"]]:
                fh.write("\t".join(h) + "\n")
        print("replaying %d earlier call(s) in the same process first: [typed, registered] = %s"
              % (len(obj["history"]), obj.get("history_passwords")))
        rc, out = C.sh([hb, "seq", seq], env=ctx.env(), timeout=1200)
    else:
        rc, out = C.sh([hb, "one"] + obj["inputs"], env=ctx.env(), timeout=600)
    if rc != 0:
        raise C.BuildError("harness one failed: " + out[-1000:])
    f = out.strip().split("\n")[-1].split("\t")
    exp = obj.get("expected", {})
    kind = obj["inputs"][0]
    if kind == "x":
        got = {"class": f[0], "A": f[1], "M1": f[2], "verdict": f[3], "inputs": f[4]}
    elif kind == "r":
        got = {"class": f[0], "A": f[1], "M1": f[2], "inputs": f[3]}
    else:
        got = {"class": f[0], "srpid": f[1], "verdict": f[4], "inputs": f[5]}
        if exp.get("class") != "srp":
            exp = {"class": exp.get("class")}
    bad = [k for k in exp if k in got and exp[k] != got[k]]
    print("case %s tags=%s password=%r" % (kind, obj.get("tags"), obj.get("password")))
    for k in sorted(got):
        if k in exp:
            print("  %-8s expected=%s got=%s" % (k, str(exp[k])[:80], str(got[k])[:80]))
    if bad:
        print("VIOLATION property=C18 replay=%s" % path)
        return 1
    return 0
