"""C12 - session file store: last store wins, missing = not-found, torn = error, bare/relative/absolute
paths, salt codec; plus the decision NewMTProto takes on the loaded session (no network)."""
import json
import os
import time

from .. import common as C
from . import c12m

PROPS = ["theories/Props/C12.v"]

TRUSTED = [
    "encoding/json enters the theorems as json_ok (unmarshal(marshal t) = t on valid UTF-8 strings; no strict prefix of a "
    "marshalled object unmarshals); both clauses are re-validated on the real library for every stored session of the run "
    "(all prefixes), and the model run takes Marshal/Unmarshal results from tables recorded from encoding/json on a mirror "
    "of tokenStorageFormat declared in the harness (missing entry = reported, never defaulted)",
    "encoding/base64 enters as base64_ok; the model runs use the Gallina base64 proved to satisfy it (C12_base64_model) and "
    "its output must hit the table keys produced by Go's base64",
    "path/filepath.Dir is re-implemented in the model (go_clean/go_dir) and compared with filepath.Dir on every path of the run; "
    "what os.Stat says about that directory (directory / missing / regular file) is taken from the real file system",
    "utf8.ValidString re-implemented (utf8_valid) and compared per host name",
    "file system: whole-file writes succeed when the directory exists; modification times are forced with os.Chtimes "
    "(equal ticks stand for coarse-timestamp file systems); permission errors, full disks, symlinks, concurrent writers are not modelled",
    "add-only hook verif_export_session.go (MTProto.VerifSessionState) to read encrypted/addr/authKeyHash after NewMTProto",
]

ASSUME = [
    "encoding/json and encoding/base64 behave as the Go standard library does (json_ok, base64_ok; validated per run)",
    "a crash while writing leaves a prefix of the new content; the process (and its loader) is gone afterwards",
    "a change of the file by ANOTHER writer is visible to a surviving loader exactly when it leaves the file carrying a "
    "modification time DIFFERENT (later or earlier) from the one the loader cached at - the code's test is Equal "
    "(C12_history_refines_exact); when it carries exactly that time the loader keeps returning the session it stored and read "
    "back itself (C12_foreign_equal_tick_unseen: the stated limit of a cache keyed on the modification time) - the direct oracle "
    "does not judge the surviving loader's loads in that window, the model comparison does",
    "the caller may overwrite any *Session it passed to Store or got from Load (op M): the fixed code shares no memory with it",
    "the round-trip theorems need the host name to be valid UTF-8 (session_ok); for other host names the property text is "
    "refuted (C12_hostname_not_utf8_refuted) and the check reports the known finding store-load:hostname-invalid-utf8",
    "'resumes without a new key exchange' is shown only up to NewMTProto's decision (encrypted iff a session was found, "
    "fields taken from it); the live part needs the reference server (C16 work package)",
]


TIMED = ("S", "C", "X", "NS", "TR", "G")   # operations that give the file a modification time (last field)


def hexs(h):
    return b"" if h in ("-", "") else bytes.fromhex(h)


def show(h):
    return hexs(h).decode("utf-8", "backslashreplace")


class Hist:
    def __init__(self, hid, tag, path_hex):
        self.id = hid
        self.tag = tag
        self.path = path_hex
        self.setup = []
        self.ops = []
        self.kind = None      # D / M / F from the case file

    def lines(self, hid=None):
        out = [["H", hid or self.id, self.tag, self.path]] + self.setup + self.ops + [["E"]]
        return out

    def shape(self):
        return self.tag.split("/", 1)[1] if "/" in self.tag else self.tag

    def sig(self, upto=None):
        """op kinds with the equality pattern of modification times (dense rank) - no payload."""
        ops = self.ops if upto is None else self.ops[:upto + 1]
        times = sorted({int(o[-1]) for o in ops if o[0] in TIMED})
        rk = {t: i for i, t in enumerate(times)}
        parts = []
        for o in ops:
            if o[0] in TIMED:
                parts.append("%s@%d" % (o[0], rk[int(o[-1])]))
            else:
                parts.append(o[0])
        return ",".join(parts)


def read_histories(path):
    hs = []
    cur = None
    for f in C.read_tsv(path):
        if f[0] == "H":
            cur = Hist(f[1], f[2], f[3])
            if len(f) >= 6:
                cur.kind = f[5]
        elif f[0] in ("D", "T", "Y"):
            cur.setup.append(f)
        elif f[0] == "E":
            hs.append(cur)
            cur = None
        elif f[0] in ("J", "U"):
            pass
        else:
            cur.ops.append(f)
    return hs


def read_obs(path):
    """id -> {opindex -> fields}"""
    d = {}
    for f in C.read_tsv(path):
        d.setdefault(f[0], {})[f[1]] = f[2:]
    return d


def write_histories(path, hists):
    with open(path, "w") as f:
        for h in hists:
            for l in h.lines():
                f.write("\t".join(l) + "\n")


KNOWN_UTF8 = "store-load:hostname-invalid-utf8"


def coerce_go(b):
    """what encoding/json makes of a string: each byte at which no valid UTF-8 sequence starts becomes U+FFFD
    (third, independent implementation; harness coerceGo and the model's coerce_utf8 are compared per run)"""
    out = bytearray()
    i = 0
    while i < len(b):
        c = b[i]
        n = 1 if c < 0x80 else 2 if 0xC2 <= c <= 0xDF else 3 if 0xE0 <= c <= 0xEF else 4 if 0xF0 <= c <= 0xF4 else 0
        chunk = b[i:i + n]
        ok = n > 0 and len(chunk) == n
        if ok:
            try:
                chunk.decode("utf-8")
            except UnicodeDecodeError:
                ok = False
        if ok:
            out += chunk
            i += n
        else:
            out += b"\xef\xbf\xbd"
            i += 1
    return bytes(out)


def direct_oracle(h, kind, obs, known=None):
    """The property itself on the implementation's observations, no model involved.
    Returns None or (op index, expected, got, what).  [known]: list that receives (op index, expected, got)
    for the one deviation listed in KNOWN_FINDINGS.txt - a host name that is not valid UTF-8 comes back with
    U+FFFD in place of the offending bytes and NOTHING else differs; anything else about such a session
    (other fields damaged, an error, a panic) is a violation like for any other session."""
    st = None          # None = absent | "?" = unknown (foreign write) | (sessfields, contentlen, n)
    file_mt = None     # modification time the file carries
    cached_at = None   # time the living loader cached at (None: nothing cached)
    unseen = False     # another writer changed the file and left it carrying exactly the time the living loader
                       # cached at: the stated limit of an mtime-keyed cache (C12_foreign_equal_tick_unseen) - the
                       # loader's loads are not judged here (the model comparison still is); a new loader is
    coerced = {}       # raw host (hex) -> what encoding/json makes of it (hex), from the harness's V lines

    def expect_load():
        if st is None:
            return ["err"] if kind == "F" else ["nf"]
        if st == "?":
            return None
        sess, ln, n = st
        return ["err"] if n < ln else ["ok"] + list(sess)

    def same_but_host(e, g):
        """g equals e except that the host field (last) is the json-coerced form of e's invalid host"""
        if len(e) != len(g) or e[:-1] != g[:-1]:
            return False
        raw = hexs(e[-1])
        co = coerce_go(raw)
        return co != raw and hexs(g[-1]) == co and coerced.get(e[-1], g[-1]) == g[-1]

    def foreign_time(t):
        nonlocal file_mt, unseen
        file_mt = t
        unseen = cached_at is not None and t == cached_at

    for i, o in enumerate(h.ops):
        got = obs.get(str(i))
        if got is None:
            return (i, "an observation", "none", "harness produced no observation")
        if o[0] in ("S", "G"):
            v = obs.get(str(i) + ".v")
            if v and len(v) >= 3:
                coerced[o[4]] = v[2]
        if o[0] == "TR":
            if st is not None:
                if st != "?":
                    st = (st[0], st[1], min(int(o[1]), st[2]))
                foreign_time(int(o[2]))
        elif o[0] == "G":
            if kind == "D":
                if got[:2] != ["G", "ok"]:
                    return (i, "G ok", " ".join(got[:2]), "Store by a second loader fails although the directory of the path exists")
                st = ((o[1], o[2], o[3], o[4]), len(hexs(got[2])), len(hexs(got[2])))
                foreign_time(int(o[5]))
            elif got[:2] != ["G", "err"]:
                return (i, "G err", " ".join(got[:2]), "Store into a missing directory does not report an error")
        elif o[0] == "S":
            if kind == "D":
                if got[:2] != ["S", "ok"]:
                    return (i, "S ok", " ".join(got[:2]), "Store fails although the directory of the path exists")
                st = ((o[1], o[2], o[3], o[4]), len(hexs(got[2])), len(hexs(got[2])))
                file_mt, cached_at, unseen = int(o[5]), None, False      # own store drops the cache
            else:
                if got[:2] != ["S", "err"]:
                    return (i, "S err", " ".join(got[:2]), "Store into a missing directory does not report an error")
        elif o[0] == "L":
            if unseen:
                continue
            e = expect_load()
            if e is not None and got[1:] != e:
                if e[0] == "ok" and same_but_host(e, got[1:]):
                    if known is not None:
                        known.append((i, "L " + " ".join(e), " ".join(got)))
                else:
                    what = {"nf": "missing file not reported as not-found", "err": "torn file not reported as an error"}.get(
                        e[0], "Load does not return the last stored session")
                    return (i, "L " + " ".join(e), " ".join(got), what)
            if got[:2] == ["L", "ok"]:
                cached_at = file_mt
        elif o[0] == "F":
            cached_at, unseen = None, False
        elif o[0] == "C":
            if st is not None:
                if st != "?":
                    st = (st[0], st[1], min(int(o[1]), st[2]))
                file_mt = int(o[2])
            cached_at, unseen = None, False
        elif o[0] == "X":
            if kind == "D":
                st = "?"
                file_mt = int(o[2])
            cached_at, unseen = None, False
        elif o[0] in ("N", "NS"):
            e = expect_load()
            npart = got
            spart = None
            if "|" in got:
                k = got.index("|")
                npart, spart = got[:k], got[k + 1:]
            if e is not None:
                if e[0] == "ok":
                    en = ["N", "ok", "1"] + e[1:]
                elif e[0] == "nf":
                    en = ["N", "ok", "0", "-", "-", "0" * 16, o[1]]
                else:
                    en = ["N", "err"]
                if npart != en:
                    if e[0] == "ok" and same_but_host(en, npart):
                        if known is not None:
                            known.append((i, " ".join(en), " ".join(npart)))
                    else:
                        return (i, " ".join(en), " ".join(npart),
                                "NewMTProto does not resume from the stored session / does not start fresh on a missing one")
            if o[0] == "NS":
                if npart[:2] == ["N", "ok"]:
                    if kind == "D":
                        if spart[:2] != ["S", "ok"]:
                            return (i, "S ok", " ".join(spart[:2]), "SaveSession fails although the directory exists")
                        st = (tuple(npart[3:7]), len(hexs(spart[2])), len(hexs(spart[2])))
                        file_mt = int(o[2])
                    elif spart[:2] != ["S", "err"]:
                        return (i, "S err", " ".join(spart[:2]), "SaveSession into a missing directory does not report an error")
                cached_at, unseen = None, False
    return None


def hx(h):
    b = hexs(h)
    return ("%s..(%d bytes)" % (h[:12], len(b))) if len(b) > 8 else (h if b else "''")


def brief(obs):
    """readable one-line form of an observation (list of fields or a joined string)"""
    f = obs.split(" ") if isinstance(obs, str) else list(obs or [])
    if f[:2] == ["L", "ok"] and len(f) >= 6:
        return "L ok key=%s hash=%s salt=0x%s host=%r" % (hx(f[2]), hx(f[3]), f[4], show(f[5]))
    if f[:2] == ["N", "ok"] and len(f) >= 7:
        r = "N ok encrypted=%s key=%s hash=%s salt=0x%s addr=%r" % (f[2], hx(f[3]), hx(f[4]), f[5], show(f[6]))
        return r + (" " + brief(f[8:]) if "|" in f else "")
    if f[:1] in (["S"], ["G"]) and f[1:2] == ["ok"] and len(f) >= 3:
        return "%s ok file=%s" % (f[0], hx(f[2]))
    if "|" in f:
        k = f.index("|")
        return " ".join(f[:k]) + " | " + brief(f[k + 1:])
    return " ".join(f)


def store_ok(obs):
    """observation of S or NS: did the store part succeed?"""
    for j in range(len(obs) - 1, -1, -1):
        if obs[j] == "S":
            return obs[j + 1:j + 2] == ["ok"]
    return False


def corr_mismatch(h, impl, model):
    keys = ["dir"] + [k for i in range(len(h.ops)) for k in ((str(i), str(i) + ".v") if h.ops[i][0] in ("S", "G") else (str(i),))]
    for k in keys:
        a, b = impl.get(k), model.get(k)
        if a != b:
            return (k, a, b)
    return None


def pretty_ops(h):
    out = []
    for o in h.ops:
        if o[0] == "S":
            out.append("Store(key=%d bytes, hash=%d bytes, salt=0x%s, host=%r) mtime=%s" % (
                len(hexs(o[1])), len(hexs(o[2])), o[3], show(o[4]), o[5]))
        elif o[0] == "L":
            out.append("Load")
        elif o[0] == "F":
            out.append("NewFromFile (new loader)")
        elif o[0] == "C":
            out.append("crash: file cut to %s bytes, mtime=%s, new loader" % (o[1], o[2]))
        elif o[0] == "TR":
            out.append("ANOTHER writer leaves the file cut to %s bytes, mtime=%s; loader lives on" % (o[1], o[2]))
        elif o[0] == "G":
            out.append("another loader: Store(key=%d bytes, hash=%d bytes, salt=0x%s, host=%r) mtime=%s; first loader lives on" % (
                len(hexs(o[1])), len(hexs(o[2])), o[3], show(o[4]), o[5]))
        elif o[0] == "M":
            out.append("caller overwrites every *Session it passed to Store / got from Load so far")
        elif o[0] == "X":
            out.append("foreign write of %d bytes, mtime=%s, new loader" % (len(hexs(o[1])), o[2]))
        elif o[0] == "N":
            out.append("NewMTProto(ServerHost=%r)" % show(o[1]))
        elif o[0] == "NS":
            out.append("NewMTProto(ServerHost=%r); SaveSession mtime=%s; new loader" % (show(o[1]), o[2]))
        else:
            out.append(" ".join(o))
    return out


def run_harness(ctx, hb, hists, name, isolate=False):
    hp = "%s/%s.hist" % (ctx.work, name)
    cp = "%s/%s.cases" % (ctx.work, name)
    ip = "%s/%s.impl" % (ctx.work, name)
    write_histories(hp, hists)
    rc, out = C.sh([hb, "run", hp, cp, ip] + (["isolate"] if isolate else []), env=ctx.env(), timeout=3000)
    if rc != 0:
        raise C.BuildError("harness run failed: " + out[-2000:])
    return cp, ip, out


def minimise(ctx, hb, h, kind):
    """greedy: drop single operations while the direct oracle still fails on the real code"""
    cur = h
    budget = 12
    while budget > 0 and len(cur.ops) > 1:
        budget -= 1
        variants = []
        for i in range(len(cur.ops)):
            v = Hist(str(i + 1), cur.tag, cur.path)
            v.setup = cur.setup
            v.ops = cur.ops[:i] + cur.ops[i + 1:]
            variants.append(v)
        _, ip, _ = run_harness(ctx, hb, variants, "min", isolate=True)
        obs = read_obs(ip)
        nxt = None
        for v in variants:
            if direct_oracle(v, kind, obs.get(v.id, {})) is not None:
                nxt = v
                break
        if nxt is None:
            break
        nxt.id = h.id
        cur = nxt
    return cur


def direct_key(h, kind, i):
    """stable key of a failing history: the operation sequence up to the failing operation with the equality
    pattern of modification times; the path shape only when the failing operation is a store (path handling),
    otherwise just what the directory is"""
    where = h.shape() if h.ops[i][0] in ("S", "NS") else {"D": "dir-exists", "M": "dir-missing", "F": "dir-is-file"}.get(kind, kind)
    return "history:%s:%s" % (where, h.sig(i))


def report_direct(ctx, h, kind, bad, obs):
    i, exp, got, what = bad
    key = direct_key(h, kind, i)
    C.violation(ctx, key,
                "%s [path %r, directory %s]: after %s: expected %s, got %s" % (
                    what, show(h.path), {"D": "exists", "M": "missing", "F": "is a regular file"}.get(kind, kind),
                    h.sig(i), brief(exp), brief(got)),
                {"history": ["\t".join(l) for l in h.lines()], "dir_kind": kind, "failing_op": i, "expected": exp, "got": got,
                 "what": what, "path": show(h.path), "ops": pretty_ops(h), "oracle": "direct (reference store semantics)",
                 "note": "path: '@' = scratch directory created with os.MkdirTemp, '%' = its base name; relative paths are relative to it"})


def run(ctx):
    hb = C.build_harness("root", pkg="./cmd/c12")
    hist = ctx.work + "/histories.txt"
    rc, out = C.sh([hb, "gen", ctx.tier, hist], env=ctx.env(), timeout=600)
    if rc != 0:
        raise C.BuildError("harness gen failed: " + out[-2000:])
    stats = {}
    for l in out.splitlines():
        f = l.split("\t")
        if len(f) == 3 and f[0] == "stat":
            stats[f[1]] = int(f[2])
    cases = ctx.work + "/cases.txt"
    impl_p = ctx.work + "/impl.txt"
    rc, out = C.sh([hb, "run", hist, cases, impl_p], env=ctx.env(), timeout=3000)
    if rc != 0:
        raise C.BuildError("harness run failed: " + out[-2000:])
    hyp = {}
    hypfail = []
    foreign_tmp = 0
    for l in out.splitlines():
        f = l.split("\t")
        if f[0] == "hyp" and len(f) == 3:
            hyp[f[1]] = int(f[2])
        elif f[0] == "hypfail":
            hypfail.append(f[1:])
        elif f[0] == "tmpdir-on-another-file-system" and len(f) == 2:
            foreign_tmp = int(f[1])

    pr = C.coq_props(PROPS)
    C.coq_obligation_violations(ctx, pr, "C12")

    coqchk = None
    if ctx.tier == "thorough" and not pr["failed"]:
        with C.Lock("coq"):
            rc, o = C.sh(["coqchk", "-silent", "-o", "-Q", "theories", "MTV", "MTV.Props.C12"], cwd=C.COQ, timeout=1500)
        good = rc == 0 and all(("* %s: <none>" % k) in o for k in (
            "Axioms", "Constants/Inductives relying on type-in-type", "Constants/Inductives relying on unsafe (co)fixpoints",
            "Inductives whose positivity is assumed"))
        coqchk = "coqchk -silent -o MTV.Props.C12: " + ("no axioms, no type-in-type, no unsafe fixpoints, no assumed positivity" if good else "FAILED")
        if not good:
            C.violation(ctx, "coqchk:Props/C12", "coqchk does not accept the closure of Props/C12.vo: " + o[-600:],
                        {"no_failing_input": True, "broken_obligation": "coqchk MTV.Props.C12", "log": o[-2000:]})

    C.build_model("C12")
    model_p = ctx.work + "/model.txt"
    C.run_model("C12", cases, model_p)

    hists = read_histories(cases)
    sym = {h.id: h for h in read_histories(hist)}
    impl = read_obs(impl_p)
    model = read_obs(model_p)

    evals = 0
    nontrivial = set()
    disagreements = 0
    direct_bad = 0
    samples = []
    min_time = 0.0
    known_cases = 0
    for h in hists:
        io = impl.get(h.id, {})
        mo = model.get(h.id, {})
        evals += len(h.ops)
        s = sym[h.id]
        s.kind = h.kind
        known = []
        bad = direct_oracle(h, h.kind, io, known)
        if known:
            known_cases += len(known)
            ki, kexp, kgot = known[0]
            stored = [None] + kexp.split(" ")[-4:]
            C.violation(ctx, KNOWN_UTF8,
                        "host name %r (not valid UTF-8) stored, read back as %r: expected %s, got %s" % (
                            show(stored[4]), show(kgot.split(" ")[-1]), brief(kexp), brief(kgot)),
                        {"history": ["\t".join(l) for l in s.lines()], "dir_kind": h.kind, "failing_op": ki,
                         "expected": kexp, "got": kgot, "ops": pretty_ops(s),
                         "session": {"key_hex": stored[1], "hash_hex": stored[2], "salt_u64_hex": stored[3], "host_hex": stored[4]},
                         "oracle": "direct (property text: server address - any byte values - read back identically)",
                         "theorem": "C12_hostname_not_utf8_refuted / C12_codec_any_host"})
        if bad is not None:
            direct_bad += 1
            if len(ctx.violations) >= 5:
                continue            # five distinct replays are reported at most; the rest is only counted
            # shrink the history on the real code (greedy deletion of operations) so that the key names the
            # smallest failing history; time-boxed
            if min_time < 15 and len(s.ops) <= 16:
                t1 = time.time()
                hm = minimise(ctx, hb, s, h.kind)
                if hm is not s:
                    _, ip2, _ = run_harness(ctx, hb, [hm], "minres", isolate=True)
                    io2 = read_obs(ip2).get(hm.id, {})
                    bad2 = direct_oracle(hm, h.kind, io2)
                    min_time += time.time() - t1
                    if bad2 is not None:
                        report_direct(ctx, hm, h.kind, bad2, io2)
                        continue
                min_time += time.time() - t1
            report_direct(ctx, s, h.kind, bad, io)
            continue
        mm = corr_mismatch(h, io, mo)
        if mm is not None:
            disagreements += 1
            k, a, b = mm
            C.violation(ctx, "correspondence:%s:%s" % (s.shape(), s.sig(int(k.split(".")[0]) if k != "dir" else 0)),
                        "model and implementation disagree on history %s [%s] at %s: implementation %s, model %s" % (
                            h.id, h.tag, k, brief(a or ["-"])[:200], brief(b or ["-"])[:200]),
                        {"no_failing_input": True, "history": ["\t".join(l) for l in s.lines()], "dir_kind": h.kind,
                         "at": k, "implementation": a, "model": b, "ops": pretty_ops(s),
                         "broken": "correspondence Misc/Session.v step vs internal/session + NewMTProto (the property's direct oracle passes on this history)"})
            continue
        ok_store = [i for i, o in enumerate(h.ops) if o[0] in ("S", "NS") and store_ok(io.get(str(i), []))]
        if ok_store and any(o[0] in ("L", "N", "NS") for o in h.ops[ok_store[0] + 1:]):
            crash = tuple(o[1] for o in h.ops if o[0] in ("C", "TR"))
            nontrivial.add((s.shape(), s.sig(), crash))
        if len(samples) < 6 and (int(h.id) % 577 == 3 or h.id in ("3", "27")):
            samples.append({"id": h.id, "tag": h.tag, "path": show(s.path), "ops": pretty_ops(s)[:8],
                            "observations": [brief(io.get(str(i), [])) for i in range(min(8, len(h.ops)))]})
    for hf in hypfail[:3]:
        C.violation(ctx, "hypothesis:%s" % hf[0],
                    "assumption %s about encoding/json does not hold on the real library for content %r" % (hf[0], show(hf[1])[:200]),
                    {"no_failing_input": True, "broken": "Section hypothesis " + hf[0], "content_hex": hf[1], "detail": hf[2:]})
    for k in hyp:
        if k.startswith("FAIL:") and not hypfail:
            C.violation(ctx, "hypothesis:" + k[5:], "assumption %s does not hold on the real library (%d cases)" % (k[5:], hyp[k]),
                        {"no_failing_input": True, "broken": "Section hypothesis " + k[5:]})
    if not samples and hists:
        h = hists[0]
        samples.append({"id": h.id, "tag": h.tag, "ops": pretty_ops(sym[h.id])[:8]})
    stats.update({"validated:" + k: v for k, v in hyp.items()})
    stats["temp_directory_on_another_file_system_than_the_session_files"] = bool(foreign_tmp)
    if coqchk:
        ctx.notes.append(coqchk)
    mcov = c12m.stage(ctx)   # end-to-end half against the in-process server
    cov = C.proof_coverage(
        pr, "make -f Makefile.coq theories/Props/C12.vo (coqc 8.16.1) in /verif/coq", TRUSTED,
        {"evaluations": evals, "distinct_nontrivial": len(nontrivial),
         "rule": "histories of Store/Load/NewFromFile/crash/foreign write/cut or complete store by another writer while the loader lives on/NewMTProto/NewMTProto+SaveSession on one path in a scratch directory, "
                 "run on internal/session + NewMTProto and on the extracted Coq step function; evaluations = operations compared; "
                 "non-trivial = distinct (path shape, operation sequence with the equality pattern of forced modification times, crash offsets) "
                 "among histories with a successful store followed by a load or client start on which model, implementation and the reference store agree",
         "samples": samples, "input_distribution": stats, "disagreements_checked": disagreements,
         "direct_oracle_failures": direct_bad, "histories": len(hists),
         "known_findings": {KNOWN_UTF8: {
             "observations": known_cases,
             "what": "a host name that is not valid UTF-8 is read back with U+FFFD in place of the offending bytes (encoding/json "
                     "coerces strings); everything else about such sessions (key, hash, salt, error class, no panic, torn files, "
                     "resume) is checked like for any other session; Coq: C12_hostname_not_utf8_refuted (witness), "
                     "C12_codec_any_host (what comes back), session_ok = the guard under which the round trip is proved"}},
         "projection": "per Store ok/err and the bytes of the file; per Load the class ok/not-found/other error/panic and on ok key, hash, salt, host; "
                       "per NewMTProto error or (encrypted, key, hash, salt, address); filepath.Dir of the path; utf8 validity of the host. "
                       "Error texts, timestamps, pointers not compared"})
    cov.update(mcov)
    return C.finish(ctx, "proof", cov, ASSUME)


def replay(ctx, path):
    obj = json.load(open(path))
    if "history" not in obj or obj.get("no_failing_input"):
        print("replay names a broken obligation / correspondence, re-running the full check")
        return run(ctx)
    hb = C.build_harness("root", pkg="./cmd/c12")
    hp = ctx.work + "/replay.hist"
    with open(hp, "w") as f:
        f.write("\n".join(obj["history"]) + "\n")
    cp, ip = ctx.work + "/replay.cases", ctx.work + "/replay.impl"
    rc, out = C.sh([hb, "run", hp, cp, ip, "isolate"], env=ctx.env(), timeout=600)
    if rc != 0:
        raise C.BuildError("harness run failed: " + out[-2000:])
    hs = read_histories(cp)
    impl = read_obs(ip)
    rcode = 0
    for h in hs:
        io = impl.get(h.id, {})
        for i, o in enumerate(pretty_ops(h)):
            print("  %2d %-70s -> %s" % (i, o[:70], brief(io.get(str(i), []))))
        known = []
        bad = direct_oracle(h, h.kind, io, known)
        for (ki, kexp, kgot) in known:
            print("op %d: known finding %s: expected %s, got %s" % (ki, KNOWN_UTF8, brief(kexp), brief(kgot)))
        if bad is not None:
            print("op %d: expected %s, got %s (%s)" % (bad[0], brief(bad[1]), brief(bad[2]), bad[3]))
            print("VIOLATION property=C12 replay=%s" % path)
            rcode = 1
        else:
            print("history behaves like the reference store")
    return rcode
