"""C09 - each RPC call returns exactly the result addressed to its own request (client as LTS:
Coq invariants over all histories + trace validation of the real client against the extracted step)."""
from .. import common as C
from . import client_common as CC


def run(ctx):
    pr, stats, validated, dis, distinct, samples, exh = CC.run_prop(ctx, "C09", n_quick=400, n_thorough=4000)
    return CC.finish(ctx, "C09", pr, stats, validated, dis, distinct, samples, exh,
                     "Direct oracle for C09: every completed call returned kind:token of the answer the reference server addressed "
                     "(req_msg_id) to the frame that carried this call's token; a declared Vector<> arrives as the typed slice; the process "
                     "must not die while results are delivered.")


def replay(ctx, path):
    r = CC.replay(ctx, "C09", path)
    return run(ctx) if r is None else r
