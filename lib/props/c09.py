"""C09 - each RPC call returns exactly the result addressed to its own request (client as LTS:
Coq invariants over all histories + trace validation of the real client against the extracted step)."""
import os
import subprocess

from .. import common as C
from . import client_common as CC
from . import live_common as L


def reqid_stage(ctx, stats):
    """mtproto.go reqMsgIDOf (the id under which the receive loop looks up decoder hints) against TL/ReqId.v
    req_msg_id_of on message bodies of every shape; direct oracle: a body built as rpc_result{id, ...}, plain or packed
    with an intact stream, must give id; everything that is not a result must give 0; never a panic."""
    hb = C.build_harness("root", pkg="./cmd/c09")
    C.build_model("C09")
    cases = ctx.work + "/reqid_cases.txt"
    rc, out = C.sh([hb, "reqid", ctx.tier, cases], env=ctx.env(), timeout=900, cwd=ctx.work)
    if rc != 0 or not os.path.exists(cases):
        raise C.BuildError("c09 reqid failed (rc=%s): %s" % (rc, out[-1500:]))
    mo = ctx.work + "/reqid_model.txt"
    with open(cases, "rb") as fin, open(mo, "wb") as fout:
        p = subprocess.run(["%s/model_C09" % C.BIN, "reqid"], stdin=fin, stdout=fout, stderr=subprocess.PIPE, timeout=900)
    if p.returncode != 0:
        raise C.BuildError("model driver C09 reqid failed: " + p.stderr.decode()[-1500:])
    model = {f[0]: f[1] for f in C.read_tsv(mo) if len(f) >= 2}
    n = 0
    for f in C.read_tsv(cases):
        if f[0] != "K":
            continue
        _, cid, kind, body, impl = f[:5]
        n += 1
        stats["reqid_" + kind] += 1
        want = None
        if len(f) > 5 and f[5] != "-":
            want = f[5]
        elif kind in ("other", "packed-other", "packed-notgzip", "packed-empty", "packed-longheader", "result-cut", "packed-cutresult"):
            want = "0"
        key = "reqid:%s:%s" % (kind, C.digest([body]) if hasattr(C, "digest") else body[:40])
        rep = {"kind": "reqid", "body_kind": kind, "body_hex": body if len(body) < 4000 else body[:4000] + "...", "case": cid,
               "how": "harness/root/cmd/c09 reqid: mtproto.VerifReqMsgIDOf(body)"}
        if impl == "panic":
            C.violation(ctx, key, "reqMsgIDOf panics on a %s body (%d bytes): the receive loop dies before the message is even decoded"
                        % (kind, len(body) // 2), dict(rep, expected="an id or 0", got="panic"))
        elif want is not None and impl != want:
            C.violation(ctx, key, "decoder hints are looked up under id %s for a %s body whose request id is %s: the caller's hints are "
                        "not found (a Vector<> result cannot be decoded) or another caller's are used" % (impl, kind, want),
                        dict(rep, expected=want, got=impl, oracle="the id the harness wrote into the body"))
        elif model.get(cid) != impl:
            C.violation(ctx, key, "reqMsgIDOf gives %s on a %s body, the model TL/ReqId.v req_msg_id_of gives %s" % (impl, kind, model.get(cid)),
                        dict(rep, expected=model.get(cid), got=impl, oracle="model TL/ReqId.v", no_failing_input=True))
    stats["reqid_cases"] = n
    if n == 0:
        raise C.BuildError("c09 reqid produced no cases")


def table_stage(ctx, stats):
    """internal/utils/sync_stuff.go SyncIntObjectChan / SyncIntReflectTypes against Client/Table.v: random sequential
    operation sequences replayed through the extracted tab_apply / set_apply + lookup / memz; concurrent runs with a
    per-key linearizability check (computed by the harness)."""
    hb = C.build_harness("root", pkg="./cmd/c09")
    C.build_model("C09")
    cases = ctx.work + "/table_cases.txt"
    rc, out = C.sh([hb, "table", ctx.tier, cases], env=ctx.env(), timeout=900, cwd=ctx.work)
    if rc != 0 or not os.path.exists(cases):
        raise C.BuildError("c09 table failed (rc=%s): %s" % (rc, out[-1500:]))
    mo = ctx.work + "/table_model.txt"
    with open(cases, "rb") as fin, open(mo, "wb") as fout:
        p = subprocess.run(["%s/model_C09" % C.BIN, "table"], stdin=fin, stdout=fout, stderr=subprocess.PIPE, timeout=900)
    if p.returncode != 0:
        raise C.BuildError("model driver C09 table failed: " + p.stderr.decode()[-1500:])
    model = {(f[1], f[2]): f[3] for f in C.read_tsv(mo) if f and f[0] == "Q" and len(f) >= 4}
    seqs = {}
    n = nl = 0
    for f in C.read_tsv(cases):
        if f[0] == "Q":
            _, seq, idx, tab, op, key, arg, res = f[:8]
            n += 1
            stats["table_%s_%s" % ("response" if tab == "r" else "hints", op)] += 1
            seqs.setdefault(seq, []).append("%s %s %s %s" % (tab, op, key, arg))
            want = model.get((seq, idx))
            got = res
            if tab == "h" and op == "get" and not res.startswith("panic"):
                got = "none" if res == "none" else "some"      # the model keeps the hint table's keys only
            if got != want:
                what = "panics" if res.startswith("panic") else "answers %s" % res
                C.violation(ctx, "table:%s:%s:%s" % ("response" if tab == "r" else "hints", op, "panic" if res.startswith("panic") else "result"),
                            "%s table: %s(%s) %s after the operations %s; the table of Client/Table.v (a finite map: Add overwrites, "
                            "Delete removes) answers %s" % ("response" if tab == "r" else "hint", op, key, what, "; ".join(seqs[seq][-12:-1]), want),
                            {"kind": "table", "sequence": seqs[seq], "expected": want, "got": res,
                             "how": "harness/root/cmd/c09 table: the operations on a fresh utils.SyncIntObjectChan (r) / SyncIntReflectTypes (h)"})
        elif f[0] == "L":
            nl += 1
            if f[3] != "ok":
                C.violation(ctx, "table:not-linearizable", "the response table used from several goroutines at once gave answers for key %s that no "
                            "order of the calls explains (register semantics: Add sets, Delete clears, Get / Has read): %s" % (f[2], f[4][:600]),
                            {"kind": "table-concurrent", "key": f[2], "history": f[4], "expected": "a linearizable history", "got": "none found"})
    stats["table_operations"] = n
    stats["table_concurrent_key_histories"] = nl
    if n == 0 or nl == 0:
        raise C.BuildError("c09 table produced no cases")


def run(ctx):
    pr, stats, validated, dis, distinct, samples, exh = CC.run_prop(ctx, "C09", n_quick=400, n_thorough=4000)
    reqid_stage(ctx, stats)
    table_stage(ctx, stats)
    # second batch (cmd/c11, Client/Live.v): requests written more than once - rejected by bad_server_salt and re-sent under a
    # new msg id - and requests answered on a later connection; the answer to the LATEST id must reach the caller, typed
    n = 100 if ctx.tier == "quick" else 2000
    lstats, lval, ldis, ldistinct, lsamples, lexh = L.run_batches(ctx, "C09", "c11", n, [L.PINNED + "/pinned-c11.script"], ())
    for k, v in lstats.items():
        stats["live_" + k] += v
    stats["schedules"] += lstats["schedules"]
    stats["actions"] += lstats["actions"]
    validated, dis, distinct, exh = validated + lval, dis + ldis, distinct | ldistinct, exh + lexh
    return CC.finish(ctx, "C09", pr, stats, validated, dis, distinct, samples, exh,
                     "Direct oracle for C09: every completed call returned kind:token of the answer the reference server addressed "
                     "(req_msg_id) to the frame that carried this call's token; a declared Vector<> arrives as the typed slice; the process "
                     "must not die while results are delivered. Hint lookup: reqMsgIDOf (hook VerifReqMsgIDOf) on bodies of every shape - "
                     "results plain / packed / packed with a tail / cut / with damaged or foreign streams / large, other constructors carrying "
                     "the id in the same place, random bytes; ids over the full 64-bit range - against TL/ReqId.v req_msg_id_of (C09_hint_key_*) "
                     "and against the id the harness wrote; packed results also from compressors that flush inside the first 16 bytes, "
                     "write stored blocks or several gzip members (refserver.GzipStream: what the first read of an inflater hands out is "
                     "shorter than the object). Hand-over before the caller listens (script op 'early rx'): the receive loop is released "
                     "at its hand-over while the owner is still inside sendPacket; it must wait (no arrival within 40 ms), then the owner "
                     "is released and both must go on as in the other order. Second batch (cmd/c11, extracted step2 of Client/Live.v): "
                     "requests rejected by bad_server_salt and written again under a new msg id, connections closed and re-opened: every "
                     "completed call returned the answer addressed to the LATEST id of its own request, vectors typed (keys live:...).")


def replay(ctx, path):
    import json
    if "profile" in json.load(open(path)):
        r = L.replay(ctx, "C09", path)
    else:
        r = CC.replay(ctx, "C09", path)
    return run(ctx) if r is None else r
