"""Shared check logic of the properties stated over the extended client model Client/Live.v:
C11 (salt rotation), C16 (nothing the server sends stops the receive loop) and the reconnect /
repeated-delivery batch of C10.

Pipeline of one run:
  1. build harness/root/cmd/c11 against the tree (tag verif: yield hooks) and the extracted model (model_C11)
  2. Props/Cxx.v re-checked by coqc (obligations)
  3. the harness runs schedules against the real client + in-process reference server (+ key-exchange front
     for freshly keyed sessions) under the controlled scheduler, each batch of schedules in a child process
     (a panic of the receive loop kills the process: that is an observation), and writes a trace
  4. the extracted `step2` replays every trace; every action must be accepted with an equal projection
  5. direct-oracle failures, deaths, stalls and model disagreements become violations; replay = the schedule
"""
import collections
import hashlib
import json
import os
import re
import subprocess

from .. import common as C

PINNED = C.V + "/harness/root/cmd/c11/scripts"


class Sched:
    __slots__ = ("idx", "ncallers", "desc", "cfg", "script", "acts", "rets", "wire", "viol", "final", "status",
                 "stack", "lastp", "died", "epilogue")

    def __init__(self, idx, n, desc, cfg):
        self.idx, self.ncallers, self.desc, self.cfg = idx, n, desc, cfg
        self.script, self.acts, self.rets, self.wire, self.viol = [], [], [], [], []
        self.final, self.status, self.stack, self.lastp, self.died = None, None, None, "", None
        self.epilogue = []


def parse_trace(path):
    out = collections.OrderedDict()
    with open(path, errors="replace") as f:
        for line in f:
            p = line.rstrip("\n").split("\t")
            if len(p) < 2:
                continue
            k, idx = p[0], p[1]
            if k == "B":
                out[idx] = Sched(idx, int(p[2]), p[3] if len(p) > 3 else "", p[4] if len(p) > 4 else "")
                continue
            s = out.get(idx)
            if s is None:
                continue
            if k == "S":
                s.script.append(p[2])
            elif k == "A":
                s.acts.append((p[2], p[3], p[4]))
            elif k == "R":
                s.rets.append(p[2:])
            elif k == "W":
                s.wire.append(p[2:])
            elif k == "V":
                s.viol.append((p[2], p[3], p[4]))
            elif k == "F":
                s.final = p[2]
            elif k == "K":
                s.stack = p[2]
            elif k == "P":
                s.lastp = p[2]
            elif k == "D":
                s.died = p[2]
            elif k == "G":
                s.epilogue.append(p[2])
            elif k == "E":
                s.status = p[2]
    return out


def model_input(scheds, path):
    with open(path, "w") as f:
        for s in scheds.values():
            f.write("B\t%s\t%s\n" % (s.idx, s.cfg))
            for n, lbl, obs in s.acts:
                f.write("A\t%s\t%s\t%s\t%s\n" % (s.idx, n, lbl, obs))
            f.write("F\t%s\n" % s.idx)


def parse_model(path):
    m, mf = {}, {}
    with open(path) as f:
        for line in f:
            p = line.rstrip("\n").split("\t")
            if p[0] == "M":
                m[(p[1], p[2])] = p[3]
            elif p[0] == "MF":
                mf[p[1]] = p[2:]
    return m, mf


def points_only(proj):
    """stable part of a projection: actor@point and item classes, no numbers"""
    out = []
    for it in (proj or "none").split(" "):
        if "@" in it:
            out.append(re.sub(r"^c\d+@", "c@", it))
        elif it.startswith("W:"):
            f = it.split(":")
            out.append("W:" + f[1])
        elif it.startswith("REJECT"):
            out.append(re.sub(r"\(.*\)", "", it))
        else:
            out.append(it.split(":")[0].split("=")[0])
    return ",".join(out)


def record(ctx, hb, profile, mode, arg, name, procs=None):
    tr = "%s/%s.trace" % (ctx.work, name)
    env = ctx.env()
    if procs:
        env["GOMAXPROCS"] = str(procs)
    env["VERIF_SEED"] = str(ctx.seed + 1000003 * getattr(ctx, "seed_shift", 0))
    rc, out = C.sh([hb, "run", profile, mode, arg, tr], env=env, timeout=3000, cwd=ctx.work)
    if rc != 0:
        raise C.BuildError("client harness c11 (%s %s %s) failed rc=%s (harness trouble, no verdict): %s"
                           % (profile, mode, arg, rc, out[-2000:]))
    scheds = parse_trace(tr)
    mi = "%s/%s.model_in" % (ctx.work, name)
    mo = "%s/%s.model_out" % (ctx.work, name)
    model_input(scheds, mi)
    C.run_model("C11", mi, mo)
    m, mf = parse_model(mo)
    return scheds, m, mf


def killer(lastp):
    """'dispatch:unregistered-constructor' -> 'unregistered-constructor'; 'read:transport:errcode' -> 'transport:errcode';
    'deliver:dispatch:rpc_result' -> 'deliver:rpc_result'"""
    p = (lastp or "unknown").split(":")
    if p[0] in ("dispatch", "read") and len(p) > 1:
        p = p[1:]
    elif p[0] in ("deliver", "notify") and len(p) > 2 and p[1] in ("dispatch", "read"):
        p = [p[0]] + p[2:]
    p = [x for x in p if x != "item"]
    # the Go type of an unhandled object stays in the text, not in the key
    out = []
    for x in p:
        if out and out[-1] in ("update", "undecodable") and "." in x:
            continue
        out.append(x)
    return ":".join(out)


def stall_key(s):
    """stable name of a stall: which client function the receive loop is blocked in (from the goroutine dump) and
    on which message"""
    st = s.status  # stuck:<who>-after-<point>:<lastp>[:in-<function>]
    body = st[len("stuck:"):]
    who = body.split(":")[0]
    m = re.search(r":in-([A-Za-z\-]+)$", st)
    if m:
        who = m.group(1)
    return who + ":" + killer(s.lastp)


def confirm_stall(ctx, hb, profile, s, tag):
    """A stall verdict is confirmed before it is reported: the schedule is run once more, alone (no other worker of
    this check is running), with a 4x watchdog. A real stall is deterministic under the controlled scheduler, so it
    stalls again; a verdict that does not repeat was the machine being slow."""
    name = "confirm-%s-%s" % (re.sub(r"[^A-Za-z0-9]", "_", tag), s.idx)
    sp = script_file(ctx, name, [(s.ncallers, "confirm", s.cfg, s.script)])
    tr = "%s/%s.trace" % (ctx.work, name)
    env = ctx.env()
    base = int(os.environ.get("VERIF_WATCHDOG_MS", "8000") or "8000")
    env["VERIF_WATCHDOG_MS"] = str(4 * base)
    env["VERIF_STALL_MS"] = str(4 * int(os.environ.get("VERIF_STALL_MS", "300") or "300"))
    # once as the machine is, then on one processor (see client_common.confirm_stall)
    last = None
    for procs in (None, "1"):
        if procs:
            env["GOMAXPROCS"] = procs
        rc, out = C.sh([hb, "run", profile, "script", sp, tr], env=env, timeout=1200, cwd=ctx.work)
        if rc != 0:
            raise C.BuildError("client harness c11 failed while confirming a stall (rc=%s): %s" % (rc, out[-1500:]))
        again = parse_trace(tr)
        for a in again.values():
            last = a
            if (a.status or "").startswith("stuck"):
                return True, a
            break
    return False, last


def evaluate(ctx, prop, profile, scheds, m, mf, stats, tag, hb=None):
    """Adds violations of `prop` for one batch; returns (validated, disagreements)."""
    validated = 0
    disagreements = 0
    for s in scheds.values():
        replay = {"schedule": s.script, "callers": s.ncallers, "config": s.cfg, "profile": profile, "batch": tag,
                  "index": int(s.idx),
                  "how": "written to a file as 'S 0 <callers> replay' + 'cfg <config>' + these lines + 'E' and run with: "
                         "c11 run <profile> script <file> <trace>  (./check %s --replay <this file> does that)" % prop}
        stats["schedules"] += 1
        stats["actions"] += len(s.acts)
        stats["callers_%d" % s.ncallers] += 1
        st = s.status or "no-end-line"
        stats["status_" + st.split(":")[0]] += 1
        for kv in s.cfg.split(" "):
            stats["cfg_" + kv] += 1
        # ---- direct oracles computed by the harness on the real client -------------------------
        for (p, key, text) in s.viol:
            if p == prop:
                C.violation(ctx, key, "%s [schedule %s/%s]" % (text, tag, s.idx),
                            dict(replay, oracle="direct", expected="property holds", got=text))
        if st.startswith("died"):
            k = killer(s.lastp)
            if prop == "C16":
                key = "receive-loop-dies:" + k
            elif prop == "C11":
                key = "salt-rotation:process-died:" + k
            else:
                key = "process-died:" + k
            C.violation(ctx, key, "the client process was killed from inside its receive loop while working on '%s' (%s) "
                        "[schedule %s/%s]" % (s.lastp, st, tag, s.idx),
                        dict(replay, oracle="direct (child process supervision)", expected="the process survives every server message",
                             got=st, panic=s.died))
        elif st.startswith("stuck"):
            k = stall_key(s)
            stall_keys = ["receive-loop-blocked:" + k, "salt-rotation:receive-loop-stalled:" + k, "stalled:" + k]
            known_already = any(v[0] in stall_keys for v in ctx.violations)
            if hb is not None and not known_already and not tag.startswith("confirm"):
                real, again = confirm_stall(ctx, hb, profile, s, tag)
                if not real:
                    stats["timing_retries"] += 1
                    ctx.notes.append("a stall verdict (%s, schedule %s/%s) did not repeat when the schedule was run alone with a 4x "
                                     "watchdog: counted as timing_retries, not reported" % (st, tag, s.idx))
                    continue
                stats["stalls_confirmed"] += 1
            if prop == "C16":
                key = "receive-loop-blocked:" + k
            elif prop == "C11":
                key = "salt-rotation:receive-loop-stalled:" + k
            else:
                key = "stalled:" + k
            C.violation(ctx, key, "stall: an operation the scheduler had to release (the only one left, or one known to be enabled) "
                        "did not complete within the watchdog: %s [schedule %s/%s]" % (st, tag, s.idx),
                        dict(replay, oracle="direct (watchdog + goroutine dump)", expected="enabled step completes", got=st,
                             goroutines=s.stack))
        elif st.startswith("notenabled"):
            C.violation(ctx, "model-disagrees:script-step-not-enabled",
                        "a history accepted by the model cannot be executed on the client: %s [schedule %s/%s]" % (st, tag, s.idx),
                        dict(replay, oracle="model", no_failing_input=True, expected="step enabled", got=st))
        elif st.startswith("setup-refused") and prop == "C11":
            continue   # reported above (direct oracle); nothing was run
        elif st != "ok":
            raise C.BuildError("harness trouble in schedule %s/%s: %s" % (tag, s.idx, st))
        # ---- trace validation against the extracted model ------------------------------------
        ok = True
        for n, lbl, obs in s.acts:
            got = m.get((s.idx, n))
            if got != obs:
                ok = False
                disagreements += 1
                key = "model-disagrees:client=%s:model=%s" % (points_only(obs), points_only(got))
                C.violation(ctx, key, "trace validation: action %s (%s) observed '%s', model '%s' [schedule %s/%s]"
                            % (n, " ".join(lbl.split(" ")[:2]), obs, got, tag, s.idx),
                            dict(replay, oracle="extracted Client/Live.v step2", no_failing_input=True, expected=got, got=obs,
                                 action=int(n), label=lbl))
                break
        if ok and st == "ok":
            fm = mf.get(s.idx, ["?"])
            if s.final != fm[0]:
                ok = False
                disagreements += 1
                C.violation(ctx, "model-disagrees:final-state", "shared state at the end: client %s, model %s [schedule %s/%s]"
                            % (s.final, fm[0], tag, s.idx), dict(replay, oracle="model", no_failing_input=True, expected=fm[0], got=s.final))
            elif prop == "C10" and len(fm) > 1 and "failed=0" in fm[1] and "unacked=0" not in fm[1]:
                C.violation(ctx, "model-disagrees:unacked", "model's own ack check fails on an accepted trace: %s" % fm[1],
                            dict(replay, oracle="model", no_failing_input=True))
            if len(fm) > 1:
                mm = re.search(r"failed=(\d+) retries=(\d+)", fm[1])
                if mm:
                    stats["frames_ending_in_error"] += int(mm.group(1))
                    stats["retries_ordered"] += int(mm.group(2))
        if ok:
            validated += 1
        for g in s.epilogue:
            if g.startswith("window="):
                stats["epilogue_request_in_the_reconnect_window:" + g[7:].split(":")[0]] += 1
        # ---- distribution ------------------------------------------------------------------------
        for l in s.script:
            w = l.split(" ")
            if w[0] == "call":
                stats["call_" + w[2]] += 1
            elif w[0] in ("close", "drain", "raw", "finish", "probe", "early"):
                stats["op_" + w[0]] += 1
                if w[0] == "raw":
                    stats["raw_" + w[1]] += 1
            elif w[0] == "srv":
                for op in ("badsalt", "newsess", "badmsg", "garbage", "svc", "cont", "gz", "res", "err", "pong", "ack", "upd", "reg", "enum"):
                    if op in w[3:]:
                        stats["srv_" + op] += 1
        for r in s.rets:
            if r[3] != "pending":
                stats["calls_completed"] += 1
            if len(r) > 5 and r[5].isdigit() and int(r[5]) > 1:
                stats["calls_resent"] += 1
    return validated, disagreements


def nontrivial(s, prop):
    """distinct-nontrivial rule: a call completed and the schedule contains what the property is about"""
    done = any(r[3] != "pending" for r in s.rets)
    txt = "\n".join(s.script)
    if prop == "C11":
        return done and ("badsalt" in txt or "newsess" in txt)
    if prop == "C16":
        return done and any(x in txt for x in ("garbage", "badmsg", "raw ", "svc ", "close", "cont 0"))
    return done and ("close" in txt or "svc" in txt)


def script_file(ctx, name, entries):
    path = "%s/%s.script" % (ctx.work, name)
    with open(path, "w") as f:
        for i, (ncallers, desc, cfg, lines) in enumerate(entries):
            f.write("S %d %d %s\n" % (i, ncallers, desc))
            f.write("cfg %s\n" % cfg)
            for l in lines:
                f.write(l + "\n")
            f.write("E\n")
    return path


def run_batches(ctx, prop, profile, n_random, pinned, enum_scopes=(), extra=()):
    hb = C.build_harness("root", pkg="./cmd/c11")
    C.build_model("C11")
    stats = collections.Counter()
    validated = 0
    disagreements = 0
    distinct = set()
    samples = []
    exhaustive = []
    batches = []
    for p in pinned:
        batches.append(("pinned-" + os.path.basename(p).replace(".script", ""), "script", p))
        # the pinned histories once more on ONE processor: a goroutine started with `go` then first runs when its parent
        # blocks, so whatever depends on when a fresh goroutine runs (captured loop variables, wake-ups racing with a
        # registration) is decided the same way on every run instead of by the load of the machine
        batches.append(("pinned-" + os.path.basename(p).replace(".script", "") + "-1cpu", "script", p))
    batches.append(("random", "random", str(n_random)))
    for (k0, k1) in enum_scopes:
        path = "%s/enum-%s-%s.script" % (ctx.work, k0, k1)
        with open(path, "wb") as f:
            p = subprocess.run(["%s/model_C11" % C.BIN, "enum", k0, k1, "100000000"], stdout=f, stderr=subprocess.PIPE, timeout=3000)
        if p.returncode != 0:
            raise C.BuildError("model enumeration failed: " + p.stderr.decode()[-1000:])
        exhaustive.append(p.stderr.decode().strip())
        batches.append(("enum-%s-%s" % (k0, k1), "script", path))
    batches = [(t, profile, mo, a) for (t, mo, a) in batches] + list(extra)
    for (tag, prof, mode, arg) in batches:
        scheds, m, mf = record(ctx, hb, prof, mode, arg, tag, procs=1 if tag.endswith("-1cpu") else None)
        v, d = evaluate(ctx, prop, prof, scheds, m, mf, stats, tag, hb)
        validated += v
        disagreements += d
        for s in scheds.values():
            if nontrivial(s, prop):
                distinct.add(hashlib.sha1(("\n".join(s.script) + s.cfg).encode()).hexdigest())
            if len(samples) < 3 and tag == "random" and len(s.script) < 45 and nontrivial(s, prop):
                samples.append({"callers": s.ncallers, "config": s.cfg, "schedule": s.script,
                                "observed": [a[2] for a in s.acts][:60], "returns": s.rets,
                                "frames_seen_by_server(index,id,seq_no,kind,acked,connection,salt)": s.wire})
    if not samples:
        samples.append({"note": "no short non-trivial schedule in this run", "batches": [b[0] for b in batches]})
    return stats, validated, disagreements, distinct, samples, exhaustive


def coqchk(ctx, prop, exhaustive):
    with C.Lock("coq"):
        rc, out = C.sh(["coqchk", "-silent", "-o", "-Q", "theories", "MTV", "MTV.Props.%s" % prop], cwd=C.COQ, timeout=2400)
    okc = rc == 0 and "Axioms: <none>" in out
    exhaustive.append("coqchk -o MTV.Props.%s: %s" % (prop, "ok, Axioms: <none>" if okc else "FAILED"))
    if not okc:
        C.violation(ctx, "coq:coqchk", "coqchk does not accept Props/%s.vo: %s" % (prop, out[-600:]),
                    {"no_failing_input": True, "broken_obligation": "coqchk MTV.Props.%s" % prop, "log": out[-2000:]})


TRUSTED = [
    "harness/root/refserver (in-process reference server for a keyed session; envelope via the repository's aes_ige in the server "
    "direction, bodies via the repository's tl package), harness/root/cmd/c11/keyex.go (key-exchange front for freshly keyed sessions: "
    "RSA / DH arithmetic of a conformant server, then a byte proxy to the reference server), harness/root/csched + cmd/c11 (controlled "
    "scheduler, trace recorder, closing procedure with probe call, direct oracles, child-process supervision)",
    "the scheduler's notion of 'enabled' = Go semantics of sync.Mutex (free/held), unbuffered channel rendezvous, blocking socket read "
    "(data available or peer closed); no write is scheduled between the server's close and the client's reconnect",
    "coq/extract/C11/driver.ml (label parser, projection printer, two-caller rotation enumerator)",
    "loopback TCP delivers bytes in order and EOF after them; goroutine scheduling is fair; the 65 s read deadline and the 60 s pinger "
    "never fire inside a schedule (runs last milliseconds)",
]

ASSUMPTIONS = [
    "model granularity: one label = the code between two verifYield points (the point `reconnecting` between Disconnect and "
    "CreateConnection is passed through: the reconnect is one step); blocks between yield points are atomic because the scheduler never "
    "lets two goroutines run between yields concurrently (one release at a time; a rendezvous releases exactly the two partners)",
    "liveness is stated as existence of a schedule of the client's own goroutines (C16_alive) and as enabledness of the partner of every "
    "channel send of the receive loop (C11_no_stall): scheduler fairness and real time-outs are assumed, not modelled; pinger, the 65 s "
    "read deadline, abortive connection loss (RST) and writes racing with a close are outside the explored histories",
    "PHONE_MIGRATE_X (Reconnect from a caller's goroutine) stays the terminal caller pc CStuck of Client/Model.v: it belongs to C17",
    "the key exchange is one atomic label of the model (its internals are C06 / C07); the session store never fails",
    "a message whose body cannot be handled (undecodable, rpc_result nobody waits for, bad_msg_notification) is acknowledged like any "
    "other and does not cut off the rest of its container; of several errors inside one frame only the first reaches Warnings (that is "
    "the code); what the transport itself refuses (undecryptable packet, 4-byte error code) has no msg_id and is not acknowledged",
    "a stall verdict is reported only if it repeats when the schedule is run alone with a 4x watchdog (timing_retries in the input "
    "distribution counts the ones that did not)",
]


def finish(ctx, prop, pr, stats, validated, disagreements, distinct, samples, exhaustive, rule, projection):
    cov = C.proof_coverage(
        pr, "make -f Makefile.coq theories/Props/%s.vo (coqc 8.16.1) in /verif/coq" % prop, TRUSTED,
        {"evaluations": stats["schedules"], "distinct_nontrivial": len(distinct),
         "traces_validated_against_impl": validated, "transitions": stats["actions"],
         "rule": rule, "samples": samples, "input_distribution": dict(stats), "disagreements_checked": disagreements,
         "projection": projection, "exhaustive_scopes": exhaustive})
    return C.finish(ctx, "proof", cov, ASSUMPTIONS)


PROJECTION = ("per action: actor@yield-point (callers, receive loop; for a rendezvous also the partner's next point and the value it "
              "returned as kind:token), per written frame (request|ack, seq_no, msg_id mod 4, msg_id above previous, salt field, acked server "
              "id), after every receive-loop step the length of the Warnings channel, the handler's count and the salt in the session file, "
              "at a reconnect the connection generation and the number of plain frames; at the end seq_no, table / hint sizes, salt, "
              "generation, queue length. Never absolute client msg_ids, times, error texts, goroutine ids")


def replay(ctx, prop, path):
    obj = json.load(open(path))
    if "schedule" not in obj:
        print("replay names a broken obligation: re-running the check")
        return None
    hb = C.build_harness("root", pkg="./cmd/c11")
    C.build_model("C11")
    profile = obj.get("profile", prop.lower())
    sp = script_file(ctx, "replay", [(obj.get("callers", 2), "replay", obj.get("config", "warn=nil handler=0 fresh=0"), obj["schedule"])])
    scheds, m, mf = record(ctx, hb, profile, "script", sp, "replay")
    stats = collections.Counter()
    evaluate(ctx, prop, profile, scheds, m, mf, stats, "replay")
    for s in scheds.values():
        print("status=%s returns=%s" % (s.status, s.rets))
        for a in s.acts[-6:]:
            print("  ", a)
    bad = [v for v in ctx.violations if v[0] == obj.get("key")]
    for key, text, _ in bad:
        print("  %s: %s" % (key, text[:300]))
    if bad:
        print("VIOLATION property=%s replay=%s" % (prop, path))
        return 1
    return 0
