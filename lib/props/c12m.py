"""C12, live half: a client started on a store that holds a session resumes with that key, salt and address
without a new key exchange (and keeps doing so when the server closes the connection); on a missing store the
first frame is a plain req_pq; on a file cut short no client comes into being and nothing is sent.

stage(ctx) -> dict of coverage additions; violations are recorded under keys resume:<what>:<scenario>.

Expected behaviour = the pure decision of coq/theories/Misc/SessionResume.v, proved in Props/C12m.v
(C12_resume_wire, C12_restart_wire, C12_key_exchange_iff_not_loaded; re-checked by this stage):
  complete file -> key_exchange = false, first_frame = WEncrypted stored_key_id stored_salt, dial_addr = stored address,
                   the same after reconnect, every request frame likewise;
  absent file   -> first_frame = WPlainReqPQ, dial_addr = configured address;
  cut-short file-> NewMTProto = Err: no client, no connection, no frame.
The harness (harness/root/cmd/e2e resume; one child process per scenario) observes these projections at the reference
server, which knows only the stored key, with a decoy listener at the configured address.
"""
import os
import shutil
import time

from .. import common as C
from . import c13m

PROPS = ["theories/Props/C12m.v"]


def unhex(h):
    return b"" if h in ("-", "") else bytes.fromhex(h)


def stage(ctx):
    t0 = time.time()
    pr = C.coq_props(PROPS)
    C.coq_obligation_violations(ctx, pr, "C12 (resume)")
    hb = c13m.build_e2e()
    work = ctx.work + "/resume"
    os.makedirs(work, exist_ok=True)
    out = work + "/resume.txt"
    if os.path.exists(out):
        os.remove(out)
    rc, log = C.sh([hb, "resume", ctx.tier, out], env=c13m.scratch_env(ctx, work), timeout=1800 if ctx.tier == "thorough" else 600)
    shutil.rmtree(work + "/scratch", ignore_errors=True)
    rows = C.read_tsv(out) if os.path.exists(out) else []
    if rc != 0 or not rows or rows[-1][0] != "END":
        raise C.BuildError("e2e resume harness failed (rc=%s): %s" % (rc, log[-3000:]))
    scen = {}
    for r in rows:
        if r[0] == "T":
            scen[r[1]] = {"spec": r[2], "obs": {}, "exit": None, "stderr": ""}
        elif r[0] == "O" and r[1] in scen:
            scen[r[1]]["obs"][r[2]] = r[3] if len(r) > 3 else ""
        elif r[0] == "X" and r[1] in scen:
            scen[r[1]]["exit"] = r[2]
            scen[r[1]]["stderr"] = unhex(r[3]).decode("utf-8", "replace") if len(r) > 3 else ""

    kinds = {}
    frames = 0
    requests = 0
    samples = []
    for sid, s in sorted(scen.items(), key=lambda kv: int(kv[0])):
        sp = dict(kv.split("=", 1) for kv in s["spec"].split(","))
        o = s["obs"]
        short = "%s/%s/%s/salt%s%s" % (sp["kind"], sp["path"], sp["via"], sp["salt"], ("/cut%s" % o.get("torn-at", sp["cut"])) if sp["kind"] == "torn" else "")
        rep = {"scenario": s["spec"], "observations": dict(o),
               "how_to_run": "build/bin/h_root_cmd_e2e resume one %s '%s'" % (sid, s["spec"])}
        kinds[sp["kind"]] = kinds.get(sp["kind"], 0) + 1

        def bad(what, msg, expected, got):
            r = dict(rep)
            r.update({"expected": expected, "got": got})
            C.violation(ctx, "resume:%s:%s" % (what, short), "client started on a %s store [%s]: %s" % (sp["kind"], short, msg), r)

        if s["exit"] != "0":
            bad("died" if s["exit"] == "died" else "stuck", "the client process %s: %s" % (s["exit"], s["stderr"][:300]),
                "a running client", "process %s\n%s" % (s["exit"], s["stderr"][-2500:]))
            continue
        if sp["kind"] == "torn":
            checks = [
                (o.get("client") == "error", "torn-accepted", "NewMTProto fails (C12_restart_wire: LErr -> Err)", "client %s" % o.get("client")),
                (o.get("server-conns", "0") == "0" and o.get("decoy-conns", "0") == "0" and o.get("server-frames", "0") == "0", "torn-traffic",
                 "no connection and no frame", "conns=%s decoy=%s frames=%s" % (o.get("server-conns"), o.get("decoy-conns"), o.get("server-frames"))),
            ]
        elif sp["kind"] == "missing":
            checks = [
                (o.get("client") == "created", "missing-refused", "a client without a session (LNotFound -> client_new)", "client %s" % o.get("client")),
                (o.get("state-encrypted") == "false", "missing-encrypted", "key_exchange = true", "encrypted=%s" % o.get("state-encrypted")),
                (o.get("state-addr") == "configured", "missing-address", "dial_addr = configured address", "address: %s" % o.get("state-addr")),
                (o.get("first-frame") == "plain-req_pq", "missing-first-frame", "first_frame = WPlainReqPQ", "first frame: %s" % o.get("first-frame")),
            ]
        else:
            state_ok = all(o.get(k) == "true" for k in ("state-encrypted", "state-key-is-stored-key", "state-hash-is-stored-hash", "state-salt-is-stored-salt"))
            checks = [
                (o.get("client") == "created" and o.get("newclient", "ok") == "ok", "refused", "a client", "client %s %s" % (o.get("client"), o.get("newclient", ""))),
                (state_ok, "state", "encrypted with the stored key, key id and salt",
                 "encrypted=%s key=%s hash=%s salt=%s" % tuple(o.get(k) for k in ("state-encrypted", "state-key-is-stored-key", "state-hash-is-stored-hash", "state-salt-is-stored-salt"))),
                (o.get("state-addr") == "stored" and o.get("decoy-conns") == "0", "address", "dial_addr = stored address (nobody connects to the configured one)",
                 "address: %s, connections to the configured address: %s" % (o.get("state-addr"), o.get("decoy-conns"))),
                (o.get("connect") == "ok", "connect", "CreateConnection succeeds without a key exchange", "connect: %s (first frame %s)" % (o.get("connect"), o.get("first-frame"))),
                (o.get("conn1-plain") == "0" and o.get("conn1-req_pq") == "0", "key-exchange", "no plain frame and no req_pq",
                 "plain=%s req_pq=%s" % (o.get("conn1-plain"), o.get("conn1-req_pq"))),
                (o.get("conn1-first-frame") == "encrypted" and o.get("conn1-unopenable") == "0", "first-frame-key",
                 "first_frame = WEncrypted stored_key_id _: opens under the stored key", "first frame %s, unopenable=%s" % (o.get("conn1-first-frame"), o.get("conn1-unopenable"))),
                (o.get("conn1-first-frame-salt-is-stored-salt") == "true" and o.get("conn1-frames-with-other-salt") == "0", "first-frame-salt",
                 "first_frame = WEncrypted _ stored_salt (and every later frame)", "first frame salt ok=%s, frames with another salt=%s"
                 % (o.get("conn1-first-frame-salt-is-stored-salt"), o.get("conn1-frames-with-other-salt"))),
                (o.get("requests-conn1") == "pong,pong,pong", "requests", "requests complete", str(o.get("requests-conn1"))),
                (o.get("reconnect") == "ok", "reconnect", "a new connection after the server closed the first", str(o.get("reconnect"))),
                (o.get("conn2-plain") == "0" and o.get("conn2-req_pq") == "0" and o.get("conn2-unopenable") == "0" and o.get("conn2-first-frame") == "encrypted"
                 and o.get("conn2-first-frame-salt-is-stored-salt") == "true", "reconnect-key-exchange",
                 "first_frame (reconnect c) = first_frame c: same key, same salt, no plain frame",
                 "first=%s plain=%s req_pq=%s unopenable=%s salt ok=%s" % tuple(o.get(k) for k in ("conn2-first-frame", "conn2-plain", "conn2-req_pq", "conn2-unopenable", "conn2-first-frame-salt-is-stored-salt"))),
                (o.get("requests-conn2") == "pong,pong", "reconnect-requests", "later requests complete", str(o.get("requests-conn2"))),
                (o.get("server-conns") == "2", "connections", "two connections in all", str(o.get("server-conns"))),
                (o.get("store-after") == "same-session", "store-after", "the store still holds the session", str(o.get("store-after"))),
            ]
            try:
                frames += int(o.get("conn1-frames", "0")) + int(o.get("conn2-frames", "0"))
                requests += 5
            except ValueError:
                pass
        for ok, what, exp, got in checks:
            if not ok:
                bad(what, "expected %s, got %s" % (exp, got), exp, got)
                break
        else:
            if len(samples) < 4 and int(sid) % 3 == 1:
                samples.append({"scenario": short, "first_frame": o.get("conn1-first-frame", o.get("first-frame", "-")),
                                "connections": o.get("server-conns"), "reconnect": o.get("reconnect", "-")})
    if not samples:
        samples.append({"note": "no sample selected"})
    cov = {
        "scenarios": len(scen), "scenarios_by_store": kinds, "frames_opened_under_stored_key": frames, "requests_completed": requests,
        "coq_obligations": pr["obligations"], "coq_discharged": pr["discharged"], "coq_theorems": pr["theorems"],
        "print_assumptions": "%d of %d Print Assumptions report 'Closed under the global context'" % (pr.get("closed", 0), pr.get("printed", 0)),
        "rule": "store {complete (salts incl. -1, min/max int64, random), absent, cut at byte 0/1/n-1/n-2/...} x path {absolute, relative, bare file name} x "
                "entry {Config.AuthKeyFile, Config.SessionStorage, telegram.NewClient}; configured address = decoy listener; 3 requests, server closes the "
                "connection, 2 more requests; every scenario in its own process",
        "samples": samples, "resume_stage_wall_s": round(time.time() - t0, 1),
    }
    return {"resume_live": cov}


def replay(ctx, path):
    """re-run the stage under the replay's tier and seed; the finding is reproduced iff its key is reported again"""
    import json
    obj = json.load(open(path))
    ctx.tier = obj.get("tier", ctx.tier)
    ctx.seed = obj.get("seed", ctx.seed)
    stage(ctx)
    hit = [v for v in ctx.violations if v[0] == obj.get("key")]
    print("scenario=%s expected=%s got=%s" % (obj.get("scenario"), obj.get("expected"), hit[0][2].get("got") if hit else "as expected"))
    if hit:
        print("VIOLATION property=%s replay=%s" % (ctx.prop, path))
        return 1
    return 0
