"""C08 - transport framing delivers the same messages however TCP splits the stream.

Obligations: theorems of coq/theories/Props/C08.v (model Transport/Framing.v).
Tie: harness/root/cmd/c08 runs mode.New/Detect/WriteMsg/ReadMsg and transport.NewTransport/ReadMsg of the
current tree over real loopback TCP connections made by transport.NewTCP, the peer feeding the byte stream in
chosen segments; the extracted Coq model runs on the same streams and segmentations; projected results are
compared (detected mode, delivered byte strings, final error kind EOF/other, error code values)."""
import hashlib
import json
import os
import re
import resource
import subprocess

from .. import common as C

PROPS = ["theories/Props/C08.v"]


def stream_id(h):
    if len(h) <= 64:
        return h
    return "sha1-%s-len%d" % (hashlib.sha1(h.encode()).hexdigest()[:12], len(h) // 2)


def short(s, n=160):
    return s if len(s) <= n else s[:n] + "...(%d chars)" % len(s)


def nbytes(h):
    return 0 if h in ("-", "") else len(h) // 2


def run_model(cases, out):
    """like C.run_model, but with an unlimited stack (the extracted list functions are not tail recursive
    and streams reach 2^20 bytes) and a larger minor heap."""
    def pre():
        try:
            resource.setrlimit(resource.RLIMIT_STACK, (resource.RLIM_INFINITY, resource.RLIM_INFINITY))
        except (ValueError, OSError):
            pass
    env = dict(os.environ)
    env["OCAMLRUNPARAM"] = "s=8M,o=200,l=8G"
    with open(cases, "rb") as fin, open(out, "wb") as fout:
        p = subprocess.run([C.BIN + "/model_C08"], stdin=fin, stdout=fout, stderr=subprocess.PIPE,
                           timeout=1800, preexec_fn=pre, env=env)
    if p.returncode != 0:
        raise C.BuildError("model driver for C08 failed: %s" % p.stderr.decode()[-2000:])


OWN_FILES = ["theories/Transport/Framing.v", "theories/Transport/FramingProofs.v", "theories/Props/C08.v",
             "extract/C08/Extract.v"]


def lint_own():
    bad = []
    pat = re.compile(r"\b(Admitted|admit|Axiom|Parameter|Conjecture|Hypothesis|Variable|Extract\s+Constant|bypass_check)\b|Unset Guard|Unset Positivity|Unset Universe")
    for f in OWN_FILES:
        depth = 0          # Section nesting: Variable/Hypothesis are allowed inside Sections only
        for i, line in enumerate(open(C.COQ + "/" + f), 1):
            code = re.sub(r"\(\*.*?\*\)", "", line)
            if re.match(r"\s*Section\b", code):
                depth += 1
            elif re.match(r"\s*End\b", code) and depth > 0:
                depth -= 1
            m = pat.search(code)
            if m and not (m.group(1) in ("Hypothesis", "Variable") and depth > 0):
                bad.append("%s:%d: %s" % (f, i, line.strip()[:120]))
    return bad


def run(ctx):
    hb = C.build_harness("root", pkg="./cmd/c08")
    cases = ctx.work + "/cases.txt"
    rc, out = C.sh([hb, "gen", ctx.tier, cases], env=ctx.env(), timeout=3000)
    if rc == 4:
        # a case could not be fed in the segmentation it names, not even alone with a 15 s give-up per barrier:
        # the run did not exercise what it claims, so there is no verdict (never a success on coalesced reads)
        raise C.BuildError("C08 harness could not segment the stream as requested (barrier gave up twice): " + out[-1500:])
    if rc != 0:
        raise C.BuildError("harness gen failed: " + out[-2000:])
    extra = json.load(open(cases + ".extra.json"))
    stats = {}
    for l in out.splitlines():
        f = l.split("\t")
        if len(f) == 3 and f[0] == "stat":
            stats[f[1]] = int(f[2])

    pr = C.coq_props(PROPS)
    C.coq_obligation_violations(ctx, pr, "C08")
    for bad in lint_own():
        C.violation(ctx, "coq-lint:" + bad.split(":")[0], "forbidden construct in the C08 development: " + bad,
                    {"no_failing_input": True, "broken_obligation": bad})
    coqchk = None
    if ctx.tier == "thorough":
        with C.Lock("coq"):
            rc, o = C.sh(["coqchk", "-silent", "-o", "-Q", "theories", "MTV", "MTV.Props.C08"], cwd=C.COQ, timeout=1500)
        coqchk = "ok: Axioms: <none>" if (rc == 0 and "* Axioms: <none>" in o) else "FAILED"
        if coqchk == "FAILED":
            C.violation(ctx, "coqchk:Props/C08", "coqchk does not accept MTV.Props.C08: " + o[-600:],
                        {"no_failing_input": True, "broken_obligation": "coqchk MTV.Props.C08", "log": o[-2000:]})

    C.build_model("C08")
    mout = ctx.work + "/model.txt"
    run_model(cases, mout)
    model = {}
    with open(mout) as f:
        for line in f:
            line = line.rstrip("\n")
            if line:
                i = line.index("\t")
                model[line[:i]] = line[i + 1:]

    evals = 0
    nontrivial = set()
    disagreements = 0
    samples = []
    groups = {}          # (kind, v, stream) -> {impl result: sizes}
    exhaustive_streams = {}
    announce_model = {}
    per_kind = {}
    big_cases = []

    def viol(key, text, rep):
        C.violation(ctx, key, text, rep)

    with open(cases) as f:
        for line in f:
            r = line.rstrip("\n").split("\t")
            if not r or not r[0]:
                continue
            kind, cid = r[0], r[1]
            evals += 1
            per_kind[kind] = per_kind.get(kind, 0) + 1
            m = model.get(cid)
            if m is None and kind not in ("B", "U"):
                raise C.BuildError("model produced no result for case %s" % cid)
            if kind == "A":
                v, impl = r[2], r[3]
                announce_model[v] = m
                if impl != m:
                    viol("announce:" + v, "mode.New(%s) wrote announcement %s, format says %s" % (v, impl, m),
                         {"kind": "W", "v": v, "msg_hex": "-", "expected_announce": m, "got": impl})
            elif kind == "W":
                v, msg, impl = r[2], r[3], r[4]
                n = nbytes(msg)
                nontrivial.add(("W", v, n))
                if impl != m:
                    disagreements += 1
                    viol("write:%s:len=%d" % (v, n),
                         "WriteMsg mode=%s len=%d wrote %s, format (model frame) says %s" % (v, n, short(impl), short(m)),
                         {"kind": "W", "v": v, "msg_hex": msg, "expected": m, "got": impl})
            elif kind == "H":
                v, n, impl, ref = r[2], int(r[3]), r[4], r[5]
                nontrivial.add(("H", v, n))
                if m != "E" and ref != m:
                    viol("harness-reference-header:%s:%d" % (v, n),
                         "harness reference header %s differs from the model's %s for mode %s length %d" % (ref, m, v, n),
                         {"no_failing_input": True, "v": v, "len": n})
                if impl != m:
                    disagreements += 1
                    what = ("refuses it" if m == "E" else "writes header " + m[2:])
                    viol("write:%s:len=%d" % (v, n),
                         "WriteMsg mode=%s of a %d-byte message: the format (model write_header) %s, the implementation %s"
                         % (v, n, what, ("returns an error" if impl.startswith("E") else
                                         "returns nil after writing header %s followed by the message" % impl[2:])),
                         {"kind": "H", "v": v, "len": n, "expected": m, "got": impl})
            elif kind == "B":
                v, lens, impl, expect, cls = r[2], r[3], r[4], r[5], r[6]
                nontrivial.add(("B", v, lens))
                big_cases.append({"mode": v, "lengths": lens, "result": impl})
                if impl != expect:
                    viol("big:%s:lens=%s" % (v, lens),
                         "messages of %s bytes, mode %s, end to end over TCP: expected %s, got %s" % (lens, v, expect, short(impl, 300)),
                         {"kind": "B", "v": v, "lens": lens, "expected": expect, "got": impl,
                          "oracle": "direct: pattern payloads, reference headers (tied to the model by the H cases)"})
            elif kind == "U":
                v, scen, impl, expect, cls = r[2], r[3], r[4], r[5], r[6]
                nontrivial.add(("U", v, scen))
                if impl != expect:
                    viol("conn:%s:%s" % (v, scen),
                         "one connection, mode %s, scenario %s (W<n> = WriteMsg of n bytes, R<n> = ReadMsg of the peer's n-byte message; dense = every "
                         "multiple of 4 in the range; stall = the peer reads late): %s" % (v, scen, short(impl, 400)),
                         {"kind": "U", "v": v, "scenario": scen, "expected": expect, "got": impl,
                          "oracle": "direct: reference framing of the harness (tied to the model by the F / R cases)"})
            elif kind == "F":
                v, msgs, ref, impl = r[2], r[3], r[4], r[5]
                fcls = r[6] if len(r) > 6 else "writer-tcp"
                lens = [nbytes(x) for x in msgs.split(",")] if msgs else []
                nontrivial.add(("F", fcls, v, tuple(lens)))
                if m != "E" and ref != m:
                    viol("harness-reference-framing:%s" % v,
                         "harness reference framing differs from the model's wire for lens=%s" % lens,
                         {"no_failing_input": True, "v": v, "lens": lens})
                if impl != m:
                    disagreements += 1
                    viol("wire:%s%s:lens=%s" % ("transport:" if fcls == "transport-writemsg" else "", v, ",".join(map(str, lens))),
                         "%s over TCP, mode=%s lens=%s: peer received %s, format says %s"
                         % ("transport.WriteMsg" if fcls == "transport-writemsg" else "mode.New+WriteMsg", v, lens, short(impl), short(m)),
                         {"kind": "FT" if fcls == "transport-writemsg" else "F", "v": v, "msgs_hex": msgs, "expected": m, "got": impl})
            elif kind in ("R", "T"):
                if kind == "R":
                    v, stream, sizes, impl, expect, cls = "-", r[2], r[3], r[4], r[5], r[6]
                    ann = None
                else:
                    v, stream, sizes, impl, expect, cls, ann = r[2], r[3], r[4], r[5], r[6], r[7], r[8]
                    unp = set(r[9].split(",")) if len(r) > 9 and r[9] != "none" else None
                    if unp:
                        # payloads the message parser refuses (outside C08): the model's TData event for such a
                        # payload corresponds to the implementation's "P" (frame consumed, parser said no)
                        head, _, tail = m.partition(":")
                        evs, _, fin = tail.rpartition("|")
                        m = "%s:%s|%s" % (head, ",".join("P" if (e[:1] == "D" and e[1:] in unp) else e
                                                         for e in evs.split(",")) if evs else "", fin)
                if expect == "=":
                    expect = impl
                sid = stream_id(stream)
                if nbytes(stream) >= 2:
                    nontrivial.add((kind, v, sid, sizes))
                if cls.endswith("exhaustive"):
                    exhaustive_streams[(kind, v, stream)] = exhaustive_streams.get((kind, v, stream), 0) + 1
                g = groups.setdefault((kind, v, sid), {})
                g.setdefault(impl, sizes)
                rep = {"kind": kind, "v": v, "stream_hex": stream, "sizes": sizes, "class": cls}
                key = "%s:%s:%s:%s" % ("read" if kind == "R" else "transport-read", v, sid, sizes)
                if expect != "?" and impl != expect:
                    rep.update({"expected": expect, "got": impl, "oracle": "direct: the messages / codes the stream was built from"})
                    viol(key, "%s stream %s fed as [%s]: expected %s, implementation delivered %s"
                         % ("Detect+ReadMsg" if kind == "R" else "transport.ReadMsg(%s)" % v, short(sid, 80), short(sizes, 80),
                            short(expect), short(impl)), rep)
                elif impl != m:
                    disagreements += 1
                    rep.update({"expected": m, "got": impl, "oracle": "model Transport/Framing.v"})
                    if expect == "?":
                        # not a stream the property speaks about: the model no longer describes the code
                        rep["no_failing_input"] = True
                    viol(key, "%s stream %s fed as [%s]: model gives %s, implementation gives %s"
                         % (kind, short(sid, 80), short(sizes, 80), short(m), short(impl)), rep)
                if ann is not None and ann != announce_model.get(v):
                    viol("announce-tcp:" + v, "NewTransport(%s) announced %s, format says %s" % (v, ann, announce_model.get(v)),
                         {"kind": "T", "v": v, "stream_hex": "-", "sizes": "-", "expected_announce": announce_model.get(v), "got": ann})
                if len(samples) < 8 and nbytes(stream) <= 40 and sizes.count(",") >= 2 and evals % 1571 == 0:
                    samples.append({"kind": kind, "mode": v, "stream": stream, "chunk_sizes": sizes, "impl": impl, "model": m, "class": cls})

    # the same bytes must give the same result under every segmentation tried (direct, model-free)
    for (kind, v, sid), res in groups.items():
        if len(res) > 1:
            items = sorted(res.items())
            viol("segmentation-dependent:%s:%s:%s" % (kind, v, sid),
                 "stream %s gives different results under different segmentations: %s"
                 % (short(sid, 80), "; ".join("[%s] -> %s" % (short(s, 60), short(i, 100)) for i, s in items[:3])),
                 {"kind": kind, "v": v, "stream_id": sid, "results": [{"sizes": s, "got": short(i, 400)} for i, s in items[:4]],
                  "no_failing_input": False})

    # read deadline / cancellation: outside the model; only a delivered message that was never sent is a violation
    for d in extra.get("read_deadline_behaviour") or []:
        if d.get("lost_a_frame_although_every_pause_was_shorter_than_the_deadline") and d.get("longest_pause_ms", 999) <= 110:
            viol("deadline:%s:%s" % (d["scenario"], d["mode"]),
                 "a frame that arrives in pieces, each within the read deadline (150 ms; longest pause %d ms), was not delivered (mode %s): %s"
                 % (d.get("longest_pause_ms"), d["mode"], d.get("reads")),
                 {"kind": "D", "scenario": d["scenario"], "v": d["mode"], "expected": ["frame1", "frame2", "EOF"], "got": d.get("reads"),
                  "note": "every Read call has its own deadline (SetReadDeadline before each read): a deadline armed for an earlier read must not cut a later one short"})
        if d.get("delivered_something_never_sent"):
            viol("deadline:%s:%s" % (d["scenario"], d["mode"]),
                 "after a read deadline / cancellation (%s, mode %s) ReadMsg delivered data that was never sent: %s"
                 % (d["scenario"], d["mode"], d["reads"]),
                 {"no_failing_input": False, "scenario": d["scenario"], "v": d["mode"], "reads": d["reads"]})

    full = sorted(((k, v, s, n) for (k, v, s), n in exhaustive_streams.items() if n == 2 ** (nbytes(s) - 1)),
                  key=lambda t: (t[0], t[1], nbytes(t[2]), t[2]))
    # a case in which a barrier gave up was run again alone (15 s give-up); had it failed again the harness would
    # have exited 4 above.  So every case that is compared here was fed in the segmentation it names.
    seg_ok = stats.get("selftest_bad", 1) == 0 and stats.get("second_pass:unsegmented", 0) == 0
    if stats.get("second_pass:cases", 0):
        ctx.notes.append("second pass (one case at a time): %d cases re-run - %d because a barrier gave up in the parallel "
                         "phase, %d HANG verdicts to confirm (%d confirmed), %d selftest mismatches; none left unsegmented"
                         % (stats.get("second_pass:cases", 0), stats.get("second_pass:barrier_gave_up", 0),
                            stats.get("second_pass:hang_verdicts", 0), stats.get("second_pass:hang_confirmed", 0),
                            stats.get("second_pass:selftest_mismatch", 0)))
    if not samples:
        samples.append({"note": "no small sample selected", "evaluations": evals})
    samples.append({"exhaustively_segmented_streams": [
        {"kind": k, "mode": v, "stream": s, "compositions": n} for (k, v, s, n) in full[:40]]})
    cov = C.proof_coverage(
        pr, "make -f Makefile.coq theories/Props/C08.vo (coqc 8.16.1) in /verif/coq",
        ["io.ReadFull / net.TCPConn.Read semantics as modelled by read_full (blocks until n bytes, EOF with no byte, "
         "ErrUnexpectedEOF after some bytes, (0,nil) for an empty buffer); go-dry CancelableReader read by hand",
         "kernel loopback TCP delivers the byte stream in order; the harness' segment barrier (ioctl SIOCOUTQ/SIOCINQ on both "
         "sockets) is validated each run by a recording reader (selftest counts in input_distribution)",
         "amd64 (int is 64 bit)",
         "OUTSIDE THE MODEL: the read deadline (TCPConnConfig.Timeout > 0: SetReadDeadline, 'required to reconnect!') and "
         "context cancellation during a read (context.Canceled pass-through); the model is Timeout = 0 without cancellation. "
         "What the tree does in three such scenarios is recorded under read_deadline_behaviour and only checked for silent "
         "corruption (a delivered message that was never sent)",
         "memory: the model has no allocation accounting; what the readers allocate for a length field that announces far more "
         "than arrives is recorded under hostile_length_allocation (C08 as stated does not bound it)",
         "messages above 2^20 bytes (up to 2^26-4 abridged, 2^31 intermediate) are checked end to end against the direct oracle "
         "(pattern payloads, reference headers) and the model is consulted for their headers only (write_header, H cases): "
         "the extracted list model is too slow for them"],
        {"evaluations": evals, "distinct_nontrivial": len(nontrivial),
         "rule": "cases = single WriteMsg calls over a byte pipe (W), whole streams written by mode.New+WriteMsg over TCP (F), "
                 "streams read by transport.NewTCP+mode.Detect+ReadMsg (R) and by transport.NewTransport+ReadMsg (T) while the peer "
                 "feeds them over loopback TCP in a chosen segmentation: every composition of the short streams, one byte at a time, "
                 "cuts at/around every frame border, random cuts, fixed sizes, coalesced; message lengths around the 126/127-word "
                 "switch and up to 2^20 bytes; 64..1000 frames back to back; payloads the message parser refuses (0/8/12/16 bytes, "
                 "encrypted-looking) between error codes; transport.WriteMsg; header-only writes and end-to-end pattern messages at "
                 "2^22 words, 2^24-4..2^24+4 words (abridged) and 2^24..2^32+4 bytes (intermediate; 2^31 and 2^32 in thorough); "
                 "plus truncated, wrongly announced and non-canonical streams. "
                 "distinct_nontrivial = distinct (kind, mode, stream, segmentation) with a stream of >= 2 bytes + distinct (mode, length) "
                 "of W + distinct (mode, length list) of F",
         "samples": samples, "input_distribution": stats, "cases_per_kind": per_kind,
         "disagreements_checked": disagreements,
         "barrier_accounting": {"barriers": stats.get("barriers", 0),
                                "gave_up_in_parallel_phase": stats.get("barrier_timeouts", 0),
                                "cases_rerun_alone": stats.get("second_pass:cases", 0),
                                "cases_left_unsegmented": stats.get("second_pass:unsegmented", 0),
                                "hang_verdicts_first_pass": stats.get("second_pass:hang_verdicts", 0),
                                "hang_verdicts_confirmed": stats.get("second_pass:hang_confirmed", 0)},
         "huge_messages_end_to_end": big_cases,
         "hostile_length_allocation": {
             "covered_by_C08": False,
             "why": "C08 speaks about which messages are delivered, the formats, the error code and EOF; it puts no bound on memory. "
                    "Recorded because 5..8 input bytes make the reader allocate twice the announced size (ReadMsg's buffer and "
                    "go-dry CancelableReader's) before any payload byte arrives; with a limited address space the Go runtime "
                    "aborts the process (fatal error, not an error return).",
             "cases": [{k: v for k, v in h.items() if k != "stream_hex"} | {"input_hex": h["stream_hex"]}
                       for h in (extra.get("hostile_length_allocation") or [])]},
         "read_deadline_behaviour": extra.get("read_deadline_behaviour") or [],
         "coqchk": coqchk if coqchk else "not run in the quick tier",
         "exhaustive": False,
         "exhaustive_compositions": {"streams": len(full), "segmentation_mechanism_validated": seg_ok,
                                     "max_stream_bytes": max([nbytes(s) for (_, _, s, _) in full] or [0])},
         "projection": "detected mode, delivered messages as bytes in order, final error kind (io.EOF by ==, anything else = other), "
                       "transport.ErrCode value as integer, bytes put on the wire; error texts and wrap chains not compared"})
    rc = C.finish(ctx, "proof", cov, [
        "io.ReadFull semantics of the connection as stated in Transport/Framing.v (read_full)",
        "loopback TCP delivers bytes in order",
        "message deserialisation behind transport.ReadMsg is outside C08 (only unencrypted envelopes are sent; payload compared)"])
    if rc == 0 and os.path.getsize(cases) > 150 * 1024 * 1024:
        # the thorough tier's case files are several hundred MB; keep them only when something failed
        for p in (cases, mout):
            try:
                os.remove(p)
            except OSError:
                pass
    return rc


def replay(ctx, path):
    obj = json.load(open(path))
    hb = C.build_harness("root", pkg="./cmd/c08")
    kind = obj.get("kind")
    nfile = [0]

    def arg(s):
        # long hex strings do not fit an argv entry: hand them over in a file
        if len(s) < 60000:
            return s
        nfile[0] += 1
        p = "%s/replay_arg%d.txt" % (ctx.work, nfile[0])
        with open(p, "w") as f:
            f.write(s)
        return "@" + p
    if kind == "R" and "stream_hex" in obj:
        cmd = [hb, "one", "R", arg(obj["stream_hex"]), arg(obj["sizes"])]
    elif kind == "T" and "stream_hex" in obj:
        cmd = [hb, "one", "T", obj["v"], arg(obj["stream_hex"]), arg(obj["sizes"])]
    elif kind == "W":
        cmd = [hb, "one", "W", obj["v"], arg(obj["msg_hex"])]
    elif kind == "U":
        cmd = [hb, "one", "U", obj["v"], obj["scenario"]]
    elif kind == "F":
        cmd = [hb, "one", "F", obj["v"], arg(obj["msgs_hex"])]
    elif kind == "FT":
        cmd = [hb, "one", "FT", obj["v"], arg(obj["msgs_hex"])]
    elif kind == "H":
        cmd = [hb, "one", "H", obj["v"], str(obj["len"])]
    elif kind == "B":
        cmd = [hb, "one", "B", obj["v"], obj["lens"]]
    else:
        print("replay names no single input (broken obligation / segmentation group), re-running the full check")
        return run(ctx)
    rc, out = C.sh(cmd, env=ctx.env(), timeout=600)
    # the last line is the harness' answer (the repository prints debugging lines of its own to stdout)
    f = out.strip().split("\n")[-1].split("\t")
    got = f[0]
    ann = f[1] if len(f) > 1 else None
    bad = False
    if "expected" in obj:
        print("expected=%s got=%s" % (short(obj["expected"], 300), short(got, 300)))
        bad = got != obj["expected"]
    if "expected_announce" in obj:
        print("expected announcement=%s got=%s" % (obj["expected_announce"], ann))
        bad = bad or ann != obj["expected_announce"]
    if bad:
        print("VIOLATION property=C08 replay=%s" % path)
        return 1
    return 0
