"""C05 - AES-256-IGE and its padding wrappers (internal/aes_ige).

Obligations: the theorems of coq/theories/Props/C05.v (alias-level loops = IGE definition, dec.enc = id,
input untouched, guard, padding, temp keys = MTProto formula, wrapper round trip for every length).
Tie: the harness runs the real package (unexported loops through the verif export), the extracted
Coq model runs on the same case file; result class and bytes (output buffer, input buffer after the
call) are compared.  A direct oracle (independent textbook IGE / MTProto formula on crypto/aes,
crypto/sha1 in the harness) classifies every case on the real code, so a defect is reported with the
concrete failing input."""
import hashlib
import json
import re

from .. import common as C

PROPS = ["theories/Props/C05.v"]
NO_MODEL = ("trydecbig",)   # inputs too long for the extracted alias-level model (quadratic): textbook oracle only
FIELDS = ["id", "kind", "a1", "a2", "a3", "a4", "a5", "cls", "r1", "r2", "direct", "detail", "seq"]

ARGN = {
    "igeenc": ["key", "iv", "data", "out_len", "out_fill"],
    "igedec": ["key", "iv", "data", "out_len", "out_fill"],
    "tk": ["new_nonce", "server_nonce"],
    "encraw": ["new_nonce", "server_nonce", "msg"],
    "enc": ["new_nonce", "server_nonce", "payload"],
    "dec": ["new_nonce", "server_nonce", "ciphertext", "peer_payload", "peer_padding_len"],
    "trydec": ["new_nonce", "server_nonce", "ciphertext", "what"],
    "trydecbig": ["new_nonce", "server_nonce", "ciphertext", "what"],
    "aesige": ["msg_key", "auth_key", "decode"],
    "msgenc": ["msg", "auth_key"],
    "msgdec": ["ciphertext", "auth_key", "msg_key"],
    "sha1": ["msg"],
}
FUNC = {
    "igeenc": "doAES256IGEencrypt", "igedec": "doAES256IGEdecrypt", "tk": "generateTempKeys",
    "encraw": "encryptMessageWithTempKeys", "enc": "EncryptMessageWithTempKeys (+ DecryptMessageWithTempKeys of the result)",
    "dec": "DecryptMessageWithTempKeys", "trydec": "TryDecryptMessageWithTempKeys", "trydecbig": "TryDecryptMessageWithTempKeys", "aesige": "generateAESIGE", "msgenc": "Encrypt", "msgdec": "Decrypt",
    "sha1": "crypto/sha1 vs Prim/Sha1.v",
}


def blen(h):
    return 0 if h in ("-", "") else len(h) // 2


def describe(r):
    kind = r["kind"]
    if kind in ("igeenc", "igedec"):
        return "%s(data %d bytes, out %d bytes, key %d bytes, iv %d bytes)" % (FUNC[kind], blen(r["a3"]), int(r["a4"]), blen(r["a1"]), blen(r["a2"]))
    if kind == "tk":
        return "generateTempKeys(new_nonce=%s, server_nonce=%s)" % (r["a1"], r["a2"])
    if kind in ("enc", "encraw"):
        return "%s(payload %d bytes = %s, new_nonce=%s, server_nonce=%s)" % (FUNC[kind].split(" ")[0], blen(r["a3"]), r["a3"], r["a1"], r["a2"])
    if kind == "dec":
        return "DecryptMessageWithTempKeys(peer ciphertext %d bytes for payload of %d bytes with %s padding bytes, new_nonce=%s, server_nonce=%s)" % (
            blen(r["a3"]), blen(r["a4"]) if r["a4"] != "?" else -1, r["a5"], r["a1"], r["a2"])
    if kind in ("trydec", "trydecbig"):
        return "TryDecryptMessageWithTempKeys(%d bytes: %s, new_nonce=%s, server_nonce=%s)" % (blen(r["a3"]), r["a4"], r["a1"], r["a2"])
    if kind == "msgenc":
        return "Encrypt(msg %d bytes, key %d bytes)" % (blen(r["a1"]), blen(r["a2"]))
    if kind == "msgdec":
        return "Decrypt(msg %d bytes, key %d bytes)" % (blen(r["a1"]), blen(r["a2"]))
    return "%s(%s)" % (FUNC.get(kind, kind), ", ".join(r[k] for k in ("a1", "a2", "a3")))


def key_of(r):
    h = hashlib.sha1("\t".join(r[k] for k in ("kind", "a1", "a2", "a3", "a4", "a5")).encode()).hexdigest()[:16]
    return "input:%s:%s" % (r["kind"], h)


def seq_text(calls):
    out = []
    for i, c in enumerate(calls):
        names = ARGN.get(c[0], [])
        args = ", ".join("%s=%s" % (names[j] if j < len(names) else "a%d" % (j + 1), (c[1 + j] if len(c[1 + j]) <= 72 else c[1 + j][:64] + "..(%dB)" % blen(c[1 + j])))
                         for j in range(5) if c[1 + j] != "-" or j < len(names))
        out.append("%d. %s(%s)" % (i + 1, FUNC.get(c[0], c[0]).split(" ")[0], args))
    return "; ".join(out)


def replay_obj(r, expected, got, oracle, prefix=None):
    framed = r.get("seq", "-") == "w" or r.get("seq", "-").split(".")[0].endswith("w")
    o = replay_obj0(r, expected, got, oracle, prefix)
    if framed:
        o["framed"] = True
        o["buffers"] = ("every argument buffer is a window frame[24:24+n] of a larger live array filled with non-zero guard bytes, with 56 bytes of spare "
                        "capacity behind it; after the call the whole arrays are compared (only the inside of the output window may change)")
        o["how"] = o["how"].replace(" one <kind>", " onew <kind>").replace(" seq <file>", " seqw <file>")
    return o


def replay_obj0(r, expected, got, oracle, prefix=None):
    if prefix:
        return {"kind": r["kind"], "function": FUNC.get(r["kind"], r["kind"]), "sequence": prefix,
                "arg_names": ARGN, "expected": expected, "got": got, "oracle": oracle,
                "what_fails": "the LAST call of the sequence; all calls are made one after the other in one process and share their key / iv / "
                              "input / output / message buffers and big.Int objects (values overwritten in place between calls)",
                "how": "write the sequence one call per line (kind TAB a1..a5) and run harness/root/cmd/c05 seq <file> against the tree"}
    o = {"kind": r["kind"], "function": FUNC.get(r["kind"], r["kind"]),
         "args": [r["a1"], r["a2"], r["a3"], r["a4"], r["a5"]],
         "arg_names": ARGN.get(r["kind"], []), "expected": expected, "got": got, "oracle": oracle,
         "how": "harness/root/cmd/c05 one <kind> <a1..a5> against the tree (bytes in hex, '-' = empty)"}
    return o


def nontrivial_key(r):
    """distinct non-trivial = distinct (function, shape) where shape is what the property quantifies over."""
    k = r["kind"]
    lz = lambda h: (len(h) - len(h.lstrip("0"))) // 2 if h != "-" else 0
    if k in ("igeenc", "igedec"):
        deg = lambda h: "z" if set(h) <= {"0"} else ("f" if set(h) <= {"f"} else "r")
        return (k, blen(r["a3"]), int(r["a4"]), blen(r["a1"]), blen(r["a2"]), deg(r["a1"]), deg(r["a2"]))
    if k == "tk":
        return (k, blen(r["a1"]), lz(r["a1"]), blen(r["a2"]), lz(r["a2"]))
    if k in ("enc", "encraw"):
        return (k, blen(r["a3"]), lz(r["a1"]), lz(r["a2"]))
    if k == "dec":
        return (k, blen(r["a3"]), r["a5"], lz(r["a1"]), lz(r["a2"]), r["a4"] == "?")
    if k in ("trydec", "trydecbig"):
        return (k, blen(r["a3"]), r["cls"], re.sub(r"\d+", "#", r["a4"]), lz(r["a1"]), lz(r["a2"]))
    if k == "aesige":
        return (k, blen(r["a1"]), blen(r["a2"]), r["a3"])
    return (k, blen(r["a1"]), blen(r["a2"]))


def run(ctx):
    hb = C.build_harness("root", pkg="./cmd/c05")
    cases = ctx.work + "/cases.txt"
    rc, out = C.sh([hb, "gen", ctx.tier, cases], env=ctx.env(), timeout=1800)
    if rc != 0:
        raise C.BuildError("harness gen failed: " + out[-2000:])
    stats = {}
    for l in out.splitlines():
        f = l.split("\t")
        if len(f) == 3 and f[0] == "stat":
            stats[f[1]] = int(f[2])

    # precondition of the loop theorems (in and out do not overlap): static scan of the call sites
    rc, sout = C.sh([hb, "scan", C.REPO], env=ctx.env(), timeout=300)
    if rc != 0:
        raise C.BuildError("harness scan failed: " + sout[-2000:])
    sites = [l.split("\t") for l in sout.splitlines() if l.startswith("site\t")]
    if not sites:
        C.violation(ctx, "static:alias:no-call-sites", "the static scan found no call site of doAES256IGEencrypt/decrypt in internal/aes_ige: "
                    "the precondition 'in and out do not overlap' is no longer checked", {"no_failing_input": True, "scan": sout[-1000:]})
    for st in sites:
        if st[4] != "ok":
            C.violation(ctx, "static:alias:%s:%s" % (st[2], st[3]),
                        "%s (%s) calls %s with buffers that may overlap: %s. With out == in the chaining register aliases the block that "
                        "copy(out[i:], c.t) overwrites, so the result is not the IGE definition (precondition of C05_enc_is_ige / C05_dec_is_ige)"
                        % (st[1], st[2], st[3], st[5]),
                        {"no_failing_input": True, "call_site": st[1], "function": st[2], "callee": st[3], "detail": st[5],
                         "how": "harness/root/cmd/c05 scan <repo root>"})

    pr = C.coq_props(PROPS)
    C.coq_obligation_violations(ctx, pr, "C05")

    coqchk = None
    if ctx.tier == "thorough" and not pr["failed"]:
        cmd = ["coqchk", "-silent", "-o", "-Q", "theories", "MTV", "MTV.Props.C05"]
        with C.Lock("coq"):
            rc, o = C.sh(cmd, cwd=C.COQ, timeout=1800)
            if rc != 0 or "* Axioms: <none>" not in o:
                # a loaded machine (timeout, killed process, a .vo being rewritten by a concurrent build) is not a
                # broken proof: rebuild the closure and run once more, alone under the lock, with a longer limit
                C.log("coqchk rc=%d, retrying once: %s" % (rc, o[-200:].replace("\n", " ")))
                C.sh(["make", "-f", "Makefile.coq", "-j4", "theories/Props/C05.vo"], cwd=C.COQ, timeout=1800)
                rc, o = C.sh(cmd, cwd=C.COQ, timeout=3600)
                ctx.notes.append("coqchk needed a second run")
        coqchk = "coqchk -silent -o MTV.Props.C05: rc=%d; %s" % (rc, "Axioms: <none>" if "* Axioms: <none>" in o else o[-400:])
        if rc != 0 or "* Axioms: <none>" not in o:
            C.violation(ctx, "coqchk:Props/C05", "coqchk does not accept the compiled proofs of C05: " + o[-600:],
                        {"no_failing_input": True, "broken_obligation": "coqchk MTV.Props.C05", "log": o[-2000:]})

    C.build_model("C05")
    mout = ctx.work + "/model.txt"
    C.run_model("C05", cases, mout)
    model = {}
    for f in C.read_tsv(mout):
        model[f[0]] = f[1:4]

    evals = 0
    nontrivial = set()
    disagreements = 0
    direct_checked = 0
    samples = []
    seqs = {}          # sequence number -> calls so far
    seq_failed = set() # report the first failing step of a sequence only (later steps may just follow from it)
    seq_sample = None
    for f in C.read_tsv(cases):
        r = dict(zip(FIELDS, f + ["-"] * (len(FIELDS) - len(f))))
        evals += 1
        impl = [r["cls"], r["r1"], r["r2"]]
        nt = nontrivial_key(r)
        prefix = None
        sq = None
        if r["seq"] == "w":
            nt = nt + ("window",)
        elif r["seq"] != "-":
            sq = r["seq"].split(".")[0]
            seqs.setdefault(sq, []).append([r["kind"], r["a1"], r["a2"], r["a3"], r["a4"], r["a5"]])
            prefix = list(seqs[sq])
            prev = prefix[-2] if len(prefix) > 1 else None
            # in a sequence what matters is the relation to the previous call through the shared buffers
            nt = nt + ("seq", prev[0] if prev else "-",
                       tuple(prev is not None and prev[j] == prefix[-1][j] for j in (1, 2)))
            if sq in seq_failed:
                continue
        nontrivial.add(nt)
        if r["direct"] != "none":
            direct_checked += 1
        key = key_of(r) if prefix is None else "seq:" + hashlib.sha1(repr(prefix).encode()).hexdigest()[:16]
        if r["seq"] == "w":
            key += ":w"
        where = (describe(r) + (" [arguments are windows of larger live buffers]" if r["seq"] == "w" else "")) if prefix is None else \
            "call %d of a sequence sharing its argument buffers [%s] - %s" % (len(prefix), seq_text(prefix), describe(r))
        if r["direct"] == "fail":
            C.violation(ctx, key, "%s: %s; implementation: %s %s" % (where, r["detail"], r["cls"], r["r1"][:80]),
                        replay_obj(r, r["detail"], " ".join(impl), "direct (textbook IGE / MTProto formula in the harness)", prefix))
            if sq:
                seq_failed.add(sq)
            continue
        m = model.get(r["id"])
        if r["kind"] in NO_MODEL:
            m = impl
        if m != impl:
            disagreements += 1
            C.violation(ctx, key,
                        "%s: Coq model (on which the C05 theorems are proved; a pure function of the values passed to this call) gives %s, implementation gives %s"
                        % (where, " ".join(x[:80] for x in (m or ["<no output>"])), " ".join(x[:80] for x in impl)),
                        replay_obj(r, " ".join(m or []), " ".join(impl), "model Crypto/IgeMem.v, Crypto/TempKeys.v (extracted)", prefix))
            if sq:
                seq_failed.add(sq)
        if prefix is not None and seq_sample is None and len(prefix) == 4:
            seq_sample = {"kind": "sequence", "calls_sharing_buffers": seq_text(prefix)[:900], "impl_last": [x[:64] for x in impl],
                          "model_last": [x[:64] for x in (m or [])], "direct_oracle_last": r["direct"]}
        if len(samples) < 7 and r["kind"] not in [s["kind"] for s in samples] and evals > 7:
            samples.append({"kind": r["kind"], "call": describe(r)[:300], "impl": [x[:64] for x in impl], "model": [x[:64] for x in (m or [])],
                            "direct_oracle": r["direct"]})
    if seq_sample:
        samples.append(seq_sample)
    cov = C.proof_coverage(
        pr, "make -f Makefile.coq theories/Props/C05.vo (coqc 8.16.1) in /verif/coq",
        ["crypto/aes and crypto/sha1 are Section variables of the theorems (E, D, H) with hypotheses: output lengths 16 / 20, outputs are bytes, "
         "D k (E k b) = b on 16-byte blocks under 32-byte keys, and for the wrapper round trip the explicit no-collision hypothesis "
         "H (payload ++ q) <> H payload for the non-empty prefixes q of the <= 15 padding bytes. All but the no-collision hypothesis are proved for "
         "the Gallina instances (Prim/Aes256.v, Aes256Facts.v, Aes256Inv.v: aes_dec_enc; Prim/Sha1.v), see C05_dec_enc_aes, C05_temp_roundtrip_inst",
         "that the Gallina AES / SHA-1 are crypto/aes / crypto/sha1: FIPS-197 / FIPS 180 known answers proved by vm_compute + every correspondence case "
         "(the Go side calls crypto/aes and crypto/sha1, the model side the Gallina functions)",
         "in-package export internal/aes_ige/verif_export.go (build tag verif) reaches the unexported functions",
         "nonces are passed as big.Int built with SetBytes from raw bytes; nil and negative big.Int are outside the model; in/out buffers never overlap; len = cap for all slices"],
        {"evaluations": evals, "distinct_nontrivial": len(nontrivial),
         "rule": "cases = repository fixtures + IGE loops with 1..64 blocks (random and all-00/all-ff keys, IVs, data; AES-128/192 keys), every data length 0..80, "
                 "output buffers shorter/longer than the input, bad key and iv sizes; generateTempKeys for nonces with 0/1/2/3/28..32 (new_nonce) x 0/1/2/13/15/16 "
                 "(server_nonce) leading zero bytes and oversize values; Encrypt/DecryptMessageWithTempKeys for every payload length 0..80 (thorough 0..400): the client's own "
                 "encryption read back by the client and by a reference peer, and the reference peer's ciphertext with the aligning padding 0..15 (random, 00, ff); malformed "
                 "ciphertexts; generateAESIGE/Encrypt/Decrypt for lengths 0..80 and auth keys around the 128/136 limits; SHA-1 lengths around block boundaries; "
                 "TryDecryptMessageWithTempKeys (the handshake's entry for network data) on valid peer ciphertexts, 0..48 random / zero bytes, every truncation of a valid "
                 "ciphertext, damaged SHA-1 prefix / body / ciphertext bit, plaintext shorter than 20 bytes, prefix matching only after 16+ bytes removed, zero/short/oversize "
                 "nonces, 64 KiB of garbage (textbook oracle only): never a panic, ok exactly when the prefix matches for a cut of 0..15 bytes; "
                 "the *big.Int nonces are the caller's objects: kept across the calls of a sequence, value and Bits() words compared after every call, as is every input buffer; "
                 "Encrypt/Decrypt/generateAESIGE are judged against an independent MTProto 1.0 key schedule written in the harness; "
                 "IGE inputs of 65,127,128,129,192,255,256,257,300 blocks (thorough up to 1025), wrapper payloads of 2027..4076 bytes and messages of 2032..4100 bytes; "
                 "about a third of the calls are repeated with every argument buffer handed over as a WINDOW frame[off:off+n] of a larger live array (non-zero guard "
                 "bytes before and after, spare capacity behind the window) and the whole arrays compared after the call - nothing but the inside of the output "
                 "window may change; "
                 "plus CALL SEQUENCES made in one process that reuse the same key / iv / input / output / message buffers and big.Int objects, overwritten in "
                 "place between calls (k1,k2,k1.. and iv1,iv2,iv1.. in one backing array, one-bit key changes, refused calls in between, output of one call fed to "
                 "the next, loops interleaved with the temp-key and message-level wrappers, random mixes over small value pools): every step is compared with the "
                 "model and the textbook IGE evaluated on the values at call time (ties C05_history_independent to the code). "
                 "distinct non-trivial = distinct (function, data length, buffer lengths, key/iv shape, leading-zero counts of the nonces, padding length)",
         "samples": samples, "input_distribution": stats, "disagreements": disagreements,
         "direct_oracle_cases": direct_checked, "windowed_calls": stats.get("windowed_calls", 0), "call_sites_scanned": ["%s %s->%s %s" % (x[1], x[2], x[3], x[4]) for x in sites], "call_sequences": len(seqs), "calls_in_sequences": sum(len(v) for v in seqs.values()), "coqchk": coqchk or "thorough tier only",
         "projection": "result class ok/err/panic; bytes of the output buffer and of the caller's input buffer after the call (also after err/panic); "
                       "key and iv bytes; for windowed calls every byte of the caller's arrays around the slices passed in; never error texts or panic values"})
    return C.finish(ctx, "proof", cov, [
        "crypto/aes and crypto/sha1 compute the same functions as Prim/Aes256.v and Prim/Sha1.v (for which invertibility, lengths and byte ranges are proved)",
        "SHA-1 output is 20 bytes; SHA-1 does not collide between the payload and payload ++ (non-empty prefix of the <= 15 padding bytes): explicit hypothesis of C05_temp_roundtrip",
        "big.Int.Bytes()/copy/slice semantics as written in Crypto/TempKeys.v"])


def replay(ctx, path):
    obj = json.load(open(path))
    if "sequence" in obj:
        hb = C.build_harness("root", pkg="./cmd/c05")
        sf = ctx.work + "/replay_seq.txt"
        with open(sf, "w") as fo:
            for c in obj["sequence"]:
                fo.write("\t".join(c) + "\n")
        rc, out = C.sh([hb, "seqw" if obj.get("framed") else "seq", sf], env=ctx.env())
        lines = [l.split("\t") for l in out.rstrip("\n").split("\n")]
        print("call sequence (buffers shared, overwritten in place): %s" % seq_text(obj["sequence"]))
        last = lines[-1] if lines and len(lines) == len(obj["sequence"]) else ["?", "-", "-", "fail", "harness produced %d result lines" % len(lines)]
        print("oracle for the last call: %s" % obj.get("expected"))
        print("got: %s" % " ".join(last[:3]))
        bad = last[3] == "fail"
        if not bad:
            c = obj["sequence"][-1]
            p = ctx.work + "/replay_case.txt"
            open(p, "w").write("\t".join(["r1"] + c + last[:3] + ["none", "-", "-"]) + "\n")
            C.build_model("C05")
            C.run_model("C05", p, ctx.work + "/replay_model.txt")
            m = C.read_tsv(ctx.work + "/replay_model.txt")
            print("model on the values of the last call: %s" % (" ".join(m[0][1:4]) if m else "<none>"))
            bad = not m or m[0][1:4] != last[:3]
        if bad:
            print("VIOLATION property=C05 replay=%s" % path)
            return 1
        return 0
    if "args" not in obj:
        print("replay names a broken obligation, re-running the full check")
        return run(ctx)
    hb = C.build_harness("root", pkg="./cmd/c05")
    rc, out = C.sh([hb, "onew" if obj.get("framed") else "one", obj["kind"]] + list(obj["args"]), env=ctx.env())
    f = out.rstrip("\n").split("\t")
    print("%s %s" % (obj.get("function"), dict(zip(obj.get("arg_names", []), obj["args"]))))
    print("oracle: %s" % obj.get("expected"))
    print("got: %s" % " ".join(f[:3]))
    bad = len(f) < 4 or f[3] == "fail"
    if bad and len(f) > 4:
        print("direct oracle: %s" % f[4])
    if not bad and f[3] == "none" and obj["kind"] not in NO_MODEL:
        # no direct oracle for this input: compare with the model again
        line = "\t".join(["r1", obj["kind"]] + list(obj["args"]) + f[:3] + ["none", "-"]) + "\n"
        p = ctx.work + "/replay_case.txt"
        open(p, "w").write(line)
        C.build_model("C05")
        C.run_model("C05", p, ctx.work + "/replay_model.txt")
        m = C.read_tsv(ctx.work + "/replay_model.txt")
        bad = not m or m[0][1:4] != f[:3]
        print("model: %s" % (" ".join(m[0][1:4]) if m else "<none>"))
    if bad:
        print("VIOLATION property=C05 replay=%s" % path)
        return 1
    return 0
