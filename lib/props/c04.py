"""C04 - forged or altered packets are refused, never accepted and never crash the client."""
from .. import common as C
from . import envelope_common as E


def run(ctx):
    pr, corr = E.run(ctx, "C04")
    corr.update({
        "rule": "auth keys of 0 (nil), 1, 127, 128, 135, 136, 137, 255, 257 bytes with packets carrying exactly that key's id (garbage ciphertext of 16..64 bytes, unaligned, "
                "fragments; from 136 bytes on also packets sealed by the reference server) through DeserializeEncrypted and the real transport.ReadMsg in both modes: "
                "error below 136 bytes, never a panic; key holder's packets sealed under a msg_key that differs from the right one in its last bit / last byte / first byte / ... "
                "(key and iv derived from the WRONG msg_key, so only the final comparison can refuse); auth_key_id differing in one byte; declared lengths congruent to the true one "
                "mod 2^8, 2^16, 2^24, 2^31; damaged and forged packets of ~65.5 kB and ~70 kB (bit flips, truncations around 2^16, lengths, wrong msg_key; mostly implementation + direct oracle); "
                "a flipped bit of the key id must be refused outright; then: fault enumeration around valid server-sealed packets (body lengths 0,3,16,40,72,200; thorough: 17 lengths up to 1000; random and degenerate keys): "
                "every single-bit flip (all bits for packets <= 128 bytes, ~384 sampled bits above), every truncation length including < 24 bytes, "
                "appended bytes, re-keyed packets (other key, other key under the right key id, other direction), a key holder declaring lengths "
                "{-2^31, -1, -32, -33, len-33..len+33, decrypted-32, +1, +32, +33, 2^31-1} with msg_key recomputed to match whenever the slice exists, "
                "right key id followed by 0..40 bytes, block-aligned and unaligned garbage and sealed random plaintexts under the right key id, "
                "damaged data through the real transport.ReadMsg (loopback connection, harness = server) and DeserializeUnencrypted; "
                "valid server-sealed and unencrypted messages with msg_ids over the whole int64 range ({0, 2^63, -1, 2^63-1, realistic and random upper halves, "
                "bit 63 clear/set} x low bits 00/01/10/11) through DeserializeEncrypted, DeserializeUnencrypted and ReadMsg: a message iff the low bits are 01 or 11; "
                "multi-byte alterations of auth_key_id and msg_key in which xor/sum/and/or folds of the differences cancel (same bit in 2 and 4 bytes - all pairs of "
                "key-id bytes, x every bit in thorough -, swaps, equal masks, masks a,b,a^b, +d/-d, every byte xor ff/01/80/55, rotations, reversal, all-zero, all-ff): refused; "
                "SEQUENCES of 8-10 receive calls in one process (valid A, valid smaller, equal size, forged of A's size, other auth key, valid larger, larger garbage, "
                "smaller again, equal to the largest; directly and through ReadMsg): every returned message OBJECT and every input buffer is kept and re-read "
                "after each later call - must still print as returned / as handed in, and as the model (a function of that call alone) says. Every case runs on the real code under recover(); direct oracle: "
                "damaged => error (never a message, never a panic) - except that a bit flip may be accepted when it yields exactly the sealed message "
                "(a flip that only garbles plaintext padding, which MTProto 1.0 does not authenticate; counted in altered_packets_accepted_with_the_sealed_message); the outcome class and, when accepted, all fields are compared with the extracted "
                "open_client for the first ~2900 cases (thorough 40000). non-trivial = distinct packets carrying the right key id (they reach decryption, "
                "the length guard, the parity test and the msg_key comparison)",
        "projection": "result class (message/error/panic) and, for a message, salt, session id, msg_id, seq_no, body, msg_key; error texts not compared",
    })
    cov = C.proof_coverage(
        pr, "make -f Makefile.coq theories/Props/C04.vo (coqc 8.16.1) in /verif/coq",
        ["C04_history_independent is about the model (a pure function); that the Go code keeps no state and returns no slice aliasing a buffer "
         "that later calls write to is tied to it by the sequence correspondence only",
         "C04_accept_implies_checks, C04_no_panic and C04_no_panic_dispatch use no hypothesis on SHA-1 or AES (arbitrary functions) and none on the auth key: "
         "every key, absent or short ones included (HEAD refuses keys shorter than 136 bytes before the key schedule)",
         "C04_accepted_has_server_parity (Go's signed view of msg_id): premise 'the msg_id field is a 64-bit pattern', true whenever the decrypted data are bytes; discharged on concrete "
         "packets with the real primitives (Example C04_negative_ids_have_go_parity); that the Gallina AES returns byte values for all inputs is not proved",
         "the server->client key schedule (x = 8) has no author-independent test vector: neither the MTProto 1.0 description nor the repository's tests contain one (the repository's pinned "
         "packet exercises x = 0 only); x = 8 rests on the Coq transcription of the description (kiv_spec), its proved equality with the Go code's schedule, and the harness' own reference",
         "open_client_pinned / C04_pinned_code_panics describe the pinned tree 0b0db56 and are tied to no code now",
         "C04_same_message_partial: explicit hypothesis that msg_key (SHA-1 bits 32..159) does not collide on the two specific strings involved; "
         "'every altered packet is refused' in full needs an idealised hash and is covered by the enumeration only",
         "executable instance: Gallina SHA-1 / AES-256 of Prim, validated by FIPS known answers and by this comparison",
         "the harness' own sealing code (independent implementation of the MTProto 1.0 envelope) used to build valid and key-holder packets"],
        corr)
    return C.finish(ctx, "proof", cov, [
        "no statement about SHA-1 collision resistance is assumed silently: see C04_same_message_partial",
        "memory exhaustion is not modelled (allocation sizes are bounded by the packet length after the repair)"])


def replay(ctx, path):
    return E.replay(ctx, path, "C04", run)
