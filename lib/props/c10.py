"""C10 - the client's outgoing stream obeys msg_id, seq_no and acknowledgement rules (client as LTS:
Coq invariants over all histories + trace validation of the real client against the extracted step).

Two batches of schedules:
  * cmd/c09 + Client/Model.v (model_C09): concurrent callers, containers, gzip - one connection;
  * cmd/c11 + Client/Live.v (model_C11), profile c10: the same session over connection close + reconnect
    (seq_no and msg_id must go on, not start over), salt rotation with re-sent requests, and server msg ids
    that repeat or go backwards for content-related messages that are not answers (one ack per delivery)."""
import json

from .. import common as C
from . import client_common as CC
from . import live_common as L

LIVE_RULE = (
    " Second batch (cmd/c11, replayed through the extracted step2 of Client/Live.v): schedules with 0-2 orderly closes by the server "
    "(the receive loop reads EOF and reconnects with the same key and session id) between requests, answers and acknowledgements, "
    "and content-related service / API messages (odd seq_no, not rpc_results) that are repeated "
    "verbatim, sent with a msg id BELOW an earlier one, or repeated inside a container after a newer item; "
    "each ends with the closing procedure + probe call. Direct oracles over ALL connections of the session in the order the "
    "reference server decrypted the frames: one session id; msg_id mod 4 = 0 and strictly increasing, seq_no non-decreasing also across "
    "a reconnect (keys ...-across-reconnect); odd seq_no iff not msgs_ack; for every server msg id the number of msgs_ack naming it >= "
    "the number of its deliveries with odd seq_no - also of messages whose processing ends in an error (rpc_result nobody waits for, "
    "undecodable body, bad_msg_notification) and of the container items after them; only what the transport refuses is exempt.")


def run(ctx):
    # an independent set of schedules (own work directory, seed stream shifted) so that the command stands alone
    ctx.seed_shift = 1
    pr, stats, validated, dis, distinct, samples, exh = CC.run_prop(ctx, "C10", n_quick=300, n_thorough=3000)
    n = 150 if ctx.tier == "quick" else 3000
    lstats, lval, ldis, ldistinct, lsamples, lexh = L.run_batches(ctx, "C10", "c10", n, [L.PINNED + "/pinned-c10.script"], ())
    for k, v in lstats.items():
        stats["live_" + k] += v
    stats["schedules"] += lstats["schedules"]
    stats["actions"] += lstats["actions"]
    samples = samples[:2] + lsamples[:1]
    return CC.finish(ctx, "C10", pr, stats, validated + lval, dis + ldis, distinct | ldistinct, samples, exh + lexh,
                     "Direct oracle for C10 on the frames in the order the reference server decrypted them: msg_id mod 4 = 0, strictly "
                     "increasing, seconds part inside the run's clock window; odd seq_no iff not msgs_ack; seq_no non-decreasing; every server "
                     "message with odd seq_no (top level, container, container item) named by a later msgs_ack once the receive loop is back at "
                     "its read." + LIVE_RULE)


def replay(ctx, path):
    obj = json.load(open(path))
    if "profile" in obj:
        r = L.replay(ctx, "C10", path)
    else:
        r = CC.replay(ctx, "C10", path)
    return run(ctx) if r is None else r
