"""C10 - the client's outgoing stream obeys msg_id, seq_no and acknowledgement rules (client as LTS:
Coq invariants over all histories + trace validation of the real client against the extracted step)."""
from .. import common as C
from . import client_common as CC


def run(ctx):
    # an independent set of schedules (own work directory, seed stream shifted) so that the command stands alone
    ctx.seed_shift = 1
    pr, stats, validated, dis, distinct, samples, exh = CC.run_prop(ctx, "C10", n_quick=300, n_thorough=3000)
    return CC.finish(ctx, "C10", pr, stats, validated, dis, distinct, samples, exh,
                     "Direct oracle for C10 on the frames in the order the reference server decrypted them: msg_id mod 4 = 0, strictly "
                     "increasing, seconds part inside the run's clock window; odd seq_no iff not msgs_ack; seq_no non-decreasing; every server "
                     "message with odd seq_no (top level, container, container item) named by a later msgs_ack once the receive loop is back at its read.")


def replay(ctx, path):
    r = CC.replay(ctx, "C10", path)
    return run(ctx) if r is None else r
