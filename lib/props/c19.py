"""C19 - secrets used for key agreement come from the OS cryptographic random source.

translator (harness/flowgraph, go/ssa) -> coq/gen/FlowGraph.v -> coqc Props/C19.v + Inst/C19i.v
(`secrets_ok graph secrets seed_sites = true` by vm_compute); when that obligation breaks the check
prints the offending path of the graph (file:line per node) and searches for a dynamic witness on the
real code (harness/root/cmd/c19: identical math/rand.Seed => identical nonces / SRP A; clock reading
that reproduces the DH exponent).  The dynamic probe also runs when the proof goes through: a secret
that repeats although the graph was accepted means the translator missed a flow.
Per definition site: sites_ok (every alternative origin of a secret is OS-fed) is part of Inst/C19i.v.
Freshness: with a recording crypto/rand.Reader the consumers are called directly (c19 fresh) and through
>= 24 real key exchanges against harness/root/hsserver (c19 exchange); every value handed out / received
by the server must be a fresh slice of the served stream or a function of bytes read for it (judge)."""
import json
import os

from .. import common as C

PROPS = ["theories/Props/C19.v", "theories/Inst/C19i.v", "theories/Inst/C19f.v"]
SECRETS = ["nonce", "new_nonce", "dh_b", "srp_a"]
WHAT = {
    "nonce": "key-exchange nonce (tl.RandomInt128, sent in req_pq / p_q_inner_data / client_DH_inner_data)",
    "new_nonce": "key-exchange new_nonce (tl.RandomInt256, p_q_inner_data)",
    "dh_b": "Diffie-Hellman exponent b (internal/math.MakeGAB)",
    "srp_a": "SRP ephemeral a (telegram/internal/srp.getInputCheckPassword; observed through A = g^a mod p)",
}


def translate(ctx):
    fb = C.build_harness("flowgraph")
    os.makedirs(C.COQ + "/gen", exist_ok=True)
    js = ctx.work + "/flowgraph.json"
    with C.Lock("coq"):     # gen/FlowGraph.v is shared with a concurrent coqc of this property
        rc, out = C.sh([fb, C.REPO, C.COQ + "/gen/FlowGraph.v", js], timeout=600)
        if rc == 0:
            C.want_gen(C.COQ + "/gen/FlowGraph.v")
    if rc != 0:
        raise C.BuildError("flowgraph translator failed on %s:\n%s" % (C.REPO, out[-3000:]))
    C.log(out.strip().splitlines()[-1] if out.strip() else "flowgraph: no output")
    return json.load(open(js))


def pregen(ctx):
    """setup: a clean Coq build needs gen/FlowGraph.v and gen/DrawLog.v"""
    translate(ctx)
    dynamic_freshness(ctx, ctx.seed, 2, 24, report=False)


def parse_log(path):
    d = {"reads": [], "calls": [], "served": 0, "exchanges": []}
    idx = {}
    for f in C.read_tsv(path):
        if f[0] == "R":
            d["reads"].append((int(f[3]), int(f[4]), int(f[2])))          # offset, len, call
        elif f[0] in ("H", "N"):
            pcs = [] if len(f) < 7 or f[6] == "-" else [tuple(int(x) for x in q.split(":")) for q in f[6].split(",")]
            merged = []
            for o, n in pcs:         # runs that are adjacent in the stream are one slice
                if merged and merged[-1][0] + merged[-1][1] == o:
                    merged[-1] = (merged[-1][0], merged[-1][1] + n)
                else:
                    merged.append((o, n))
            k = (int(f[1]), f[2])
            idx[k] = idx.get(k, 0) + 1
            d["calls"].append({"call": int(f[1]), "consumer": f[2], "size": int(f[3]), "offset": int(f[4]),
                               "value": f[5], "secret": f[0] == "H", "pieces": merged, "nth": idx[k]})
        elif f[0] == "P":
            d["calls"].append({"call": int(f[1]), "consumer": "padding", "size": None, "offset": None,
                               "value": None, "secret": False, "reads": int(f[3]), "pieces": [], "nth": 1})
        elif f[0] == "X":
            d["exchanges"].append({"call": int(f[1]), "class": f[2], "fault": f[3], "error": f[4] if len(f) > 4 else ""})
        elif f[0] == "S":
            d["served"] = int(f[1])
    d["calls"].sort(key=lambda c: c["call"])
    return d


def run_stage(ctx, stage, seed, n, stream_seed=None):
    """stage 'fresh': the consumers called directly (n = SRP calls); stage 'exchange': n real key exchanges.
    Both against a recording crypto/rand.Reader; returns the parsed log."""
    hb = C.build_harness("root", pkg="./cmd/c19")
    log = "%s/%s-%d-%s.txt" % (ctx.work, stage, seed, stream_seed if stream_seed is not None else "s")
    cmd = [hb, stage, str(seed), str(n), log] + ([str(stream_seed)] if stream_seed is not None else [])
    rc, out = C.sh(cmd, env=ctx.env(), timeout=900)
    if rc != 0:
        raise C.BuildError("c19 %s failed: %s" % (stage, out[-2000:]))
    d = parse_log(log)
    d.update({"stage": stage, "seed": seed, "n": n, "stream_seed": stream_seed})
    return d


def overlap(a, b):
    return max(a[0], b[0]) < min(a[0] + a[1], b[0] + b[1])


def judge(ctx, d, second, report=True):
    """Verdict on one recorded run.  A value is accepted when
      - it is a slice of the served stream (or several runs of it that all lie in the Reads made during
        its own call) and none of its bytes was handed out before, or
      - it is no literal slice, but the source was read during its call, the bytes read there that no
        other value claims are at least as many as the value is long, the value is different when the
        same calls run against another stream, and it is not equal to an earlier value
        (crypto/rand.Int with rejection, b mod (p-1), hashing of fresh bytes ... do not alarm).
    Everything else is a violation.  Fills d['claimed'] (ranges for the Coq re-check), d['bad']."""
    stage, found = d["stage"], 0
    claimed, d["claimed"], d["bad"] = [], [], 0   # (off, len, call, consumer)
    seen_kind = set()
    values = {}
    other = None

    def vio(kind, c, text, extra):
        nonlocal found
        d["bad"] += 1
        if not report or (kind, c["consumer"]) in seen_kind:
            return
        seen_kind.add((kind, c["consumer"]))
        found += 1
        what = WHAT.get(c["consumer"], c["consumer"])
        rep = {"stage": stage, "secret": c["consumer"], "seed": d["seed"], "n": d["n"], "call": c["call"], "value": c["value"],
               "draw_sequence": sequence_text(d["calls"], c["call"]),
               "reads_of_the_source": [[o, n, cl] for o, n, cl in d["reads"] if cl <= c["call"]][-24:]}
        if d["exchanges"]:
            rep["exchanges"] = [x for x in d["exchanges"] if x["call"] <= c["call"]][-8:]
        rep.update(extra)
        unit = "key exchange" if stage == "exchange" else "draw"
        C.violation(ctx, "%s:%s:%s" % (stage, c["consumer"], kind),
                    "%s [%s #%d%s]: %s; sequence: %s" % (what, unit, c["call"], " through the real makeAuthKey" if stage == "exchange" else "",
                                                         text, sequence_text(d["calls"], c["call"])[-400:]), rep)

    by_call = {}
    for c in d["calls"]:
        by_call.setdefault(c["call"], []).append(c)
    reads_of = {}
    for o, n, cl in d["reads"]:
        reads_of.setdefault(cl, []).append((o, n))
    for call in sorted(by_call):
        B = reads_of.get(call, [])
        nonlit = []
        for c in by_call[call]:
            if c["pieces"]:
                in_b = all(any(r[0] <= o and o + n <= r[0] + r[1] for r in B) for o, n in c["pieces"])
                if len(c["pieces"]) > 1 and not in_b and c["secret"]:
                    vio("not-a-slice", c, "the %d bytes are stitched from non-adjacent parts of the stream that were not read during this call: %s"
                        % (c["size"], ", ".join("stream[%d:%d]" % (o, o + n) for o, n in c["pieces"])),
                        {"pieces": [list(x) for x in c["pieces"]], "expected": "one slice of the OS stream, or bytes read during the call",
                         "got": "%d separate older runs" % len(c["pieces"])})
                for pc in c["pieces"]:
                    hit = next((q for q in claimed if overlap(pc, q) and not (q[2] == call and q[3] == c["consumer"] and q[4] == c["nth"])), None)
                    if hit:
                        lo, hi = max(pc[0], hit[0]), min(pc[0] + pc[1], hit[0] + hit[1])
                        vio("replayed", c, "stream[%d:%d] of its bytes (run stream[%d:%d]) was already handed out by #%d (%s, stream[%d:%d])"
                            % (lo, hi, pc[0], pc[0] + pc[1], hit[2], hit[3], hit[0], hit[0] + hit[1]),
                            {"range": list(pc), "earlier_range": [hit[0], hit[1]], "replays_call": hit[2], "replays_consumer": hit[3],
                             "expected": "every draw consumes a previously unconsumed range of the OS stream", "got": "overlap of %d bytes" % (hi - lo)})
                    claimed.append((pc[0], pc[1], call, c["consumer"], c["nth"]))
            elif c["secret"]:
                nonlit.append(c)
        if not nonlit:
            continue
        lit = [q for q in claimed if q[2] == call]
        free = sum(n for o, n in B) - sum(min(q[0] + q[1], r[0] + r[1]) - max(q[0], r[0]) for q in lit for r in B if overlap(q, r))
        need = sum(c["size"] for c in nonlit)
        if other is None:
            other = second()
            values = {(c["call"], c["consumer"], c["nth"]): c["value"] for c in other["calls"]}
        for c in nonlit:
            if c["consumer"] == "srp_a" and str(c["value"]).startswith("SMALL="):
                vio("ephemeral-of-a-few-bits", c, "the SRP ephemeral is a = %s: A = g^a mod p for an exponent below 2^16, whatever the system "
                    "source delivered (%d bytes were read during the call)" % (c["value"][6:], sum(n for o, n in B)),
                    {"expected": "a = the 256 bytes read from the system source during the call", "got": "a = " + c["value"][6:]})
                continue
            if not B:
                vio("not-from-stream", c, "the value (%s...) is not a slice of the bytes crypto/rand.Reader served and the source was not read "
                    "during the call: it comes from elsewhere (math/rand, the clock, constant or older bytes)" % c["value"][:40],
                    {"expected": "a slice of the OS stream or a function of bytes read during the call", "got": "no read, no slice"})
            elif free <= 0:
                vio("not-from-stream", c, "the value (%s...) is not a slice of the OS stream, and every byte the source served during the call "
                    "is accounted for by the other secrets: it comes from elsewhere (math/rand, the clock, the session id, constant bytes)"
                    % c["value"][:40], {"expected": "a slice of the OS stream or a function of bytes read for it", "got": "no bytes of the source left for it"})
            elif free < need:
                vio("truncated", c, "the source served %d unclaimed bytes during the call but the secrets handed out need %d" % (free, need),
                    {"expected": "at least as many fresh bytes as the secret is long", "got": "%d < %d" % (free, need)})
            elif values.get((c["call"], c["consumer"], c["nth"])) == c["value"]:
                vio("insensitive", c, "the value (%s...) is the same when the same calls run against a different OS stream" % c["value"][:40],
                    {"expected": "a different stream gives a different secret", "got": "identical value", "other_stream_seed": other["stream_seed"]})
            elif c["size"] >= 16 and any(p["value"] == c["value"] for p in d["calls"] if p["secret"] and p["call"] < c["call"]):
                vio("replayed", c, "the value (%s...) equals one handed out earlier" % c["value"][:40],
                    {"expected": "fresh value", "got": "repeated value"})
        for r in B:
            if not any(overlap(r, q) for q in lit):
                claimed.append((r[0], r[1], call, "+".join(sorted({c["consumer"] for c in nonlit})), 0))
    d["claimed"] = [(q[0], q[1]) for q in claimed]
    d["literal"] = sum(1 for c in d["calls"] if c["secret"] and c["pieces"])
    d["by_reads"] = sum(1 for c in d["calls"] if c["secret"] and not c["pieces"])
    return found


def write_drawlog(fresh, exch):
    rng = lambda l: "[" + "; ".join("(%d, %d)" % (a, b) for a, b in l) + "]"
    txt = ("(* generated by harness/root/cmd/c19 (fresh: seed %d; exchange: %d real key exchanges) from the current tree - do not edit *)\n"
           "From Coq Require Import NArith List.\nImport ListNotations.\nOpen Scope N_scope.\n" % (fresh["seed"], exch["n"]))
    for pre, d in (("", fresh), ("ex_", exch)):
        txt += ("Definition %sreads : list (N * N) := %s.\nDefinition %sserved : N := %d.\n"
                "Definition %shanded : list (N * N) := %s.\nDefinition %sunlocated : N := %d.\n"
                % (pre, rng([(o, n) for o, n, _ in d["reads"]]), pre, d["served"], pre, rng(d["claimed"]), pre, d["bad"]))
    with C.Lock("coq"):
        pth = C.COQ + "/gen/DrawLog.v"
        if not os.path.exists(pth) or open(pth).read() != txt:
            with open(pth, "w") as fh:
                fh.write(txt)
        C.want_gen(pth, txt)


def sequence_text(calls, upto):
    """the concrete draw sequence up to call `upto`, run-length compressed: 'nonce/16 new_nonce/32 x10 ...'"""
    items = ["%s/%s" % (c["consumer"], c["size"] if c["size"] is not None else "?") for c in calls if c["call"] <= upto]
    out, i = [], 0
    while i < len(items):
        best = (1, 1)
        for plen in (1, 2, 3, 4, 5):
            pat = items[i:i + plen]
            k = 1
            while items[i + k * plen:i + (k + 1) * plen] == pat:
                k += 1
            if k > 1 and k * plen > best[0] * best[1]:
                best = (plen, k)
        plen, k = best
        out.append(" ".join(items[i:i + plen]) + (" x%d" % k if k > 1 else ""))
        i += plen * k
    return "; ".join(out)


def dynamic_freshness(ctx, seed, srp_calls, exchanges, write=True, report=True):
    """both freshness stages for one seed; returns (violations found, fresh log, exchange log)"""
    fr = run_stage(ctx, "fresh", seed, srp_calls, seed)
    # the direct stage always compares two streams: a secret that ignores the stream is caught even if
    # some of its bytes happen to be located
    fr2 = run_stage(ctx, "fresh", seed, srp_calls, seed + 1000003)
    n = judge(ctx, fr, lambda: fr2, report)
    v2 = {(c["call"], c["consumer"], c["nth"]): c["value"] for c in fr2["calls"] if c["secret"]}
    for c in fr["calls"]:
        if c["secret"] and report and v2.get((c["call"], c["consumer"], c["nth"])) == c["value"]:
            fr["bad"] += 1
            n += 1
            C.violation(ctx, "fresh:%s:insensitive" % c["consumer"],
                        "%s [draw #%d]: the value (%s...) is the same under two different OS streams" % (WHAT[c["consumer"]], c["call"], c["value"][:40]),
                        {"stage": "fresh", "secret": c["consumer"], "seed": seed, "n": srp_calls, "call": c["call"], "value": c["value"],
                         "expected": "a different stream gives a different secret", "got": "identical value"})
            break
    ex = run_stage(ctx, "exchange", seed, exchanges, seed)
    n += judge(ctx, ex, lambda: run_stage(ctx, "exchange", seed, exchanges, seed + 1000003), report)
    oks = [x for x in ex["exchanges"] if x["class"] == "ok"]
    if report and (len(oks) < exchanges // 2 - exchanges // 6 or
                   any(x["class"] in ("panic", "hang") and not x["fault"].startswith("read-fails@") for x in ex["exchanges"]) or
                   any(x["class"] == "hang" for x in ex["exchanges"])):
        raise C.BuildError("c19 exchange: the scripted key exchanges did not run as scheduled: %s" % ex["exchanges"][:8])
    if write:
        write_drawlog(fr, ex)
    return n, fr, ex


def probe(ctx, seeds):
    hb = C.build_harness("root", pkg="./cmd/c19")
    def once(sd):
        rc, out = C.sh([hb, "probe", str(sd)], env=ctx.env(), timeout=600)
        if rc != 0:
            raise C.BuildError("c19 probe failed: " + out[-2000:])
        r = {"seed": sd}
        for line in out.splitlines():
            f = line.split("\t")
            if f[0] == "V" and len(f) == 4:
                r[f[1]] = {"run1": f[2], "run2": f[3], "reproduced": f[2] == f[3]}
            elif f[0] == "B" and len(f) == 6:
                r[f[1]] = {"b": f[2], "run1": f[2], "t0": int(f[3]), "t1": int(f[4]),
                           "clock_seed": None if f[5] == "-" else int(f[5]), "reproduced": f[5] != "-"}
        if sorted(k for k in r if k != "seed") != sorted(SECRETS):
            raise C.BuildError("c19 probe: unexpected output:\n" + out[-2000:])
        return r
    res = []
    for sd in seeds:
        r, r2 = once(sd), once(sd)      # two separate processes: a generator with a fixed seed repeats here
        for n in SECRETS:
            r[n]["other_process"] = r2[n]["run1"]
            r[n]["reproduced_across_processes"] = r[n]["run1"] == r2[n]["run1"]
        res.append(r)
    return res


def short(h, n=32):
    return h if len(h) <= n else h[:n] + "...(%d hex digits)" % len(h)


def witness_of(dyn, name):
    """first probe in which the secret was reproduced -> replay fields"""
    for r in dyn:
        d = r[name]
        if not d["reproduced"] and d.get("reproduced_across_processes"):
            return {"how": "two separate processes (math/rand.Seed(seed) first) return the same value: the generator is deterministic",
                    "seed": r["seed"], "value_hex": d["run1"], "second_run_hex": d["other_process"]}
        if d["reproduced"]:
            if name == "dh_b":
                return {"how": "big.Int.Rand(rand.New(rand.NewSource(clock_seed)), 2^2048) equals the exponent MakeGAB returned; "
                               "clock_seed is a UnixNano reading inside the window [t0,t1] taken around the call",
                        "clock_seed": d["clock_seed"], "t0": d["t0"], "t1": d["t1"], "value_hex": d["b"], "seed": r["seed"]}
            return {"how": "math/rand.Seed(seed) before each of two runs: both runs return the same value",
                    "seed": r["seed"], "value_hex": d["run1"], "second_run_hex": d["run2"]}
    return None


def leaf_key(path):
    """stable name of the offending source = label of the first (source) node of the path without its id"""
    lab = path[0].split("] ", 1)[1]
    return lab.replace(" ", "_")[:160]


def run(ctx):
    fg = translate(ctx)
    fresh_found, dl, ex = dynamic_freshness(ctx, ctx.seed, 8 if ctx.tier == "quick" else 40, 24 if ctx.tier == "quick" else 48)
    pr = C.coq_props(PROPS)
    seeds = [ctx.seed] if ctx.tier == "quick" else [ctx.seed + i for i in range(8)]
    dyn = probe(ctx, seeds)
    more = []
    if ctx.tier == "thorough":
        for sd in (ctx.seed + 1, ctx.seed + 2):
            k, f2, e2 = dynamic_freshness(ctx, sd, 4, 24, write=False)
            fresh_found += k
            more += [f2, e2]
    if fresh_found:      # the Coq re-check of the recorded log fails for the same reason
        pr["failed"] = [f for f in pr["failed"] if f["file"] != "theories/Inst/C19f.v"] + \
                       [dict(f, explained=True) for f in pr["failed"] if f["file"] == "theories/Inst/C19f.v"]

    failed = {f["file"] for f in pr["failed"]}
    inst_failed = "theories/Inst/C19i.v" in failed
    by = {s["name"]: s for s in fg["secrets"]}
    explained = False
    if inst_failed:
        for name in SECRETS:
            s = by[name]
            bad = s.get("bad_paths") or []
            has_os = bool((s.get("sources") or {}).get("KOS"))
            if not bad and has_os:
                continue
            explained = True
            w = witness_of(dyn, name)
            bad = sorted(bad, key=len)
            if bad:
                key = "flow:%s:%s" % (name, leaf_key(bad[0]))
                text = ("%s depends on a reproducible source: %s  (path of %d nodes; %d offending source nodes in its slice)"
                        % (WHAT[name], bad[0][0], len(bad[0]), len(bad)))
            else:
                key = "flow:%s:no-os-source" % name
                text = ("%s: no crypto/rand source flows into it (anchor not found in the tree or secret is constant); anchors=%s"
                        % (WHAT[name], s.get("anchors")))
            rep = {"secret": name, "broken_obligation": "theories/Inst/C19i.v: secrets_ok FlowGraph.graph = true",
                   "offending_path_source_to_secret": bad[0] if bad else [],
                   "offending_sources_nearest_first": [p[0] for p in sorted(bad, key=len)[:12]],
                   "offending_sources_total": len(bad),
                   "seed_sites_reachable_from_client_construction": fg["seed_sites_from_construction"],
                   "expected": "every source flowing into the secret is crypto/rand",
                   "got": "math/rand / clock / Seed site flows into it" if bad else "no OS source"}
            if w:
                rep["dynamic_witness_on_real_code"] = w
                rep.update({k: w[k] for k in ("seed",) if k in w})
                text += "; dynamic witness on the real code: %s -> %s" % (
                    ("clock reading %d" % w["clock_seed"]) if name == "dh_b" else ("rand.Seed(%d) twice" % w["seed"]),
                    short(w["value_hex"]))
            else:
                rep["no_failing_input"] = True
            C.violation(ctx, key, text, rep)
        # per definition site ("on every path"): one alternative origin that is not OS-fed
        for name in SECRETS:
            for st in by[name].get("sites") or []:
                sbad = sorted(st.get("bad_paths") or [], key=len)
                if not sbad and (st.get("sources") or {}).get("KOS"):
                    continue
                explained = True
                lab = st["name"]
                if sbad:
                    text = "%s: one of the origins of its value depends on a reproducible source %s -- %s" % (WHAT[name], sbad[0][0], lab)
                else:
                    text = ("%s: one of the origins of its value carries no OS randomness at all (constant / zero / cached / "
                            "caller-supplied: NEUTRAL-only) -- %s" % (WHAT[name], lab))
                C.violation(ctx, "site:%s:%s" % (name, lab.split(": ", 1)[-1].replace(" ", "_")[:150]), text,
                            {"secret": name, "site": lab, "no_failing_input": True,
                             "broken_obligation": "theories/Inst/C19i.v: sites_ok FlowGraph.graph FlowGraph.sites = true",
                             "offending_path_source_to_site": sbad[0] if sbad else [],
                             "sources_of_the_site": st.get("sources"), "all_sites_of_the_secret": [x["name"] for x in by[name]["sites"]],
                             "expected": "every alternative origin of the secret is fed by crypto/rand and by nothing reproducible",
                             "got": "reproducible source" if sbad else "NEUTRAL-only origin"})
    # obligations that broke without an explanation from the graph (generic theorems, wf, count of secrets)
    for fl in pr["failed"]:
        if fl["file"] == "theories/Inst/C19i.v" and explained or fl.get("explained"):
            continue
        C.violation(ctx, "coq:" + fl["file"], "C19: %s no longer checks: %s" % (fl["file"], fl["log"][-600:]),
                    {"no_failing_input": True, "broken_obligation": fl["file"], "log": fl["log"][-2000:]})
    # the graph was accepted but the real code repeats a secret: the translator missed a flow
    if not inst_failed:
        for name in SECRETS:
            w = witness_of(dyn, name)
            if w:
                C.violation(ctx, "dynamic:%s" % name,
                            "%s is reproducible on the real code (%s) although the flow graph was accepted" % (WHAT[name], w["how"]),
                            dict(w, secret=name, expected="two runs differ", got="identical value " + short(w["value_hex"])))

    if ctx.tier == "thorough" and not pr["failed"]:
        with C.Lock("coq"):
            rc, out = C.sh(["coqchk", "-silent", "-o", "-Q", "theories", "MTV", "-Q", "gen", "MTVgen", "MTV.Inst.C19i"],
                           cwd=C.COQ, timeout=1500)
        ctx.notes.append("coqchk MTV.Inst.C19i: rc=%d %s" % (rc, out.strip()[-300:]))
        if rc != 0:
            C.violation(ctx, "coqchk:C19i", "coqchk rejects the compiled proofs: " + out[-500:],
                        {"no_failing_input": True, "broken_obligation": "coqchk MTV.Inst.C19i"})

    per_secret = []
    for name in SECRETS:
        s = by[name]
        src = s.get("sources") or {}
        per_secret.append({"secret": name, "nodes": s["nodes"], "edges": s["edges"], "anchors": s.get("anchors") or [],
                           "definition_sites": [{"site": x["name"], "nodes": x["nodes"],
                                                 "source_leaves": {k: v for k, v in (x.get("sources") or {}).items() if k != "KNeutral"},
                                                 "os_fed": bool((x.get("sources") or {}).get("KOS")) and not x.get("bad_paths")}
                                                for x in s.get("sites") or []],
                           "source_leaves": {k: v for k, v in src.items()},
                           "path_from_an_OS_source": (s.get("good_paths") or [[]])[0]})
    logs = [dl, ex] + more
    evals = 2 * len(dyn) * len(SECRETS) + sum(len(x["calls"]) for x in logs)
    distinct = len({(r["seed"], n) for r in dyn for n in SECRETS}) + \
        len({(x["stage"], x["seed"], q) for x in logs for q in x["claimed"]})
    samples = [{"secret": n, "seed": dyn[0]["seed"],
                **({"run1": short(dyn[0][n]["run1"]), "run2": short(dyn[0][n]["run2"])} if n != "dh_b" else
                   {"b": short(dyn[0][n]["b"]), "clock_window_ns": dyn[0][n]["t1"] - dyn[0][n]["t0"], "clock_seed": dyn[0][n]["clock_seed"]}),
                "reproduced": dyn[0][n]["reproduced"]} for n in SECRETS]
    cov = C.proof_coverage(
        pr, "make -f Makefile.coq theories/Props/C19.vo theories/Inst/C19i.vo (coqc 8.16.1) in /verif/coq, after "
            "harness/flowgraph <repo> coq/gen/FlowGraph.v",
        ["harness/flowgraph (go/packages + go/ssa + CHA of golang.org/x/tools v0.29.0): construction of the value-flow graph; "
         "edge rules V1-V4, M1-M3, D1, G in harness/flowgraph/rules.go; leaf classification by import path "
         "(crypto/rand = OS, math/rand = PRNG, time.Now & time.Time methods = TIME) and %d leaf contracts "
         "(standard-library functions documented not to write their arguments) in main.go" % fg.get("leaf_contracts", 0),
         "anchors of the four secrets: fields Nonce/NewNonce of the client-built structs of internal/mtproto/objects, exponent "
         "arguments of big.Int.Exp and result 0 of internal/math.MakeGAB, field GA (= g^a mod p) of srp.SrpAnswer",
         "not modelled by the translator: a reference parked in a slice/map element or channel, re-loaded and written through "
         "elsewhere (L1; globals, struct fields and local cells are covered), writes through reflect/unsafe into struct fields "
         "(L2), control dependence (L3); the dynamic probe cross-checks the real generators"],
        {"evaluations": evals, "distinct_nontrivial": distinct,
         "rule": "static: one flow graph per run = backward slices of the 4 secrets over the SSA of the whole program "
                 "(packages . and ./telegram with all dependencies); Coq decides secrets_ok on it. dynamic: for each seed "
                 "(VERIF_SEED, +7 more in the thorough tier) each of the 4 secrets is generated twice by the real code after "
                 "math/rand.Seed(seed), in two separate processes, and for the DH exponent the clock window around MakeGAB is searched "
                 "for a seed reproducing it; "
                 "a case = (seed, secret), non-trivial = the real generator ran and returned a value. freshness: with "
                 "crypto/rand.Reader replaced by a recording stream whose 8-byte windows are unique, one process runs 48 nonce "
                 "rounds (16, 32), 40 complete key-exchange draw patterns (session id, 16, 32, padding, DH exponent), 8 (thorough 40) "
                 "SRP calls interleaved with nonces and 120 draws in a seed-chosen order; every value handed out must be a slice "
                 "of the served stream and the slices pairwise disjoint (python verdict, re-checked by fresh_ok in Inst/C19f.v); "
                 "a value that is no literal slice is accepted when the source was read during its call for at least its "
                 "length, it changes with the stream (second run with another stream) and it repeats no earlier value. "
                 "real key exchanges: 24 (thorough 48) x NewMTProto+CreateConnection (real makeAuthKey) against "
                 "harness/root/hsserver in one process, every 6th answered dh_gen_retry, every 6th with a corrupted resPQ nonce, "
                 "each followed by a new exchange; judged are the nonce, new_nonce and b (g^b = g_b) the SERVER received. "
                 "a freshness case = one draw / one received value, distinct = distinct claimed ranges of the stream",
         "samples": samples + [{"freshness_draw": c["call"], "consumer": c["consumer"], "size": c["size"],
                                "stream_offset": c["offset"], "value": short(c["value"] or "")} for c in dl["calls"][:4]]
         + [{"key_exchange": c["call"], "server_received": c["consumer"], "size": c["size"], "stream_offset": c["offset"],
             "value": short(c["value"] or "")} for c in ex["calls"][:6]],
         "freshness": {"seed": dl["seed"], "calls": len(dl["calls"]), "reads_of_crypto_rand_Reader": len(dl["reads"]),
                       "bytes_served": dl["served"], "secrets_located_as_slices": dl["literal"],
                       "secrets_justified_by_reads_during_the_call": dl["by_reads"], "secrets_rejected": dl["bad"],
                       "per_consumer": {k: sum(1 for c in dl["calls"] if c["consumer"] == k)
                                        for k in sorted({c["consumer"] for c in dl["calls"]})},
                       "session_ids_from_stream": sum(1 for c in dl["calls"] if c["consumer"] == "session_id" and c["pieces"]),
                       "note": "session id and padding are drawn in the mix because they may share a buffer with the secrets; "
                               "they are not among the four secrets of C19: a session id that is not in the stream is only counted",
                       "sequence": sequence_text(dl["calls"], 10 ** 9)[:600]},
         "real_key_exchanges": {"exchanges": len(ex["exchanges"]),
                                "by_outcome": {k: sum(1 for x in ex["exchanges"] if (x["class"], x["fault"]) == k2)
                                               for k2 in sorted({(x["class"], x["fault"]) for x in ex["exchanges"]})
                                               for k in ["%s/%s" % k2]},
                                "values_received_by_the_server": {k: sum(1 for c in ex["calls"] if c["consumer"] == k)
                                                                  for k in ("nonce", "new_nonce", "dh_b")},
                                "located_as_slices": ex["literal"], "justified_by_reads": ex["by_reads"], "rejected": ex["bad"],
                                "reads_of_crypto_rand_Reader": len(ex["reads"]), "bytes_served": ex["served"]},
         "graph": {"nodes": fg["nodes"], "edges": fg["edges"], "expanded_functions": fg["expanded_functions"],
                   "seed_sites_all": fg["seed_sites_all"], "seed_sites_from_construction": fg["seed_sites_from_construction"]},
         "per_secret": per_secret,
         "programs": 1,
         "projection": "static: node kinds reachable backwards from each secret; dynamic: equality of the two generated values "
                       "(nonce bytes, SRP A, DH exponent) - no timestamps or error texts compared"})
    return C.finish(ctx, "proof", cov, [
        "the translator's edge rules over-approximate value flow except for L1-L3 (listed in trusted_base)",
        "crypto/rand is the operating system's cryptographic source; math/rand and the clock are reproducible",
        "CHA call graph restricted to receiver types that are converted to an interface somewhere in the program"])


def replay(ctx, path):
    obj = json.load(open(path))
    name = obj.get("secret")
    if obj.get("stage") in ("fresh", "exchange"):
        sd = int(obj.get("seed", ctx.seed))
        dynamic_freshness(ctx, sd, int(obj.get("n", 8)) if obj["stage"] == "fresh" else 2,
                          int(obj.get("n", 24)) if obj["stage"] == "exchange" else 24, write=False)
        mine = [k for (k, _, _) in ctx.violations if k == obj.get("key")]
        for (k, t, _) in ctx.violations:
            print(("* " if k in mine else "  ") + t[:600])
        if not ctx.violations:
            print("freshness: every secret handed out is fresh in both stages")
        if mine:
            print("VIOLATION property=C19 replay=%s" % path)
            return 1
        return 0
    if name not in SECRETS:
        print("replay names a broken obligation, re-running the full check")
        return run(ctx)
    fg = translate(ctx)
    s = {x["name"]: x for x in fg["secrets"]}[name]
    bad = s.get("bad_paths") or []
    bad = sorted(bad, key=len)
    static_bad = bool(bad) or not (s.get("sources") or {}).get("KOS")
    dyn = probe(ctx, [int(obj.get("seed", ctx.seed))])
    w = witness_of(dyn, name)
    print("secret=%s static: %s" % (name, ("offending source " + bad[0][0]) if bad else ("no OS source" if static_bad else "only crypto/rand sources")))
    for line in (bad[0] if bad else []):
        print("   ", line)
    print("secret=%s dynamic: %s" % (name, ("reproduced: " + json.dumps({k: (short(v) if k.endswith("_hex") else v) for k, v in w.items()})) if w
                                     else "two runs differ / no clock seed reproduces the value"))
    if static_bad or w:
        print("VIOLATION property=C19 replay=%s" % path)
        return 1
    return 0
