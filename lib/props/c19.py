"""C19 - secrets used for key agreement come from the OS cryptographic random source.

translator (harness/flowgraph, go/ssa) -> coq/gen/FlowGraph.v -> coqc Props/C19.v + Inst/C19i.v
(`secrets_ok graph secrets seed_sites = true` by vm_compute); when that obligation breaks the check
prints the offending path of the graph (file:line per node) and searches for a dynamic witness on the
real code (harness/root/cmd/c19: identical math/rand.Seed => identical nonces / SRP A; clock reading
that reproduces the DH exponent).  The dynamic probe also runs when the proof goes through: a secret
that repeats although the graph was accepted means the translator missed a flow."""
import json
import os

from .. import common as C

PROPS = ["theories/Props/C19.v", "theories/Inst/C19i.v"]
SECRETS = ["nonce", "new_nonce", "dh_b", "srp_a"]
WHAT = {
    "nonce": "key-exchange nonce (tl.RandomInt128, sent in req_pq / p_q_inner_data / client_DH_inner_data)",
    "new_nonce": "key-exchange new_nonce (tl.RandomInt256, p_q_inner_data)",
    "dh_b": "Diffie-Hellman exponent b (internal/math.MakeGAB)",
    "srp_a": "SRP ephemeral a (telegram/internal/srp.getInputCheckPassword; observed through A = g^a mod p)",
}


def translate(ctx):
    fb = C.build_harness("flowgraph")
    os.makedirs(C.COQ + "/gen", exist_ok=True)
    js = ctx.work + "/flowgraph.json"
    with C.Lock("coq"):     # gen/FlowGraph.v is shared with a concurrent coqc of this property
        rc, out = C.sh([fb, C.REPO, C.COQ + "/gen/FlowGraph.v", js], timeout=600)
    if rc != 0:
        raise C.BuildError("flowgraph translator failed on %s:\n%s" % (C.REPO, out[-3000:]))
    C.log(out.strip().splitlines()[-1] if out.strip() else "flowgraph: no output")
    return json.load(open(js))


def pregen(ctx):
    """setup: a clean Coq build needs gen/FlowGraph.v"""
    translate(ctx)


def probe(ctx, seeds):
    hb = C.build_harness("root", pkg="./cmd/c19")
    def once(sd):
        rc, out = C.sh([hb, "probe", str(sd)], env=ctx.env(), timeout=600)
        if rc != 0:
            raise C.BuildError("c19 probe failed: " + out[-2000:])
        r = {"seed": sd}
        for line in out.splitlines():
            f = line.split("\t")
            if f[0] == "V" and len(f) == 4:
                r[f[1]] = {"run1": f[2], "run2": f[3], "reproduced": f[2] == f[3]}
            elif f[0] == "B" and len(f) == 6:
                r[f[1]] = {"b": f[2], "run1": f[2], "t0": int(f[3]), "t1": int(f[4]),
                           "clock_seed": None if f[5] == "-" else int(f[5]), "reproduced": f[5] != "-"}
        if sorted(k for k in r if k != "seed") != sorted(SECRETS):
            raise C.BuildError("c19 probe: unexpected output:\n" + out[-2000:])
        return r
    res = []
    for sd in seeds:
        r, r2 = once(sd), once(sd)      # two separate processes: a generator with a fixed seed repeats here
        for n in SECRETS:
            r[n]["other_process"] = r2[n]["run1"]
            r[n]["reproduced_across_processes"] = r[n]["run1"] == r2[n]["run1"]
        res.append(r)
    return res


def short(h, n=32):
    return h if len(h) <= n else h[:n] + "...(%d hex digits)" % len(h)


def witness_of(dyn, name):
    """first probe in which the secret was reproduced -> replay fields"""
    for r in dyn:
        d = r[name]
        if not d["reproduced"] and d.get("reproduced_across_processes"):
            return {"how": "two separate processes (math/rand.Seed(seed) first) return the same value: the generator is deterministic",
                    "seed": r["seed"], "value_hex": d["run1"], "second_run_hex": d["other_process"]}
        if d["reproduced"]:
            if name == "dh_b":
                return {"how": "big.Int.Rand(rand.New(rand.NewSource(clock_seed)), 2^2048) equals the exponent MakeGAB returned; "
                               "clock_seed is a UnixNano reading inside the window [t0,t1] taken around the call",
                        "clock_seed": d["clock_seed"], "t0": d["t0"], "t1": d["t1"], "value_hex": d["b"], "seed": r["seed"]}
            return {"how": "math/rand.Seed(seed) before each of two runs: both runs return the same value",
                    "seed": r["seed"], "value_hex": d["run1"], "second_run_hex": d["run2"]}
    return None


def leaf_key(path):
    """stable name of the offending source = label of the first (source) node of the path without its id"""
    lab = path[0].split("] ", 1)[1]
    return lab.replace(" ", "_")[:160]


def run(ctx):
    fg = translate(ctx)
    pr = C.coq_props(PROPS)
    seeds = [ctx.seed] if ctx.tier == "quick" else [ctx.seed + i for i in range(8)]
    dyn = probe(ctx, seeds)

    failed = {f["file"] for f in pr["failed"]}
    inst_failed = "theories/Inst/C19i.v" in failed
    by = {s["name"]: s for s in fg["secrets"]}
    explained = False
    if inst_failed:
        for name in SECRETS:
            s = by[name]
            bad = s.get("bad_paths") or []
            has_os = bool((s.get("sources") or {}).get("KOS"))
            if not bad and has_os:
                continue
            explained = True
            w = witness_of(dyn, name)
            bad = sorted(bad, key=len)
            if bad:
                key = "flow:%s:%s" % (name, leaf_key(bad[0]))
                text = ("%s depends on a reproducible source: %s  (path of %d nodes; %d offending source nodes in its slice)"
                        % (WHAT[name], bad[0][0], len(bad[0]), len(bad)))
            else:
                key = "flow:%s:no-os-source" % name
                text = ("%s: no crypto/rand source flows into it (anchor not found in the tree or secret is constant); anchors=%s"
                        % (WHAT[name], s.get("anchors")))
            rep = {"secret": name, "broken_obligation": "theories/Inst/C19i.v: secrets_ok FlowGraph.graph = true",
                   "offending_path_source_to_secret": bad[0] if bad else [],
                   "offending_sources_nearest_first": [p[0] for p in sorted(bad, key=len)[:12]],
                   "offending_sources_total": len(bad),
                   "seed_sites_reachable_from_client_construction": fg["seed_sites_from_construction"],
                   "expected": "every source flowing into the secret is crypto/rand",
                   "got": "math/rand / clock / Seed site flows into it" if bad else "no OS source"}
            if w:
                rep["dynamic_witness_on_real_code"] = w
                rep.update({k: w[k] for k in ("seed",) if k in w})
                text += "; dynamic witness on the real code: %s -> %s" % (
                    ("clock reading %d" % w["clock_seed"]) if name == "dh_b" else ("rand.Seed(%d) twice" % w["seed"]),
                    short(w["value_hex"]))
            else:
                rep["no_failing_input"] = True
            C.violation(ctx, key, text, rep)
    # obligations that broke without an explanation from the graph (generic theorems, wf, count of secrets)
    for fl in pr["failed"]:
        if fl["file"] == "theories/Inst/C19i.v" and explained:
            continue
        C.violation(ctx, "coq:" + fl["file"], "C19: %s no longer checks: %s" % (fl["file"], fl["log"][-600:]),
                    {"no_failing_input": True, "broken_obligation": fl["file"], "log": fl["log"][-2000:]})
    # the graph was accepted but the real code repeats a secret: the translator missed a flow
    if not inst_failed:
        for name in SECRETS:
            w = witness_of(dyn, name)
            if w:
                C.violation(ctx, "dynamic:%s" % name,
                            "%s is reproducible on the real code (%s) although the flow graph was accepted" % (WHAT[name], w["how"]),
                            dict(w, secret=name, expected="two runs differ", got="identical value " + short(w["value_hex"])))

    if ctx.tier == "thorough" and not pr["failed"]:
        with C.Lock("coq"):
            rc, out = C.sh(["coqchk", "-silent", "-o", "-Q", "theories", "MTV", "-Q", "gen", "MTVgen", "MTV.Inst.C19i"],
                           cwd=C.COQ, timeout=1500)
        ctx.notes.append("coqchk MTV.Inst.C19i: rc=%d %s" % (rc, out.strip()[-300:]))
        if rc != 0:
            C.violation(ctx, "coqchk:C19i", "coqchk rejects the compiled proofs: " + out[-500:],
                        {"no_failing_input": True, "broken_obligation": "coqchk MTV.Inst.C19i"})

    per_secret = []
    for name in SECRETS:
        s = by[name]
        src = s.get("sources") or {}
        per_secret.append({"secret": name, "nodes": s["nodes"], "edges": s["edges"], "anchors": s.get("anchors") or [],
                           "source_leaves": {k: v for k, v in src.items()},
                           "path_from_an_OS_source": (s.get("good_paths") or [[]])[0]})
    evals = 2 * len(dyn) * len(SECRETS)
    distinct = len({(r["seed"], n) for r in dyn for n in SECRETS})
    samples = [{"secret": n, "seed": dyn[0]["seed"],
                **({"run1": short(dyn[0][n]["run1"]), "run2": short(dyn[0][n]["run2"])} if n != "dh_b" else
                   {"b": short(dyn[0][n]["b"]), "clock_window_ns": dyn[0][n]["t1"] - dyn[0][n]["t0"], "clock_seed": dyn[0][n]["clock_seed"]}),
                "reproduced": dyn[0][n]["reproduced"]} for n in SECRETS]
    cov = C.proof_coverage(
        pr, "make -f Makefile.coq theories/Props/C19.vo theories/Inst/C19i.vo (coqc 8.16.1) in /verif/coq, after "
            "harness/flowgraph <repo> coq/gen/FlowGraph.v",
        ["harness/flowgraph (go/packages + go/ssa + CHA of golang.org/x/tools v0.29.0): construction of the value-flow graph; "
         "edge rules V1-V4, M1-M3, D1, G in harness/flowgraph/rules.go; leaf classification by import path "
         "(crypto/rand = OS, math/rand = PRNG, time.Now & time.Time methods = TIME) and %d leaf contracts "
         "(standard-library functions documented not to write their arguments) in main.go" % fg.get("leaf_contracts", 0),
         "anchors of the four secrets: fields Nonce/NewNonce of the client-built structs of internal/mtproto/objects, exponent "
         "arguments of big.Int.Exp and result 0 of internal/math.MakeGAB, field GA (= g^a mod p) of srp.SrpAnswer",
         "not modelled by the translator: a reference parked in a slice/map element or channel, re-loaded and written through "
         "elsewhere (L1; globals, struct fields and local cells are covered), writes through reflect/unsafe into struct fields "
         "(L2), control dependence (L3); the dynamic probe cross-checks the real generators"],
        {"evaluations": evals, "distinct_nontrivial": distinct,
         "rule": "static: one flow graph per run = backward slices of the 4 secrets over the SSA of the whole program "
                 "(packages . and ./telegram with all dependencies); Coq decides secrets_ok on it. dynamic: for each seed "
                 "(VERIF_SEED, +7 more in the thorough tier) each of the 4 secrets is generated twice by the real code after "
                 "math/rand.Seed(seed), in two separate processes, and for the DH exponent the clock window around MakeGAB is searched "
                 "for a seed reproducing it; "
                 "a case = (seed, secret), non-trivial = the real generator ran and returned a value",
         "samples": samples,
         "graph": {"nodes": fg["nodes"], "edges": fg["edges"], "expanded_functions": fg["expanded_functions"],
                   "seed_sites_all": fg["seed_sites_all"], "seed_sites_from_construction": fg["seed_sites_from_construction"]},
         "per_secret": per_secret,
         "programs": 1,
         "projection": "static: node kinds reachable backwards from each secret; dynamic: equality of the two generated values "
                       "(nonce bytes, SRP A, DH exponent) - no timestamps or error texts compared"})
    return C.finish(ctx, "proof", cov, [
        "the translator's edge rules over-approximate value flow except for L1-L3 (listed in trusted_base)",
        "crypto/rand is the operating system's cryptographic source; math/rand and the clock are reproducible",
        "CHA call graph restricted to receiver types that are converted to an interface somewhere in the program"])


def replay(ctx, path):
    obj = json.load(open(path))
    name = obj.get("secret")
    if name not in SECRETS:
        print("replay names a broken obligation, re-running the full check")
        return run(ctx)
    fg = translate(ctx)
    s = {x["name"]: x for x in fg["secrets"]}[name]
    bad = s.get("bad_paths") or []
    bad = sorted(bad, key=len)
    static_bad = bool(bad) or not (s.get("sources") or {}).get("KOS")
    dyn = probe(ctx, [int(obj.get("seed", ctx.seed))])
    w = witness_of(dyn, name)
    print("secret=%s static: %s" % (name, ("offending source " + bad[0][0]) if bad else ("no OS source" if static_bad else "only crypto/rand sources")))
    for line in (bad[0] if bad else []):
        print("   ", line)
    print("secret=%s dynamic: %s" % (name, ("reproduced: " + json.dumps({k: (short(v) if k.endswith("_hex") else v) for k, v in w.items()})) if w
                                     else "two runs differ / no clock seed reproduces the value"))
    if static_bad or w:
        print("VIOLATION property=C19 replay=%s" % path)
        return 1
    return 0
