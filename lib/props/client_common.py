"""Shared check logic of the client-as-LTS properties (C09 routing, C10 outgoing stream; the
recorder, the model replay and the comparison are reusable for C11 / C16).

Pipeline of one run:
  1. build harness/root/cmd/c09 against the tree (tag verif: yield hooks) and the extracted model
  2. Props/Cxx.v re-checked by coqc (obligations)
  3. the harness runs schedules against the real client + in-process reference server under the
     controlled scheduler and writes a trace (actions with projected observations, direct oracles)
  4. the extracted `step` replays every trace; every action must be accepted with an equal projection
  5. direct-oracle failures and model disagreements become violations; replay = the schedule script
"""
import collections
import hashlib
import json
import os

from .. import common as C

KINDS = ["obj", "bool", "vecbare", "vecobj", "err"]

# thorough tier: every maximal history of two callers, enumerated in the extracted model
# (result kinds of the two callers, gzip inside rpc_result, how many of the histories are replayed: the first scope
# completely, the others every k-th history in enumeration order)
ENUM_SCOPES = [("obj", "vecbare", "0", "1000000"), ("vecobj", "err", "1", "8000"), ("bool", "vecobj", "0", "8000")]


class Sched:
    __slots__ = ("idx", "ncallers", "desc", "script", "acts", "rets", "wire", "viol", "final", "status", "stack", "extra")

    def __init__(self, idx, n, desc):
        self.idx, self.ncallers, self.desc = idx, n, desc
        self.script, self.acts, self.rets, self.wire, self.viol = [], [], [], [], []
        self.final, self.status, self.stack = None, None, None
        self.extra = {}


def parse_trace(path):
    out = collections.OrderedDict()
    with open(path, errors="replace") as f:
        for line in f:
            p = line.rstrip("\n").split("\t")
            if len(p) < 2:
                continue
            k, idx = p[0], p[1]
            if k == "B":
                out[idx] = Sched(idx, int(p[2]), p[3] if len(p) > 3 else "")
                continue
            s = out.get(idx)
            if s is None:
                continue
            if k == "S":
                s.script.append(p[2])
            elif k == "A":
                s.acts.append((p[2], p[3], p[4]))
            elif k == "R":
                s.rets.append(p[2:])
            elif k == "W":
                s.wire.append(p[2:])
            elif k == "V":
                s.viol.append((p[2], p[3], p[4]))
            elif k == "F":
                s.final = p[2]
            elif k == "N":
                s.extra["note"] = p[2]
            elif k == "P":
                s.extra.setdefault("P", []).append(p[2:])
            elif k == "X":
                s.extra.update(dict(kv.split("=", 1) for kv in p[2].split(" ")))
            elif k == "K":
                s.stack = p[2]
            elif k == "E":
                s.status = p[2]
    return out


def model_input(scheds, path):
    """The A lines for the model. A schedule in which the client process died has one script line
    more than recorded actions (the action during which it died): it is given to the model with the
    observation 'the receive loop is dead'."""
    with open(path, "w") as f:
        for s in scheds.values():
            f.write("B\t%s\n" % s.idx)
            for pre in s.extra.get("P", []):
                f.write("P\t%s\t%s\n" % (s.idx, "\t".join(pre)))
            for n, lbl, obs in s.acts:
                f.write("A\t%s\t%s\t%s\t%s\n" % (s.idx, n, lbl, obs))
            nscript = len([l for l in s.script if not l.startswith(("skew ", "seq0 "))]) \
                + 2 * len([l for l in s.script if l.startswith("early ")])  # (an early hand-over is recorded as three actions)
            if s.status and s.status.startswith("died") and nscript == len(s.acts) + 1 \
                    and s.script[-1].startswith("step rx"):
                n = str(len(s.acts))
                s.acts.append((n, "step rx 0", "rx@dead"))
                f.write("A\t%s\t%s\tstep rx 0\trx@dead\n" % (s.idx, n))
            f.write("F\t%s\n" % s.idx)


def parse_model(path):
    m, mf = {}, {}
    with open(path) as f:
        for line in f:
            p = line.rstrip("\n").split("\t")
            if p[0] == "M":
                m[(p[1], p[2])] = p[3]
            elif p[0] == "MF":
                mf[p[1]] = p[2:]
    return m, mf


def points_only(proj):
    """stable part of a projection: actor@point and item classes, no numbers"""
    import re
    out = []
    for it in proj.split(" "):
        if "@" in it:
            out.append(re.sub(r"^c\d+@", "c@", it))
        else:
            out.append(it.split(":")[0] + (":" + it.split(":")[1] if it.startswith("W:") and ":" in it else ""))
    return ",".join(out)


def record(ctx, hb, mode, arg, name):
    tr = "%s/%s.trace" % (ctx.work, name)
    env = ctx.env()
    env["VERIF_SEED"] = str(ctx.seed + 1000003 * getattr(ctx, "seed_shift", 0))
    rc, out = C.sh([hb, "run", mode, arg, tr], env=env, timeout=3000, cwd=ctx.work)
    if rc != 0:
        raise C.BuildError("client harness (%s %s) failed rc=%s (harness trouble, no verdict): %s" % (mode, arg, rc, out[-2000:]))
    scheds = parse_trace(tr)
    mi = "%s/%s.model_in" % (ctx.work, name)
    mo = "%s/%s.model_out" % (ctx.work, name)
    model_input(scheds, mi)
    C.run_model("C09", mi, mo)
    m, mf = parse_model(mo)
    return scheds, m, mf


def confirm_stall(ctx, hb, s, tag):
    """A stall verdict is confirmed before it is reported: the schedule is run once more, ALONE (a fresh worker process,
    no parked goroutines left over from hundreds of earlier schedules), with a 4x watchdog. Under the controlled
    scheduler a real stall is deterministic and stalls again; a verdict that does not repeat was the machine being slow."""
    import re
    name = "confirm-%s-%s" % (re.sub(r"[^A-Za-z0-9]", "_", tag), s.idx)
    sp = "%s/%s.script" % (ctx.work, name)
    with open(sp, "w") as f:
        f.write("S 0 %d confirm\n" % s.ncallers)
        for l in s.script:
            f.write(l + "\n")
        f.write("E\n")
    tr = "%s/%s.trace" % (ctx.work, name)
    env = ctx.env()
    base = int(os.environ.get("VERIF_WATCHDOG_MS", "5000") or "5000")
    env["VERIF_WATCHDOG_MS"] = str(4 * base)
    # once as the machine is, then on one processor: what happens between two yield points is not under the controlled
    # scheduler, and a stall that depends on when a freshly started goroutine first runs shows under load (the batch run)
    # or on few processors, not necessarily on an idle machine
    for procs in (None, "1"):
        if procs:
            env["GOMAXPROCS"] = procs
        rc, out = C.sh([hb, "run", "script", sp, tr], env=env, timeout=1200, cwd=ctx.work)
        if rc != 0:
            raise C.BuildError("client harness c09 failed while confirming a stall (rc=%s): %s" % (rc, out[-1500:]))
        for a in parse_trace(tr).values():
            if (a.status or "").startswith("stuck"):
                return True
            break
    return False


def evaluate(ctx, prop, scheds, m, mf, stats, tag, hb=None):
    """Adds violations of `prop` for one batch; returns (validated, disagreements)."""
    validated = 0
    disagreements = 0
    for s in scheds.values():
        replay = {"schedule": s.script, "callers": s.ncallers, "batch": tag, "index": int(s.idx),
                  "how": "written to a file as 'S 0 <callers> replay' + these lines + 'E' and run with: c09 run script <file> <trace>"}
        stats["schedules"] += 1
        stats["actions"] += len(s.acts)
        stats["callers_%d" % s.ncallers] += 1
        st = s.status or "no-end-line"
        stats["status_" + st.split(":")[0]] += 1
        # ---- direct oracles (computed by the harness on the real client) ----------------
        for (p, key, text) in s.viol:
            if p == prop:
                C.violation(ctx, key, "%s [schedule %s/%s]" % (text, tag, s.idx),
                            dict(replay, oracle="direct", expected="property holds", got=text))
        if st.startswith("died"):
            if prop == "C09":
                C.violation(ctx, st, "the client process was killed by its receive loop (%s) while results were being "
                            "delivered [schedule %s/%s]" % (st, tag, s.idx),
                            dict(replay, oracle="direct", expected="every call returns its own result", got=st))
        elif st.startswith("stuck") and s.extra.get("broken") == "true":
            # a probe got past the send lock earlier in this schedule: from then on the scheduler's idea of who holds
            # which lock is void, a stall is its own artefact; the finding is the probe (model disagreement) and
            # whatever the direct oracles say about the frames
            stats["stalls_after_a_probe_got_through_(not_reported)"] += 1
        elif st.startswith("stuck") and hb is not None and not confirm_stall(ctx, hb, s, tag):
            stats["timing_retries"] += 1
            ctx.notes.append("a stall verdict (%s, schedule %s/%s) did not repeat when the schedule was run alone with a 4x watchdog: "
                             "counted as timing_retries, not reported" % (st, tag, s.idx))
        elif st.startswith("stuck"):
            if hb is not None:
                stats["stalls_confirmed"] += 1
            C.violation(ctx, st, "deadlock or stall: an operation the scheduler knew to be enabled did not complete within the "
                        "watchdog (%s) [schedule %s/%s]" % (st, tag, s.idx),
                        dict(replay, oracle="direct", expected="enabled step completes", got=st, goroutines=s.stack))
        elif st.startswith("notenabled"):
            C.violation(ctx, "model-disagrees:script-step-not-enabled",
                        "a history accepted by the model cannot be executed on the client: %s [schedule %s/%s]" % (st, tag, s.idx),
                        dict(replay, oracle="model", no_failing_input=True, expected="step enabled", got=st))
        elif st != "ok":
            raise C.BuildError("harness trouble in schedule %s/%s: %s" % (tag, s.idx, st))
        if prop == "C10":
            # msg_id order as seen in the action log (also available when the process died before the end)
            for n, lbl, obs in s.acts:
                for it in obs.split(" "):
                    f = it.split(":")
                    if f[0] == "W" and len(f) >= 5:
                        if f[4] == "0":
                            C.violation(ctx, "msgid-order-inversion", "a message was written with a msg_id not above the previous "
                                        "one [schedule %s/%s action %s]" % (tag, s.idx, n), dict(replay, oracle="direct", got=it))
                        if f[3] != "0":
                            C.violation(ctx, "msgid-not-multiple-of-4", "msg_id mod 4 = %s [schedule %s/%s]" % (f[3], tag, s.idx),
                                        dict(replay, oracle="direct", got=it))
        # ---- trace validation against the extracted model ------------------------------
        ok = True
        for n, lbl, obs in s.acts:
            got = m.get((s.idx, n))
            if got != obs:
                ok = False
                disagreements += 1
                key = "model-disagrees:client=%s:model=%s" % (points_only(obs), points_only(got or "none"))
                C.violation(ctx, key, "trace validation: action %s (%s) observed '%s', model '%s' [schedule %s/%s]"
                            % (n, lbl.split(" ")[0] + " " + lbl.split(" ")[1], obs, got, tag, s.idx),
                            dict(replay, oracle="extracted Client/Model.v step", no_failing_input=True, expected=got, got=obs, action=int(n)))
                break
        if ok and st == "ok":
            fm = mf.get(s.idx, ["?"])
            if s.final != fm[0]:
                ok = False
                disagreements += 1
                C.violation(ctx, "model-disagrees:final-state", "shared state at the end: client %s, model %s [schedule %s/%s]"
                            % (s.final, fm[0], tag, s.idx), dict(replay, oracle="model", no_failing_input=True, expected=fm[0], got=s.final))
            elif prop == "C10" and len(fm) > 1 and "unacked=0" not in fm[1]:
                C.violation(ctx, "model-disagrees:unacked", "model's own ack check fails on an accepted trace: %s" % fm[1],
                            dict(replay, oracle="model", no_failing_input=True))
        if ok:
            validated += 1
        # ---- distribution ------------------------------------------------------------------
        for l in s.script:
            w = l.split(" ")
            if w[0] == "call":
                stats["call_" + w[2]] += 1
            elif w[0] == "srv":
                if "cont" in w:
                    stats["srv_container"] += 1
                    if w.count("cont") > 1:
                        stats["srv_container_in_container"] += 1
                    if w[3] == "gz" and w[4] == "cont":
                        stats["srv_gzip_packed_container"] += 1
                if "2" in [w[i + 1] for i, x in enumerate(w[:-1]) if x in ("res", "err")]:
                    stats["srv_result_for_an_id_never_used"] += 1
                if w[3] == "gz":
                    stats["srv_toplevel_gzip"] += 1
                if w[3] in ("res", "err"):
                    stats["srv_plain_result"] += 1
                if w[3] in ("pong", "ack", "newsess", "upd"):
                    stats["srv_service"] += 1
                for i, x in enumerate(w):
                    if x in ("res", "err") and w[i + 2] == "1":
                        stats["result_gzip_packed"] += 1
        for r in s.rets:
            if r[3] != "pending":
                stats["calls_completed"] += 1
            if len(r) > 4 and r[4].isdigit() and int(r[4]) > 1:
                stats["calls_answered_more_than_once"] += 1
            if r[2].endswith(":empty"):
                stats["results_empty_vector"] += 1
        x = s.extra
        if x:
            stats["clock_regime_" + x.get("skew", "?")] += 1
            if x.get("seq0", "0") != "0":
                stats["sessions_started_8_below_2^31_seq_no"] += 1
            stats["sends_with_clock_not_above_last_id"] += int(x.get("bumps", 0))
            if int(x.get("bumpmax", 0)) >= 2:
                stats["schedules_with_2+_consecutive_such_sends"] += 1
            stats["longest_run_of_such_sends"] = max(stats["longest_run_of_such_sends"], int(x.get("bumpmax", 0)))
            stats["lock_probes"] += int(x.get("probes", 0))
            stats["lock_probes_blocked"] += int(x.get("blocked", 0))
            stats["handovers_tried_before_the_caller_listened"] += int(x.get("early", 0))
            stats["server_messages_sent_while_a_sender_is_at_wire"] += int(x.get("wiresrv", 0))
            stats["messages_processed_while_a_caller_is_at_wire"] += int(x.get("wiredeliver", 0))
            stats["server_seq_nos_with_top_bit_set"] += int(x.get("highseq", 0))
            if x.get("broken") == "true":
                stats["schedules_where_a_probe_got_past_the_send_lock"] += 1
    return validated, disagreements


def nontrivial(s):
    """a schedule is non-trivial if at least one call completed and it has concurrency or structure:
    two or more callers, or a container, or gzip"""
    done = any(r[3] != "pending" for r in s.rets)
    rich = s.ncallers >= 2 or any(("cont" in l.split(" ") or " gz " in l or " 1 " in l) for l in s.script if l.startswith("srv"))
    return done and rich


def run_prop(ctx, prop, n_quick, n_thorough):
    props = ["theories/Props/%s.v" % prop]
    hb = C.build_harness("root", pkg="./cmd/c09")
    pr = C.coq_props(props)
    C.coq_obligation_violations(ctx, pr, prop)
    C.build_model("C09")

    stats = collections.Counter()
    validated = 0
    disagreements = 0
    distinct = set()
    samples = []
    exhaustive = []
    pinned = C.V + "/harness/root/cmd/c09/scripts/pinned.script"
    batches = [("pinned", "script", pinned), ("random", "random", str(n_quick if ctx.tier == "quick" else n_thorough))]
    if ctx.tier == "thorough":
        for (k0, k1, gz, lim) in ENUM_SCOPES:
            path = "%s/enum-%s-%s-%s.script" % (ctx.work, k0, k1, gz)
            with open(path, "wb") as f:
                import subprocess
                p = subprocess.run(["%s/model_C09" % C.BIN, "enum", k0, k1, gz, lim], stdout=f, stderr=subprocess.PIPE, timeout=1200)
            if p.returncode != 0:
                raise C.BuildError("model enumeration failed: " + p.stderr.decode()[-1000:])
            exhaustive.append(p.stderr.decode().strip())
            batches.append(("enum-%s-%s-gz%s" % (k0, k1, gz), "script", path))
    for (tag, mode, arg) in batches:
        scheds, m, mf = record(ctx, hb, mode, arg, tag)
        v, d = evaluate(ctx, prop, scheds, m, mf, stats, tag, hb=hb)
        validated += v
        disagreements += d
        for s in scheds.values():
            if nontrivial(s):
                distinct.add(hashlib.sha1("\n".join(s.script).encode()).hexdigest())
            if len(samples) < 3 and tag == "random" and s.ncallers >= 2 and len(s.script) < 60 and nontrivial(s):
                samples.append({"callers": s.ncallers, "schedule": s.script,
                                "observed": [a[2] for a in s.acts], "returns": s.rets,
                                "frames_seen_by_server(index,seq_no,kind,acked)": [[w[0], w[2], w[3], w[4]] for w in s.wire]})
    if not samples:
        samples.append({"note": "no short two-caller schedule in this run", "batches": [b[0] for b in batches]})
    if stats["messages_processed_while_a_caller_is_at_wire"] == 0 and not ctx.violations:
        raise C.BuildError("coverage hole: no answer was dispatched while its request's WriteMsg had not returned (harness trouble, no verdict)")
    ahead = stats["clock_regime_ahead1m"] + stats["clock_regime_ahead1h"]
    if ahead > 0 and stats["schedules_with_2+_consecutive_such_sends"] == 0 and not ctx.violations:
        raise C.BuildError("coverage hole: %d schedules ran with lastMsgID ahead of the wall clock but none had two consecutive "
                           "sends in that regime (harness trouble, no verdict)" % ahead)
    if ctx.tier == "thorough":
        with C.Lock("coq"):
            rc, out = C.sh(["coqchk", "-silent", "-o", "-Q", "theories", "MTV", "MTV.Props.%s" % prop], cwd=C.COQ, timeout=1500)
        okc = rc == 0 and "Axioms: <none>" in out
        exhaustive.append("coqchk -o MTV.Props.%s: %s" % (prop, "ok, Axioms: <none>" if okc else "FAILED"))
        if not okc:
            C.violation(ctx, "coq:coqchk", "coqchk does not accept Props/%s.vo: %s" % (prop, out[-600:]),
                        {"no_failing_input": True, "broken_obligation": "coqchk MTV.Props.%s" % prop, "log": out[-2000:]})
    return pr, stats, validated, disagreements, distinct, samples, exhaustive


TRUSTED = [
    "harness/root/refserver (in-process reference server for a keyed session; envelope via the repository's aes_ige in the server "
    "direction, bodies via the repository's tl package) and harness/root/csched + cmd/c09 (controlled scheduler, trace recorder, direct oracles)",
    "the scheduler's notion of 'enabled' = Go semantics of sync.Mutex (free/held), unbuffered channel rendezvous, blocking socket read; "
    "'blocked on the send lock' = no arrival within 40 ms after release from 'prelock' while another sender is inside sendPacket",
    "clock regimes are set by writing MTProto.lastMsgID through reflection (equivalent to one earlier clock reading that far ahead)",
    "the network write is a scheduling point of its own: MTProto.transport is replaced (reflection) by a wrapper whose WriteMsg forwards "
    "and then calls the yield hook with point 'wire' (bytes out, WriteMsg not returned); model: the state after the write, CWritten / "
    "RAckWritten, already holds the table entry - 'wire' and 'written' both map to it (the step between them is a stutter)",
    "coq/extract/C09/driver.ml (label parser, projection printer, two-caller enumerator); the traces are replayed through step2 of "
    "Client/Live.v (the client with the repaired receive loop), keyed, without Warnings channel and handler",
    "loopback TCP delivers bytes in order; goroutine scheduling is fair; the 65 s read deadline and the 60 s pinger never fire "
    "inside a schedule (runs last milliseconds)",
]

ASSUMPTIONS = [
    "model granularity: one label = the code between two scheduling points (verifYield points + the network write); the write is the LAST "
    "externally visible action of its block, so the server can only react to a state the scheduler can hold; blocks are atomic because each "
    "touches shared state only under seqNoMutex or through the mutex-protected tables, and the scheduler never lets two goroutines run "
    "between yields concurrently (one release at a time; a rendezvous releases exactly the two partners)",
    "scheduler fairness and real time-outs are assumed, not modelled; pinger and read deadline are outside the explored histories",
    "seq_no monotonicity is stated for fewer than 2^30 messages per session (Go int32 seqNo wraps after that): one schedule in eight "
    "starts the client's counter 8 below 2^31 (reflection), the frames then carry the wrapped (negative) values and the model's wrap32 "
    "must give the same numbers; the direct monotonicity oracle is off in those schedules - that is the documented limit",
    "a stall verdict is reported only if it repeats when the schedule is run alone with a 4x watchdog (timing_retries counts the others)",
    "results are compared as WHOLE values: every element of a vector (length classes 0, 1, 2, 17, 1500; the caller's token in the last "
    "element), every field of an object (pong / msgs_detailed_info, token in the last field), rpc_error code and message; the expected "
    "value of a call is the first answer addressed to it that can be decoded; later answers for the same id, answers for ids never used "
    "and Vector<> answers to calls that declared none must be acknowledged and skipped",
    "server alphabet of the correspondence runs: rpc_result (object, Bool, Vector<int>, Vector<object>), rpc_error, gzip_packed inside "
    "rpc_result and around it, msg_container, pong, msgs_ack, new_session_created, an unhandled object; bad_server_salt / "
    "bad_msg_notification / connection close are reserved program counters of the model (C11, C16)",
]


def finish(ctx, prop, pr, stats, validated, disagreements, distinct, samples, exhaustive, rule_extra):
    cov = C.proof_coverage(
        pr, "make -f Makefile.coq theories/Props/%s.vo (coqc 8.16.1) in /verif/coq" % prop, TRUSTED,
        {"evaluations": stats["schedules"], "distinct_nontrivial": len(distinct),
         "traces_validated_against_impl": validated,
         "transitions": stats["actions"],
         "rule": "schedules are drawn while they run: at every point one of the enabled actions (start a call of a random result kind, "
                 "release one parked goroutine, let the server answer a random non-empty subset of the received requests in random order as "
                 "plain message / gzip_packed / msg_container (also nested in a container, gzip-packed as a whole, items gzip-packed) with optional service "
                 "items, repeat an answer with the same or another payload / answer an id never used - before, between or after wanted results -, send an "
                 "unsolicited service message) is chosen by a "
                 "splitmix64 stream seeded with VERIF_SEED; 1-4 callers with 1-2 calls each. Each random schedule runs in one clock regime: lastMsgID untouched (0), 4 below now, or one minute / one hour AHEAD of the wall clock "
                 "(then every send of the run - calls, pings issued through objects.Ping like the pinger does, the receive loop's msgs_ack - sees a clock "
                 "reading not above the last id; the model is then given the harness's own clock reading and must reach the observed id by its bump); "
                 "a third of the schedules also PROBE the send lock: a sender parked at 'prelock' is released while another one (caller or receive "
                 "loop) is parked between 'idgen' and its return; it must not come back within the probe time-out (model: step refused), gets the lock "
                 "when the holder returns, and if it does come back it is driven to write first (wire order oracle). Thorough adds every maximal history of two callers "
                 "enumerated by the extracted model. Each action's projected observation (who is parked where, frame written: kind / seq_no / "
                 "msg_id mod 4 / above-previous, value returned) must equal the extracted step's. Non-trivial = distinct schedule in which a "
                 "call completed and there were >= 2 callers or a container or gzip. " + rule_extra,
         "samples": samples, "input_distribution": dict(stats), "disagreements_checked": disagreements,
         "projection": "actor@yield-point, per written frame (request|ack, seq_no, msg_id mod 4, msg_id above previous, acked server id), "
                       "per return (kind:token); table/hint sizes and seq_no at the end; never absolute client msg_ids, times, error texts",
         "exhaustive_scopes": exhaustive})
    return C.finish(ctx, "proof", cov, ASSUMPTIONS)


def replay(ctx, prop, path):
    obj = json.load(open(path))
    if "schedule" not in obj:
        print("replay names a broken obligation: re-running the check")
        return None
    hb = C.build_harness("root", pkg="./cmd/c09")
    C.build_model("C09")
    sp = ctx.work + "/replay.script"
    with open(sp, "w") as f:
        f.write("S 0 %d replay\n" % obj.get("callers", 2))
        for l in obj["schedule"]:
            f.write(l + "\n")
        f.write("E\n")
    scheds, m, mf = record(ctx, hb, "script", sp, "replay")
    stats = collections.Counter()
    evaluate(ctx, prop, scheds, m, mf, stats, "replay")
    for s in scheds.values():
        print("status=%s returns=%s" % (s.status, s.rets))
        for a in s.acts[-6:]:
            print("  ", a)
    # the replay reproduces iff the SAME finding (stable key) shows up again; a script recorded on another
    # tree may be cut short or not executable on this one, which is "not reproduced", not a new finding
    bad = [v for v in ctx.violations if v[0] == obj.get("key")]
    for key, text, _ in bad:
        print("  %s: %s" % (key, text[:300]))
    if bad:
        print("VIOLATION property=%s replay=%s" % (prop, path))
        return 1
    return 0
