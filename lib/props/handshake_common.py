"""Shared by C06 / C07 (auth-key handshake).

The harness harness/root/cmd/c06 runs the REAL client (NewMTProto + CreateConnection -> makeAuthKey) against the
in-process key-exchange server harness/root/hsserver (written from the specification, no code shared with the
repository) with crypto/rand.Reader replaced by a scripted reader, classifies every case with a direct oracle and
writes the input of the extracted Coq model (coq/extract/C06): draws, server parameters or recorded replies, and the
oracle table of math/big results for exactly the calls of the case.  This module runs the model, compares projected
observables and reports."""
import concurrent.futures
import hashlib
import json
import os
import subprocess

from .. import common as C

SUMMARY_FIELDS = ["id", "prop", "desc", "corner", "expect", "cls", "direct", "why",
                  "f1", "f2", "f3", "r1", "r2", "r3", "ckey", "chash", "csalt", "session",
                  "skey", "skeyid", "ssalt", "shash1", "encseen", "encopened", "encpkt", "fault", "errtext", "rejected",
                  "postreq", "after_encrypted", "postplain", "hang_retried", "storecalls", "afterchatter", "plainchatter", "encnotification", "latestep", "redial", "storefail", "storewindow"]

CLASS_OF_VERDICT = {"success": "ok", "failed": "err", "panicked": "panic", "stalled": "hang"}

TRUSTED = [
    "crypto/sha1, crypto/aes, math/big Exp / ProbablyPrime / GCD are parameters of the theorems (H, E, D, modexp, is_prime) with the hypotheses "
    "written in Props/C06.v and Props/C07.v; the Gallina SHA-1 / AES-256 / square-and-multiply instances satisfy all of them except the explicit "
    "SHA-1 no-collision premise (C06_agreement_inst, C07_no_panic_inst)",
    "math.SplitPQ: its loop is modelled with the random stream as an argument (Handshake/SplitPQ.v) and proved partially correct; termination is "
    "probabilistic and NOT proved (premise 'split pq <> None' of C06_agreement); in the correspondence the client's own result is used as an oracle "
    "after the harness checked p*q = pq, p < q independently",
    "RSA key pairs: 'decryption inverts encryption on [0, n)' is part of the definition of a conformant server (rsa_pair); it holds for real keys by "
    "Euler's theorem (not proved here) and is checked by the harness on every block it decrypts (three fixed RSA-2048 test keys)",
    "oracle tables: for 2048-bit RSA/DH the model receives the results of math/big Exp / ProbablyPrime for exactly the calls of the case, recorded by the "
    "harness; a missing entry is reported, never defaulted",
    "harness/root/hsserver: an independent implementation of the key-exchange specification (own transport, TL layouts, IGE on crypto/aes, temp keys, "
    "MTProto 1.0 envelope); it is compared byte for byte with the Coq server model (Handshake/Server.v) on every conformant case",
    "the client's random draws are injected by assigning crypto/rand.Reader (restored after each handshake); EncryptMessageWithTempKeys takes its padding "
    "from math/rand: the server recovers those bytes and they are passed to the model",
    "a reply whose constructor is none of the six key-exchange answers, or whose body does not decode, ends the exchange with an error in the model "
    "(either the wrapper refuses the type or the read loop hands the decoding error to the waiting request); rpc_error replies are outside the model",
    "after every exchange the harness makes one ordinary request (ping) on the same client: after success the server must be able to read it and its "
    "rpc_result{pong} answer must come back; after an abandoned exchange no encrypted frame may appear and the verif export must show encrypted = false, "
    "no auth key, salt 0",
    "the session store handed to the client counts every Store call; after every abandoned exchange the server sends five more unencrypted messages on the "
    "open connection and the store, the file and the client state must stay untouched (a short settle with polling stands in for a 'client has read' signal)",
    "a 'hang' verdict (20 s watchdog) is only reported after the same case hung again when re-run on its own with a 120 s limit",
    "SaveSession is assumed to succeed (file system errors are outside the model)",
]


def read_summary(path):
    rows = []
    for f in C.read_tsv(path):
        f = f + [""] * (len(SUMMARY_FIELDS) - len(f))
        rows.append(dict(zip(SUMMARY_FIELDS, f)))
    return rows


def read_cases(path):
    cases = {}
    with open(path) as fh:
        for line in fh:
            line = line.strip()
            if line:
                c = json.loads(line)
                cases[c["ID"]] = c
    return cases


def run_model_parallel(model_in, out_path, workers=12):
    """Split the block-structured model input by cases and run the extracted model on the chunks concurrently."""
    blocks, cur = [], []
    with open(model_in) as fh:
        for line in fh:
            cur.append(line)
            if line.startswith("end\t"):
                blocks.append("".join(cur))
                cur = []
    workers = max(1, min(workers, len(blocks), os.cpu_count() or 1))
    chunks = [[] for _ in range(workers)]
    for i, b in enumerate(blocks):
        chunks[i % workers].append(b)
    binp = "%s/model_C06" % C.BIN

    def one(chunk):
        p = subprocess.run([binp], input="".join(chunk).encode(), stdout=subprocess.PIPE, stderr=subprocess.PIPE, timeout=1500)
        if p.returncode != 0:
            raise C.BuildError("model driver C06 failed: %s" % p.stderr.decode()[-2000:])
        return p.stdout.decode()

    outs = []
    with concurrent.futures.ThreadPoolExecutor(max_workers=workers) as ex:
        for o in ex.map(one, chunks):
            outs.append(o)
    with open(out_path, "w") as fh:
        fh.write("".join(outs))
    model = {}
    for o in outs:
        for line in o.splitlines():
            f = line.split("\t")
            if f and f[0]:
                model[f[0]] = dict(x.split("=", 1) for x in f[1:] if "=" in x)
    return model


def case_key(prop, c):
    if c.get("Corner"):
        return "corner:%s" % c["Corner"]
    if c.get("Fault"):
        f = c["Fault"]
        k = "fault:%s:%s" % (f["Target"], f["Kind"])
        if f["Kind"] == "flip":
            k += ":%d" % f["Pos"]
        h = hashlib.sha1(json.dumps(c, sort_keys=True).encode()).hexdigest()[:8]
        return k + ":" + h
    h = hashlib.sha1(json.dumps(c, sort_keys=True).encode()).hexdigest()[:16]
    return "exchange:%s" % h


def replay_obj(prop, c, r, expected, got, oracle):
    return {"case": c, "description": r["desc"], "expected": expected, "got": got, "oracle": oracle,
            "scripted_draws": {"nonce": c["Nonce"], "new_nonce": c["NewNonce"], "b": c["B"]},
            "server": {"server_nonce": c["ServerNonce"], "pq": c["PQ"], "p": c["P"], "q": c["Q"], "rsa_test_key": c["Key"], "g": c["G"],
                       "dh_prime": c["DHPrime"][:32] + "..", "a": c["A"][:32] + "..", "fault": c.get("Fault")},
            "client_error_text": r.get("errtext", ""), "server_refusal": r.get("rejected", ""),
            "how": "harness/root/cmd/c06 one <file with the 'case' object> : NewMTProto + CreateConnection against harness/root/hsserver with "
                   "crypto/rand.Reader scripted to nonce|new_nonce|b"}


def compare(prop, r, m):
    """Model (on which the theorems are proved) vs implementation, projected observables. Returns list of differing fields."""
    diffs = []
    if m is None:
        return ["no model output"]
    v = m.get("verdict", "?")
    if v == "oracle-missing":
        raise C.BuildError("harness trouble (no verdict): case %s: the model asked for a library result that is not in the oracle table: %s"
                           % (r["id"], m.get("what", "?")))
    if CLASS_OF_VERDICT.get(v) != r["cls"]:
        diffs.append("outcome: model %s, implementation %s" % (v, r["cls"]))
    for k in ("f1", "f2", "f3"):
        if m.get(k, "-") != r[k]:
            diffs.append("plain message %s differs" % k[1])
    if prop == "C06":
        for k in ("r1", "r2", "r3"):
            if m.get(k, "-") != r[k]:
                diffs.append("server reply %s: Coq server model and hsserver differ" % k[1])
        if v == "success":
            for mk, rk, what in (("skey", "skey", "server key"), ("skeyid", "skeyid", "server key id"), ("ssalt", "ssalt", "server salt"),
                                 ("shash1", "shash1", "new_nonce_hash1")):
                if m.get(mk, "-") != r[rk]:
                    diffs.append("%s: Coq server model and hsserver differ" % what)
    if v == "success" and r["cls"] == "ok":
        for mk, rk, what in (("key", "ckey", "auth key"), ("hash", "chash", "key id"), ("salt", "csalt", "salt")):
            if m.get(mk, "-") != r[rk]:
                diffs.append("%s differs" % what)
        if m.get("saved", "-") + "|host-ok" != r["session"]:
            diffs.append("stored session differs")
        if r["encpkt"] != "-" and m.get("enc", "-") != r["encpkt"]:
            diffs.append("first encrypted request differs")
    else:
        if m.get("saved", "-") != "-" or (r["session"] not in ("-", "?") and r["cls"] != "ok"):
            diffs.append("session stored on a run that did not succeed (model saved=%s, implementation session=%s)" % (m.get("saved", "-")[:20], r["session"][:20]))
    return diffs


def run(ctx, prop, props_file, rule, distribution_note):
    hb = C.build_harness("root", pkg="./cmd/c06")
    outdir = ctx.work
    rc, out = C.sh([hb, "gen", prop, ctx.tier, outdir], env=ctx.env(), timeout=3000)
    if rc != 0:
        raise C.BuildError("harness gen failed: " + out[-2000:])
    stats = {}
    for l in out.splitlines():
        f = l.split("\t")
        if len(f) == 3 and f[0] == "stat":
            stats[f[1]] = int(f[2])

    pr = C.coq_props(props_file if isinstance(props_file, list) else [props_file])
    C.coq_obligation_violations(ctx, pr, prop)
    coqchk = None
    if ctx.tier == "thorough" and not pr["failed"]:
        with C.Lock("coq"):
            rc, o = C.sh(["coqchk", "-silent", "-o", "-Q", "theories", "MTV", "MTV.Props." + prop], cwd=C.COQ, timeout=3000)
        coqchk = "coqchk -silent -o MTV.Props.%s: rc=%d; %s" % (prop, rc, "Axioms: <none>" if "* Axioms: <none>" in o else o[-400:])
        if rc != 0 or "* Axioms: <none>" not in o:
            C.violation(ctx, "coqchk:Props/" + prop, "coqchk does not accept the compiled proofs of %s: %s" % (prop, o[-600:]),
                        {"no_failing_input": True, "broken_obligation": "coqchk MTV.Props." + prop, "log": o[-2000:]})

    rows = read_summary(outdir + "/summary.tsv")
    cases = read_cases(outdir + "/cases.jsonl")
    C.build_model("C06")
    model = run_model_parallel(outdir + "/model.in", outdir + "/model.out")

    evals = 0
    nontrivial = set()
    disagreements = 0
    direct_fail = 0
    samples = []
    harness_errors = []
    for r in rows:
        evals += 1
        c = cases[r["id"]]
        if r.get("latestep", "") not in ("", "0"):
            stats["client_held_300ms_before_it_listened_for_answer_%s" % r["latestep"]] = \
                stats.get("client_held_300ms_before_it_listened_for_answer_%s" % r["latestep"], 0) + 1
        if r.get("storewindow", "") not in ("", "-"):
            stats["encrypted_pong_during_the_first_store:" + r["storewindow"].split(":")[0]] = stats.get("encrypted_pong_during_the_first_store:" + r["storewindow"].split(":")[0], 0) + 1
        if r.get("redial", "") not in ("", "-"):
            stats["abandoned_exchange_then_connection_closed:" + r["redial"]] = stats.get("abandoned_exchange_then_connection_closed:" + r["redial"], 0) + 1
        if c.get("Corner"):
            nt = c["Corner"]
        elif c.get("Fault"):
            fl = c["Fault"]
            nt = "%s:%s%s" % (fl["Target"], fl["Kind"], (":%d" % fl["Pos"]) if fl["Kind"] == "flip" else "")
        else:
            nt = "exchange:pq%d:g%d:key%d:gaw%d" % (len(c["PQ"]) // 2, c["G"], c["Key"], c["GAWidth"])
        nontrivial.add(nt)
        if r["direct"] == "harness-error":
            harness_errors.append("%s: %s" % (r["id"], r["why"]))
            continue
        key = case_key(prop, c)
        if r["direct"] == "fail":
            direct_fail += 1
            C.violation(ctx, key, "%s: %s" % (r["desc"], r["why"]),
                        replay_obj(prop, c, r, "expect=%s" % r["expect"], "%s: %s" % (r["cls"], r["why"]),
                                   "direct (independent conformant / single-fault server harness/root/hsserver)"))
            continue
        if r["direct"] == "pass-direct-only":
            # a fault outside the model (the session storage fails): the direct oracle alone decides
            stats["exchanges_whose_session_could_not_be_stored"] = stats.get("exchanges_whose_session_could_not_be_stored", 0) + 1
            continue
        diffs = compare(prop, r, model.get(r["id"]))
        if diffs:
            disagreements += 1
            C.violation(ctx, key, "%s: Coq model (on which the %s theorems are proved) and implementation disagree: %s" % (r["desc"], prop, "; ".join(diffs)),
                        replay_obj(prop, c, r, json.dumps(model.get(r["id"], {}))[:1500], "%s %s" % (r["cls"], r["errtext"]),
                                   "model Handshake/Client.v + Handshake/Server.v (extracted)"))
        if len(samples) < 8 and (evals % max(1, len(rows) // 8) == 1):
            m = model.get(r["id"], {})
            samples.append({"case": r["desc"][:160], "implementation": r["cls"], "model": m.get("verdict"),
                            "req_DH_params_bytes": len(r["f2"]) // 2 if r["f2"] != "-" else 0,
                            "key_prefix": r["ckey"][:16], "salt": r["csalt"], "direct_oracle": r["direct"]})
    after_abort = [r["afterchatter"] for r in rows if r.get("afterchatter", "-") not in ("-", "")]
    after_ok = [r for r in rows if r.get("plainchatter", "-") not in ("-", "")]
    chatter = {
        "after_abandoned_exchange": "%d exchanges followed by unencrypted new_session_created, bad_server_salt, rpc_result, msg_container{new_session_created} "
                                    "and 40 bytes of garbage (rotating order); %d stayed clean (no Store call, encrypted=false, no key, salt 0, no session file)"
                                    % (len(after_abort), sum(1 for a in after_abort if a.startswith("stores=0 encrypted=false key=0 salt=0 file=-"))),
        "after_successful_exchange": "%d exchanges followed by the same five unencrypted messages: %d unchanged (no Store, salt kept); then the legitimate "
                                     "ENCRYPTED new_session_created: salt taken over and stored in %d"
                                     % (len(after_ok), sum(1 for r in after_ok if r["plainchatter"] == "stores+0 salt-changed=false"),
                                        sum(1 for r in after_ok if r.get("encnotification", "").startswith("stores+1 salt-taken=true"))),
    }
    if harness_errors:
        raise C.BuildError("harness errors (no verdict): " + "; ".join(harness_errors[:5]))

    cov = C.proof_coverage(
        pr, "make -f Makefile.coq %s (coqc 8.16.1) in /verif/coq" % " ".join(x[:-2] + ".vo" for x in (props_file if isinstance(props_file, list) else [props_file])), TRUSTED,
        {"evaluations": evals, "distinct_nontrivial": len(nontrivial), "rule": rule, "samples": samples,
         "input_distribution": dict(stats, note=distribution_note), "disagreements": disagreements,
         "direct_oracle_failures": direct_fail, "coqchk": coqchk or "thorough tier only",
         "post_exchange_chatter": chatter,
         "hang_verdicts_rerun_alone": stats.get("hang_verdicts_rerun_alone", 0), "hang_verdicts_confirmed": stats.get("hang_verdicts_confirmed", 0),
         "projection": "outcome class (returned nil / returned an error / panicked / never returned or process died); every plain message byte for byte; "
                       "auth key, key id, salt on both sides; contents of the session store (key, hash, salt, address matches); the first encrypted packet "
                       "byte for byte (msg_id, session id, seq_no taken from the server's reading); for conformant cases the three replies and the secrets of "
                       "the Coq server model vs the independent Go server. Never error texts, timings, msg_ids of plain messages"})
    return C.finish(ctx, "proof", cov, [
        "crypto/sha1, crypto/aes, math/big compute the functions of Prim/Sha1.v, Prim/Aes256.v and b^e mod m",
        "SHA-1 does not collide between the server's answer and the answer extended by a non-empty prefix of its <= 15 padding bytes (explicit premise of C06_agreement)",
        "RSA test keys satisfy decryption . encryption = id (checked on every block); SplitPQ returns on the given pq (probabilistic; observed, not proved)",
        "big.Int.Bytes/SetBytes/copy/slice and tl.Marshal/Decode semantics as written in Handshake/Bytes.v, Handshake/Objects.v (checked byte for byte on every message)"])


def replay(ctx, prop, path):
    obj = json.load(open(path))
    if "case" not in obj or str(obj.get("oracle", "")).startswith("model"):
        print("replay names a broken obligation / a model disagreement, re-running the full check")
        return None
    hb = C.build_harness("root", pkg="./cmd/c06")
    p = ctx.work + "/replay_case.json"
    json.dump(obj["case"], open(p, "w"))
    rc, out = C.sh([hb, "one", p], env=ctx.env(), timeout=600)
    line = [l for l in out.splitlines() if l.startswith(obj["case"]["ID"] + "\t")]
    print("case: %s" % obj.get("description"))
    print("scripted draws: %s" % json.dumps(obj.get("scripted_draws")))
    print("fault: %s" % json.dumps(obj["case"].get("Fault")))
    if not line:
        print("harness output: " + out[-800:])
        print("VIOLATION property=%s replay=%s" % (prop, path))
        return 1
    f = line[0].split("\t")
    print("client: %s   direct oracle: %s   %s" % (f[1], f[2], f[3]))
    if f[2] != "ok":
        print("VIOLATION property=%s replay=%s" % (prop, path))
        return 1
    return 0
