"""Shared check logic of C03 (envelope layout / key schedule) and C04 (forged packets refused,
no panic).  One Go harness source (harness/root/cmd/c03, built once per property so that the two
checks never share a binary) and one Coq model (Crypto/Envelope.v; extracted separately through
coq/extract/C03 and the receive-path-only coq/extract/C04) serve both; each property has its own
theorems, generator, oracles, evidence file and VIOLATION lines."""
import hashlib
import json

from .. import common as C

PROPS = {
    "C03": ["theories/Props/C03.v", "theories/Props/Compose.v"],
    "C04": ["theories/Props/C04.v"],
}

ENTRY = {
    "seal": "Encrypted.Serialize", "open": "DeserializeEncrypted", "sopen": "spec receiver (Coq) vs reference receiver (Go)",
    "sseal": "spec sender (Coq) vs reference sender (Go)", "spkt": "serializePacket", "user": "Unencrypted.Serialize",
    "udes": "DeserializeUnencrypted", "disp": "ReadMsg dispatch", "isenc": "isPacketEncrypted",
}


def short(h, n=48):
    return h if len(h) <= n else "%s..(%d bytes)" % (h[:n], len(h) // 2)


def cls(res):
    return res[:1] if res else "?"


def expected_server_fields(req):
    """what a conformant server must recover from a `seal` request"""
    _, _, _key, salt, sid, msgid, seq, ack, body = req
    s = bytearray(bytes.fromhex(seq))
    if ack == "1":
        s[0] |= 1
    return "O:" + ",".join([salt, sid, msgid, s.hex(), body])


def replay_obj(req, oracle, expected, got, extra=None):
    o = {"request": req, "oracle": oracle, "expected": expected, "got": got, "entry": ENTRY.get(req[0], req[0])}
    o.update(extra or {})
    return o


def run(ctx, prop):
    hb = C.build_harness("root", pkg="./cmd/c03", out="%s/h_root_cmd_c03_%s" % (C.BIN, prop))
    cases = ctx.work + "/cases.txt"
    impl = ctx.work + "/impl.txt"
    rc, out = C.sh([hb, "gen", prop, ctx.tier, cases, impl], env=ctx.env(), timeout=1800)
    if rc != 0:
        raise C.BuildError("harness gen failed: " + out[-2000:])
    stats = {}
    for l in out.splitlines():
        f = l.split("\t")
        if len(f) == 3 and f[0] == "stat":
            stats[f[1]] = int(f[2])

    pr = C.coq_props(PROPS[prop])
    C.coq_obligation_violations(ctx, pr, prop)

    C.build_model(prop)
    mraw = ctx.work + "/model.txt"
    C.run_model(prop, cases, mraw)
    model = {}
    for r in C.read_tsv(mraw):
        if len(r) == 2:
            model[r[0]] = r[1]

    rows = C.read_tsv(impl)
    evals = 0
    with_model = 0
    disagreements = 0
    nontrivial = set()
    classes = {}
    samples = []
    same_message = 0
    for r in rows:
        cid, mflag, got, direct, what = r[:5]
        req = r[5:]
        seq = None
        if "SEQ" in req:
            i = req.index("SEQ")
            t = req[i + 1:]
            req = req[:i]
            seq = {"call_index": int(t[0]), "via_readmsg": t[1] == "1",
                   "calls": [[t[j], t[j + 1]] for j in range(2, len(t) - 1, 2)]}
        kind = req[0]
        evals += 1
        classes[kind + ":" + cls(got)] = classes.get(kind + ":" + cls(got), 0) + 1
        digest = hashlib.sha1("\t".join(req[:1] + req[2:]).encode()).hexdigest()
        # non-trivial: the case exercises more than the key-id comparison / a trivial refusal
        if kind == "open":
            key, pkt = (b"" if req[3] == "-" else bytes.fromhex(req[3])), (b"" if req[4] == "-" else bytes.fromhex(req[4]))
            if pkt[:8] == hashlib.sha1(key).digest()[12:20]:
                nontrivial.add(digest)
        elif kind in ("seal", "sopen", "sseal", "spkt", "user"):
            nontrivial.add(digest)
        elif got.startswith("O:"):
            nontrivial.add(digest)
        sreq = [short(x) for x in req]
        if direct == "ok:same-message":
            same_message += 1
        # 1. direct oracle on the implementation (independent of the model)
        if direct.startswith("bad:"):
            why = direct[4:]
            if why.startswith("panic"):
                oracle, verdict = "no_panic", "panic"
            elif "changed after call" in why:
                oracle, verdict = "sequence", "kept-message-changed-by-later-call"
            elif "input packet buffer" in why:
                oracle, verdict = "sequence", "input-buffer-modified"
            elif "accepted" in why or "not refused" in why:
                oracle, verdict = "must_refuse", "accepted"
            else:
                oracle, verdict = "direct", "wrong-result"
            faultkind = cid.rstrip("0123456789")
            C.violation(ctx, "%s:%s:%s" % (ENTRY.get(kind, kind).split(" ")[0], verdict, faultkind),
                        "%s (%s): %s; implementation gives %s" % (ENTRY.get(kind, kind), what, why, short(got, 80)),
                        replay_obj(req, oracle, model.get(cid, "E" if oracle != "direct" else None), got,
                                   {"case": what, "why": why, "sequence": seq} if oracle == "sequence" else {"case": what, "why": why}))
            continue
        # 2. correspondence with the proved model
        if mflag == "model":
            with_model += 1
            m = model.get(cid)
            if m != got:
                disagreements += 1
                C.violation(ctx, "%s:differs-from-model:%s" % (ENTRY.get(kind, kind).split(" ")[0], cid.rstrip("0123456789")),
                            "%s (%s): model gives %s, implementation gives %s" % (ENTRY.get(kind, kind), what, short(m or "none", 80), short(got, 80)),
                            replay_obj(req, "equals", m, got, {"case": what, "model": "Crypto/Envelope.v via coq/extract/C03"}))
        if len(samples) < 8 and evals % max(1, len(rows) // 8) == 1:
            samples.append({"case": what, "request": sreq, "implementation": short(got, 64), "model": short(model.get(cid, "(implementation only)"), 64)})
    return pr, {"evaluations": evals, "with_model": with_model, "distinct_nontrivial": len(nontrivial), "samples": samples,
                "input_distribution": stats, "result_classes": classes, "disagreements_checked": disagreements,
                "altered_packets_accepted_with_the_sealed_message": same_message}


def replay(ctx, path, prop, rerun):
    obj = json.load(open(path))
    if "request" not in obj:
        print("replay names a broken obligation, re-running the full check")
        return rerun(ctx)
    hb = C.build_harness("root", pkg="./cmd/c03", out="%s/h_root_cmd_c03_%s" % (C.BIN, prop))
    req = obj["request"]
    kind = req[0]
    if obj.get("oracle") == "sequence" and obj.get("sequence"):
        sq = obj["sequence"]
        args = ["seq", "1" if sq["via_readmsg"] else "0"]
        for k, p in sq["calls"]:
            args += [k, p]
        rc, out = C.sh([hb, "one"] + args, env=ctx.env())
        bad = False
        for l in out.splitlines():
            f = l.split("\t")
            if len(f) == 5 and f[0] == "step":
                print("call %s: returned %s; re-read after the sequence %s; %s" % (f[1], short(f[2], 60), short(f[3], 60), f[4]))
                if f[4].startswith("bad") or f[2] == "P":
                    bad = True
        if bad:
            print("VIOLATION property=%s replay=%s" % (prop, path))
            return 1
        return 0
    if kind == "open":
        args = ["open", req[3], req[4]]
    elif kind == "seal":
        args = ["seal"] + req[2:]
    elif kind == "udes":
        args = ["udes", req[2]]
    elif kind == "user":
        args = ["user", req[2], req[3]]
    elif kind == "disp":
        args = ["disp", req[2], req[3]]
    elif kind == "spkt":
        args = ["spkt"] + req[2:]
    elif kind == "isenc":
        args = ["isenc", req[2]]
    else:
        print("replay kind %s compares two reference artefacts; re-running the full check" % kind)
        return rerun(ctx)
    rc, out = C.sh([hb, "one"] + args, env=ctx.env())
    lines = [l for l in out.splitlines() if l.strip()]
    got = lines[0].split("\t")[0] if lines else "?"
    detail = lines[0] if lines else ""
    oracle = obj.get("oracle")
    exp = obj.get("expected")
    bad = False
    if got.startswith("P"):
        bad = True
    elif oracle == "must_refuse":
        bad = got != "E"
    elif oracle == "equals":
        bad = exp is not None and got != exp
    elif oracle == "direct":
        if kind == "seal":
            srv = [l for l in lines if l.startswith("server\t")]
            bad = not srv or srv[0].split("\t")[1] != expected_server_fields(req)
            if not bad and len(srv[0].split("\t")) > 2:
                bad = int(srv[0].split("\t")[2].split("=")[1]) > 15
        else:
            bad = exp is not None and got != exp
    print("entry=%s oracle=%s expected=%s got=%s" % (obj.get("entry"), oracle, short(str(exp), 80), short(detail, 120)))
    if bad:
        print("VIOLATION property=%s replay=%s" % (prop, path))
        return 1
    return 0
