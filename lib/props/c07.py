"""C07 - Key exchange aborts on any inconsistent server reply and persists nothing.

Obligations: the theorems of coq/theories/Props/C07.v (C07_success_implies_consistent, C07_abort_is_clean,
C07_success_effects, C07_no_panic for an ARBITRARY server environment, and the computed single-fault examples).
Tie: one fault per otherwise conformant exchange, injected by harness/root/hsserver into one reply field (or the
constructor); the real client must return an error - never panic, never hang (watchdog; each batch runs in a child
process so that a dying read loop is an observation) -, the session store must stay empty and no encrypted frame may
reach the server.  The extracted Coq client model runs on the recorded replies; verdict and every plain message are
compared."""
from . import handshake_common as HC

PROPS = "theories/Props/C07.v"
RULE = ("single-fault scripts: every reply field of resPQ (nonce, server_nonce, pq, fingerprints), server_DH_params_ok (nonce, server_nonce, "
        "encrypted_answer: ciphertext, SHA-1 prefix, padding length, total length), server_DH_inner_data (nonce, server_nonce, g, dh_prime, g_a, "
        "server_time; re-encrypted consistently) and dh_gen_ok (nonce, server_nonce, new_nonce_hash1) x {bit flip at sampled positions (all positions "
        "in thorough, long fields capped at 256..400), fresh random, the other nonce, zero} x alternative constructors (server_DH_params_fail, "
        "dh_gen_retry, dh_gen_fail, resPQ / dh_gen_ok / pong out of place; dh_gen_retry / dh_gen_fail carrying the VALID new_nonce_hash1 and dh_gen_ok carrying "
        "hash2 / hash3), no matching fingerprint, an empty fingerprint list; answers that cannot be read at all, at each of the three steps: an unregistered "
        "constructor id, a truncated body, an empty body, the 4-byte transport error frame -404, the connection closed; pq forced to a prime (2, 3, 2^31-1, "
        "2^64-59, a random 40-bit one), 0, 1, the empty string, 68 bits, p^2, 4, 3*5*7. After every abandoned exchange one request is made on the same "
        "client and the wire and the client state are observed. Fields the client "
        "cannot check (server_nonce and pq of resPQ, server_time) are altered consistently (the server goes along): there the expectation is "
        "'no panic, no hang, and success only with equal secrets'. distinct non-trivial = distinct (field, corruption kind, position / constructor)")
NOTE = "quick: ~400 scripts (the single-fault table repeated over different base exchanges with fresh positions); 4 conformant controls"


def run(ctx):
    return HC.run(ctx, "C07", PROPS, RULE, NOTE)


def replay(ctx, path):
    r = HC.replay(ctx, "C07", path)
    return run(ctx) if r is None else r
