"""C20 - deeplinks.Resolve: total, username/invite characterisation."""
import json
import os
import subprocess

from .. import common as C

PROPS = ["theories/Props/C20.v", "theories/Inst/C20i.v"]


def unhex(h):
    return b"" if h in ("-", "") else bytes.fromhex(h)


def write_hosts(hosts_hex):
    body = ["(* generated from deeplinks.ReservedHosts() of the current tree - do not edit *)",
            "From Coq Require Import NArith List.", "Import ListNotations.", "Open Scope N_scope.",
            "Definition shipped_hosts : list (list N) := ["]
    items = []
    for h in hosts_hex:
        items.append("  [" + "; ".join(str(b) for b in unhex(h)) + "]")
    body.append(";\n".join(items))
    body.append("].")
    txt = "\n".join(body) + "\n"
    p = C.COQ + "/gen/Hosts.v"
    os.makedirs(C.COQ + "/gen", exist_ok=True)
    if not os.path.exists(p) or open(p).read() != txt:
        with open(p, "w") as f:
            f.write(txt)
    C.want_gen(p, txt)


def show(h):
    return unhex(h).decode("utf-8", "backslashreplace")


def run(ctx):
    hb = C.build_harness("deeplinks")
    cases = ctx.work + "/cases.txt"
    rc, out = C.sh([hb, "gen", ctx.tier, cases], env=ctx.env(), timeout=1800)
    if rc != 0:
        raise C.BuildError("harness gen failed: " + out[-2000:])
    stats = {}
    for l in out.splitlines():
        f = l.split("\t")
        if len(f) == 3 and f[0] == "stat":
            stats[f[1]] = int(f[2])
    rows = C.read_tsv(cases)
    hosts = rows[0][1:]
    write_hosts(hosts)
    # the list read again after a caller wrote into the slice ReservedHosts() had returned (the cases below run after that write)
    after = [r for r in rows if r and r[0].startswith("#hosts-after")]
    rows = [r for r in rows if not (r and r[0].startswith("#hosts-after"))]
    if after and after[0][1:] != hosts:
        C.violation(ctx, "hosts:caller-write",
                    "a caller that writes into the slice returned by deeplinks.ReservedHosts() changes the reserved hosts of the process: "
                    "%s became %s (Resolve then refuses Telegram's own hosts or accepts foreign ones)"
                    % ([show(h) for h in hosts], [show(h) for h in after[0][1:]]),
                    {"history": ["h := deeplinks.ReservedHosts()", "h[i] = \"mirror-\" + h[i] + \".example.org\"; swap first/last; append(h[:0], \"evil.example.org\")",
                                 "deeplinks.ReservedHosts()"],
                     "expected": [show(h) for h in hosts], "got": [show(h) for h in after[0][1:]]})

    pr = C.coq_props(PROPS)
    C.coq_obligation_violations(ctx, pr, "C20")

    C.build_model("C20")
    mraw = ctx.work + "/model_raw.txt"
    C.run_model("C20", cases, mraw)
    with open(mraw, "rb") as fin:
        p = subprocess.run([hb, "normalize"], stdin=fin, stdout=subprocess.PIPE, timeout=600)
    model = {}
    for l in p.stdout.decode().splitlines():
        f = l.split("\t")
        model[f[0]] = f[1]

    evals = 0
    nontrivial = set()
    disagreements = 0
    samples = []
    for r in rows[1:]:
        cid, link, parse, sc, host, path, impl, expect = r
        evals += 1
        s_link = show(link)
        if impl.startswith("P"):
            C.violation(ctx, "input:" + link, "Resolve(%r) panics: %s" % (s_link, show(impl[2:])),
                        {"link_hex": link, "link": s_link, "expected": "error or link", "got": "panic " + show(impl[2:])})
            continue
        if parse != "ok":
            if impl != "E":
                C.violation(ctx, "input:" + link, "url.Parse fails on %r but Resolve returned %s" % (s_link, impl),
                            {"link_hex": link, "link": s_link, "expected": "E", "got": impl})
            continue
        nontrivial.add((sc, host, path))
        if expect not in ("?",):
            ok = (impl == "E") if expect == "E!" else (impl == expect)
            if not ok:
                C.violation(ctx, "input:" + link,
                            "Resolve(%r): documented shape expects %s, implementation gives %s" % (s_link, expect, impl),
                            {"link_hex": link, "link": s_link, "expected": expect, "got": impl, "oracle": "direct"})
                continue
        m = model.get(cid)
        if m != impl:
            disagreements += 1
            C.violation(ctx, "input:" + link,
                        "Resolve(%r): model (proved characterisation) gives %s, implementation gives %s" % (s_link, m, impl),
                        {"link_hex": link, "link": s_link, "expected": m, "got": impl, "oracle": "model Misc/Deeplink.v resolve",
                         "url": {"scheme": show(sc), "host": show(host), "path": show(path)}})
        if len(samples) < 6 and impl[0] in "UI" and evals % 97 == 0:
            samples.append({"link": s_link, "url.Parse": [show(sc), show(host), show(path)], "impl": impl[0] + ":" + show(impl[2:]), "model": m})
    if not samples:
        samples.append({"link": show(rows[1][1]), "impl": rows[1][6]})
    cov = C.proof_coverage(
        pr, "make -f Makefile.coq theories/Props/C20.vo theories/Inst/C20i.vo (coqc 8.16.1) in /verif/coq",
        ["url.Parse output taken as oracle per case (standard library); URL.Hostname port stripping re-implemented in the model and compared",
         "strings.ToLower is a Section variable of the theorems; the harness applies Go's own ToLower to the model's raw username",
         "gen/Hosts.v regenerated from deeplinks.ReservedHosts() each run; Inst/C20i.v proves it equals the five Telegram hosts of the property text"],
        {"evaluations": evals, "distinct_nontrivial": len(nontrivial),
         "rule": "links = corpus + product {schemes}x{reserved, look-alike, empty hosts}x{ports}x{paths of 0..3 segments}x{query/fragment} + random strings over a URL-metacharacter alphabet; "
                 "non-trivial = distinct (scheme,host,path) records on which url.Parse succeeded; each is run through deeplinks.Resolve and through the extracted Coq resolve in both map orders",
         "samples": samples, "input_distribution": stats, "disagreements_checked": disagreements,
         "projection": "result class (username/invite/error/panic) and the username or token bytes; error texts not compared"})
    return C.finish(ctx, "proof", cov, [
        "url.Parse behaves as the Go standard library does (its output is recorded, not modelled)",
        "strings.ToLower arbitrary function in the theorems"])


def replay(ctx, path):
    obj = json.load(open(path))
    hb = C.build_harness("deeplinks")
    if "link_hex" not in obj:
        print("replay names a broken obligation, re-running the full check")
        return run(ctx)
    rc, out = C.sh([hb, "one", obj["link_hex"]], env=ctx.env())
    got = out.strip()
    print("link=%r expected=%s got=%s" % (obj.get("link"), obj.get("expected"), got))
    bad = got.startswith("P") or (obj.get("expected") not in (None, "E!", "error or link") and got != obj.get("expected")) \
        or (obj.get("expected") == "E!" and got != "E")
    if bad:
        print("VIOLATION property=C20 replay=%s" % path)
        return 1
    return 0


def pregen(ctx):
    hb = C.build_harness("deeplinks")
    cases = ctx.work + "/pregen.txt"
    C.sh([hb, "hosts", cases])
    write_hosts(C.read_tsv(cases)[0][1:])
