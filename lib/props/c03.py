"""C03 - encrypted message envelope follows the MTProto 1.0 layout and key schedule."""
from .. import common as C
from . import envelope_common as E


def run(ctx):
    pr, corr = E.run(ctx, "C03")
    corr.update({
        "rule": "keys of 128, 135, 136, 137, 200, 255, 257, 300 bytes (seal from 128, open from 136; below: refused) and Serialize with 0/1/127-byte keys (panics exactly as the model's "
                "seal_client says - outside the property); model-compared bodies up to 65519 (thorough: 65520, 65536, 70000); isPacketEncrypted on ids with 0..8 leading zero bytes and "
                "single non-zero bytes at each position; ReadMsg in intermediate and abridged mode (incl. the 0x7f length form); then: cases = {random, all-zero, all-ff, leading-zero 256-byte keys} x body lengths {0..48 all, 0..300 sampled (thorough: all), "
                "1024-17..1024+17, 65536-17..65536+17 (every residue mod 16)} x {client->server with ack on/off, server->client with random "
                "0..15 padding bytes and server/client msg_id parity}; plus serializePacket, Unencrypted.Serialize/Deserialize (intact and damaged), "
                "isPacketEncrypted, the real transport.ReadMsg over a loopback connection (harness = server), and msg_ids over the whole int64 range "
                "({0, 2^63, -1, 2^63-1, realistic and random upper halves with bit 63 clear/set} x low bits 00/01/10/11: opened iff 01/11) through "
                "DeserializeEncrypted, DeserializeUnencrypted and ReadMsg; sequences of 7 valid server packets in one process (smaller, equal, other key, larger, ...) "
                "with every returned message object and input buffer kept and re-read after each later call. Each sealed packet is (a) compared byte for byte with the extracted Coq seal_client, "
                "(b) opened by an independent Go reference server written from the spec (crypto/aes + crypto/sha1): fields, padding < 16, key id / msg_key offsets; "
                "each reference-server packet is opened by DeserializeEncrypted and by the extracted open_client; the Coq spec side (open_server / seal_server) "
                "is compared with the Go reference on a third of the cases. Bodies of ~2^16 bytes run on the implementation + reference only (quick tier). "
                "non-trivial = distinct requests that seal a packet or whose packet carries the right key id (so key schedule, IGE and msg_key are exercised)",
        "projection": "result class (ok/error/panic); on ok the produced bytes or the recovered fields (salt, session id, msg_id, seq_no, body, msg_key) "
                      "as little-endian bit patterns; error texts not compared",
    })
    cov = C.proof_coverage(
        pr, "make -f Makefile.coq theories/Props/C03.vo (coqc 8.16.1) in /verif/coq",
        ["crypto/sha1 and AES-256-IGE are Section variables of the theorems: SHA-1 only through 'output is 20 bytes'; IGE only through "
         "'encryption keeps the length of block-aligned data' and 'decryption inverts encryption on block-aligned data under a 32-byte key and 32-byte IV' "
         "(derived in Crypto/EnvelopeIge.v from 'the AES block decryption inverts the block encryption' for the textbook IGE of Crypto/Ige.v)",
         "for execution the variables are instantiated with the Gallina SHA-1 / AES-256 of Prim (FIPS-180 / FIPS-197 known answers as Examples) - "
         "validated further by this byte-for-byte comparison with crypto/sha1 + crypto/aes",
         "'a conformant server' = open_server / seal_server written in Coq from the MTProto 1.0 description, cross-checked on every run against an "
         "independent Go implementation inside the harness; not an external server",
         "the server->client key schedule (x = 8) has no author-independent test vector (none in the MTProto 1.0 description, none in the repository's tests; the repository's pinned packet, "
         "reproduced as Example C03_repo_test_vector, exercises x = 0 only): x = 8 rests on the Coq transcription of the description, C03_key_schedule and the harness' own reference",
         "transport.ReadMsg is driven through the exported NewTransport over loopback TCP, intermediate and abridged mode, one frame in flight",
         "verif hooks (build tag verif): messages.VerifSerializePacket, transport.VerifIsPacketEncrypted"],
        corr)
    return C.finish(ctx, "proof", cov, [
        "SHA-1 returns 20 bytes; AES-256 block decryption inverts block encryption (Section hypotheses, standard library)",
        "session parameters (auth key, salt, session id, seq_no) are whatever MessageInformator returns: all values quantified",
        "seq_no / msg_id generation and ordering are properties C10/C09, not this one"])


def replay(ctx, path):
    return E.replay(ctx, path, "C03", run)
