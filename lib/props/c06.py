"""C06 - Key exchange with any conformant server ends in a shared auth key and salt.

Obligations: the theorems of coq/theories/Props/C06.v (C06_agreement for all draws and all conformant servers,
C06_splitpq_partial, C06_agreement_inst, the computed example run).
Tie: the real client (CreateConnection -> makeAuthKey) runs against the independent in-process server
harness/root/hsserver with scripted crypto/rand draws; the extracted Coq client AND Coq server models run on the same
draws and parameters; every plain message, both sides' key / key id / salt, the session store and the first encrypted
packet are compared.  The direct oracle (success, equal secrets on both sides, session stored, first encrypted request
readable by the server) classifies each case on the real code, so a defect is reported with its scripted exchange."""
from . import handshake_common as HC

PROPS = ["theories/Props/C06.v", "theories/Props/ComposeSession.v"]   # (the second: C06 + C03 + C08 + C02 + C01 composed)
RULE = ("conformant exchanges: the 24 forced corners {nonce, server_nonce, new_nonce, new_nonce_hash1, RSA ciphertext, g_a, g_b, g^ab} x "
        "{0, 1, 2 leading zero bytes} (searched on math/big by stepping the secret exponent / redrawing new_nonce); corners on DERIVED quantities and "
        "range ends: new_nonce[0:k] == server_nonce[0:k] for k = 1, 2, 3, 7, 8 (the salt xor with k leading zero bytes, incl. salt = 0), equal last byte, "
        "both nonces starting with 00; pq = products of two primes just below 2^32 with 2^63 < pq < 2^64 (3037000493 x 3037000507, 4294967279 x 4294967291, "
        "the prime pairs around 2^31.5 on either side, 2 x / 3 x / ~2^31 x the largest prime below 2^32: 8 bytes, high bit set); nonce / new_nonce / "
        "server_nonce = 0 and all-ff, server_nonce = nonce, b = 1 and b = 2^2048-1, g_a = 2 (edge of the range check), fingerprints with the sign bit set; "
        "pq sent with 1..4 leading zero bytes; dh_prime / g_a sent 256 / 257 / 261 bytes wide so that every aligning padding length 0, 4, 8, 12 occurs; after "
        "every successful exchange one ordinary request (ping) is made and answered by the server (rpc_result{pong}) so that the state after success is observed; "
        "plus random exchanges: "
        "pq of 5..64 bits (two primes below 2^32), three RSA-2048 keys, g in 2..7, the 2048-bit group, 0..3 foreign fingerprints around the real one, "
        "g_a sent minimal or 256 bytes wide, dh_prime with a leading zero byte, every aligning padding length; thorough: 8 x the corners + 600 random. "
        "distinct non-trivial = distinct corner, or distinct (pq byte length, g, RSA key, g_a width) of a random exchange")
NOTE = "quick: 24 field corners + 28 derived / range corners + 30 random exchanges; all draws scripted through crypto/rand.Reader; SplitPQ's own math/rand stream is not controlled"


def run(ctx):
    return HC.run(ctx, "C06", PROPS, RULE, NOTE)


def replay(ctx, path):
    r = HC.replay(ctx, "C06", path)
    return run(ctx) if r is None else r
