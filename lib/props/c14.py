"""C14 - tlparser / tlgen: the schema parser and code generator translate any schema of the
documented subset faithfully and reproducibly.

Obligations: theorems of coq/theories/Props/C14.v and coq/theories/Inst/C14i.v (the latter on the
shipped schema text re-embedded into coq/gen/SchemaTextC14.v on every run).
Tie to the code:
  (1) tlparser.ParseSchema and the cursor methods (built from the tree) vs the extracted
      TLGen/Parser.v on shipped schemas, fixtures, random schemas of the subset, malformed input;
  (2) createInternalSchema (verif export) vs TLGen/Classify.v;
  (2b) in process: one parsed *tlparser.Schema generated from three times (Generate twice on one
      Generator, then a second Generator), outputs byte-compared, the schema deep-compared with a fresh parse;
  (3) the tlgen BINARY built from the tree: output compiled in a scratch module together with a
      stub Client, reflected, and compared with the descriptors of TLGen/Classify.v; generated
      twice and byte-compared.
"""
import binascii
import hashlib
import json
import os
import re
import shutil
import subprocess
import tempfile
import time

from .. import common as C

PROPS = ["theories/Props/C14.v", "theories/Inst/C14i.v"]
SHIPPED_INPUT = "api_121.tl"        # schemes/api_latest.tl, the input named by telegram/generate.go
HERE = C.V + "/harness/tlgen"


def unhex(h):
    return b"" if h in ("-", "") else bytes.fromhex(h)


def txt(h):
    return unhex(h).decode("utf-8", "backslashreplace")


# ---------------------------------------------------------------------------------------------
# coq/gen/SchemaTextC14.v : the shipped schema, verbatim, one Coq string per line

def coq_string(b):
    # Coq string literals: only the double quote is special (doubled); bytes are kept as they are
    return '"' + b.decode("latin-1").replace('"', '""') + '"'


def write_schema_text(repo):
    path = "%s/schemes/%s" % (repo, SHIPPED_INPUT)
    data = open(path, "rb").read()
    lines = data.split(b"\n")
    body = ["(* generated verbatim from schemes/%s of the current tree - do not edit *)" % SHIPPED_INPUT,
            "From Coq Require Import String List.", "Import ListNotations.", "Open Scope string_scope.",
            "(* the file is the lines joined by a newline character *)",
            "Definition shipped_lines : list string := ["]
    body.append(";\n".join(coq_string(l) for l in lines))
    body.append("].")
    out = "\n".join(body) + "\n"
    p = C.COQ + "/gen/SchemaTextC14.v"
    os.makedirs(C.COQ + "/gen", exist_ok=True)
    # Coq source files are read as UTF-8 by the lexer but string literals are byte sequences:
    # write the bytes through latin-1 so that every byte of the schema arrives unchanged
    raw = out.encode("latin-1")
    if not os.path.exists(p) or open(p, "rb").read() != raw:
        with open(p, "wb") as f:
            f.write(raw)
    C.want_gen(p, raw)
    return hashlib.sha256(data).hexdigest(), len(data)


# ---------------------------------------------------------------------------------------------

def build_tlgen():
    out = C.BIN + "/tlgen_C14"
    with C.Lock("go-tlgenbin"):
        rc, o = C.sh(["go", "build", "-o", out, "."], cwd=C.REPO + "/internal/cmd/tlgen", timeout=900)
    if rc != 0:
        raise C.BuildError("go build of internal/cmd/tlgen failed:\n" + o[-3000:])
    return out


def run_model(cases, out):
    with open(cases, "rb") as fin, open(out, "wb") as fout:
        p = subprocess.run("ulimit -s unlimited 2>/dev/null || ulimit -s 1000000; exec %s/model_C14" % C.BIN, shell=True,
                           stdin=fin, stdout=fout, stderr=subprocess.PIPE, timeout=3000)
    if p.returncode != 0:
        raise C.BuildError("model driver for C14 failed: " + p.stderr.decode()[-2000:])


def load(path):
    """group the lines of impl.txt / model.txt by case id"""
    by = {}
    tables = {}
    for r in C.read_tsv(path):
        if r[0] == "U":
            tables[r[1]] = r[2]
            continue
        if r[0] in ("V",):
            tables["version"] = r[1]
            continue
        by.setdefault(r[1], []).append(r)
    return by, tables


def parse_proj(rows):
    """projection of a ParseSchema result: class + defs"""
    cls = None
    defs = []
    for r in rows:
        if r[0] == "P":
            cls = r[2]
        elif r[0] == "D":
            defs.append(tuple(r[2:]))
    return cls, defs


def show_def(d):
    k, name, crc, typ, vec, ps = d
    out = "%s %s#%x" % (k, txt(name), int(crc))
    if ps != "-":
        for p in ps.split(";"):
            n, t, v, o, b = p.split(":")
            out += " %s:%s%s%s" % (txt(n), ("flags.%s?" % b) if o == "1" else "", "Vector<%s>" % txt(t) if v == "1" else txt(t), "")
    return out + " = " + ("Vector<%s>" % txt(typ) if vec == "1" else txt(typ))


# ---------------------------------------------------------------------------------------------
# the generator's input as `go generate` names it

def path_stage(ctx, tlgen):
    """telegram/generate.go runs `tlgen ../schemes/api_latest.tl .` from telegram/: the shipped input is reached through a
    relative path and, in this repository, through a symbolic link.  The tool must accept its input under every name the
    file system gives it - the regular file, a relative path with `..`, a symlink to it (relative and absolute target, a
    chain of two), a path through a symlinked directory - and generate byte-identical files each time."""
    import shutil
    scratch = ctx.work + "/paths"
    shutil.rmtree(scratch, ignore_errors=True)
    os.makedirs(scratch + "/schemes")
    os.makedirs(scratch + "/telegram")
    real = C.REPO + "/schemes/" + SHIPPED_INPUT
    shutil.copy(real, scratch + "/schemes/" + SHIPPED_INPUT)
    os.symlink("./" + SHIPPED_INPUT, scratch + "/schemes/api_latest.tl")               # as shipped: relative target
    os.symlink(scratch + "/schemes/" + SHIPPED_INPUT, scratch + "/schemes/abs_link.tl")  # absolute target
    os.symlink("api_latest.tl", scratch + "/schemes/chain.tl")                           # link to a link
    os.symlink(scratch + "/schemes", scratch + "/dirlink")                               # directory reached through a link
    forms = [("regular-file", scratch + "/telegram", "../schemes/" + SHIPPED_INPUT),
             ("as-go-generate(symlink,relative)", scratch + "/telegram", "../schemes/api_latest.tl"),
             ("symlink-absolute-target", scratch, scratch + "/schemes/abs_link.tl"),
             ("symlink-chain", scratch + "/telegram", "../schemes/chain.tl"),
             ("through-symlinked-directory", scratch, "dirlink/" + SHIPPED_INPUT),
             ("dot-segments", scratch + "/telegram", "./../telegram/../schemes/./" + SHIPPED_INPUT)]
    shipped_link = C.REPO + "/schemes/api_latest.tl"
    if os.path.lexists(shipped_link):
        forms.append(("the-tree's-own-schemes/api_latest.tl", C.REPO + "/telegram", "../schemes/api_latest.tl"))
    ref = None
    st = {"forms": [f[0] for f in forms], "identical": 0}
    for i, (name, cwd, arg) in enumerate(forms):
        d = "%s/out%d" % (scratch, i)
        os.makedirs(d)
        rc, o = C.sh([tlgen, arg, d], cwd=cwd, timeout=300)
        files = sorted(os.listdir(d))
        rep = {"kind": "input-path", "form": name, "cwd": cwd.replace(scratch, "<scratch>"), "argument": arg.replace(scratch, "<scratch>"),
               "how": "in a scratch directory holding schemes/%s and the links named by the form, run `tlgen <argument> <outdir>` from <cwd>" % SHIPPED_INPUT}
        if rc != 0 or len(files) != 5:
            C.violation(ctx, "input-path:rejected:" + name,
                        "tlgen does not generate from its shipped input when it is named as %s (`tlgen %s` from %s): rc=%d %s"
                        % (name, rep["argument"], rep["cwd"], rc, o.strip()[-300:]), dict(rep, expected="5 generated files", got=o.strip()[-600:]))
            continue
        cur = {n: open(d + "/" + n, "rb").read() for n in files}
        if ref is None:
            ref = cur
        if cur == ref:
            st["identical"] += 1
        else:
            C.violation(ctx, "input-path:different-output:" + name,
                        "tlgen generates other files from the same schema when it is named as %s" % name,
                        dict(rep, expected="byte-identical files", got=[n for n in files if cur.get(n) != ref.get(n)]))
    shutil.rmtree(scratch, ignore_errors=True)
    return st


def regen_stage(ctx, tlgen):
    """The generated package is a function of the schema the tool is GIVEN, not of what its output directory held
    before or of file dates: `go generate` is run again whenever the schema line of telegram/generate.go is switched
    to another layer, in a directory that holds the previous layer's code.  Two shipped layers A and B: B into a
    directory that holds A's code (B's file older than that code - a checkout of long ago), A again afterwards, B over
    files of the same names holding garbage; each time the five files must be exactly those a fresh directory gets."""
    import shutil
    import time
    scratch = ctx.work + "/regen"
    shutil.rmtree(scratch, ignore_errors=True)
    os.makedirs(scratch)
    names = [SHIPPED_INPUT] + [n for n in ("api_117.tl", "api_113.tl", "e2e_121.tl") if os.path.exists(C.REPO + "/schemes/" + n)][:1]
    st = {"layers": names, "regenerations": 0, "identical": 0}
    if len(names) < 2:
        return st
    long_ago = time.time() - 3600 * 24 * 30
    refs = {}
    for n in names:
        shutil.copy(C.REPO + "/schemes/" + n, scratch + "/" + n)
        os.utime(scratch + "/" + n, (long_ago, long_ago))
        d = scratch + "/fresh-" + n
        os.makedirs(d)
        rc, o = C.sh([tlgen, scratch + "/" + n, d], cwd=scratch, timeout=300)
        if rc != 0:
            raise C.BuildError("tlgen refuses the shipped schema %s: %s" % (n, o[-500:]))
        refs[n] = {f: open(d + "/" + f, "rb").read() for f in sorted(os.listdir(d))}
    a, b = names
    d = scratch + "/reused"
    os.makedirs(d)
    steps = [("first generation", a), ("another layer into the directory that holds the first one's code", b),
             ("back to the first layer", a), ("the same layer twice", a)]
    for what, n in steps + [("over files of the same names that hold something else", b)]:
        if what.startswith("over files"):
            for f in refs[b]:
                with open(d + "/" + f, "w") as fh:
                    fh.write("package telegram\n// left by an interrupted run\n")
            future = time.time() + 3600
            for f in refs[b]:
                os.utime(d + "/" + f, (future, future))
        rc, o = C.sh([tlgen, scratch + "/" + n, d], cwd=scratch, timeout=300)
        st["regenerations"] += 1
        cur = {f: open(d + "/" + f, "rb").read() for f in sorted(os.listdir(d))}
        rep = {"kind": "regeneration", "step": what, "schema": n, "previous_content": "see 'step'",
               "how": "tlgen %s <dir> where <dir> already holds generated files (schema files dated a month back), compared with tlgen %s <empty dir>" % (n, n)}
        if rc == 0 and cur == refs[n]:
            st["identical"] += 1
        else:
            C.violation(ctx, "regeneration:stale-or-different-output:" + what.split(" ")[0],
                        "tlgen %s into a directory that already holds generated code (%s) does not leave the files a fresh directory gets: rc=%d, differing: %s"
                        % (n, what, rc, [f for f in sorted(set(cur) | set(refs[n])) if cur.get(f) != refs[n].get(f)]),
                        dict(rep, expected="the files of a fresh generation from " + n, got=(o.strip()[-300:] or "other file contents")))
    shutil.rmtree(scratch, ignore_errors=True)
    return st


# ---------------------------------------------------------------------------------------------
# compile + reflect stage

STUB = """package telegram

import "github.com/xelaj/mtproto/internal/encoding/tl"

// stub of the hand-written part of package telegram the generated code leans on: the request function
// records what it is handed and answers with what the reflection program chose
type Client struct {
	VerifLast   tl.Object
	VerifAnswer interface{}
	VerifErr    error
}

func (c *Client) MakeRequest(msg tl.Object) (interface{}, error) {
	c.VerifLast = msg
	return c.VerifAnswer, c.VerifErr
}
"""


def go_str_hex(s):
    return binascii.hexlify(s.encode()).decode() or "-"


def compile_stage(ctx, tlgen, todo, texts, model, meta):
    """todo: case ids. Returns stats; records violations."""
    st = {"schemas_run": 0, "generated": 0, "generated_twice_identical": 0, "compiled": 0, "reflected_equal": 0,
          "outside_subset": 0, "outside_subset_which": [], "structs_compared": 0, "fields_compared": 0, "enum_values_compared": 0, "methods_compared": 0, "methods_executed": 0}
    scratch = tempfile.mkdtemp(prefix="c14-scratch-", dir="/tmp")
    try:
        with open(scratch + "/go.mod", "w") as f:
            f.write("module github.com/xelaj/mtproto/verifscratch\n\ngo 1.21\n\nrequire github.com/xelaj/mtproto v0.0.0\n\n"
                    "replace github.com/xelaj/mtproto => %s\n" % C.REPO)
        shutil.copy(C.REPO + "/go.sum", scratch + "/go.sum")
        tmpl = open(HERE + "/reflect/main.go.tmpl").read()
        gen_ok = []
        subsets = {}
        for cid in todo:
            st["schemas_run"] += 1
            label = meta[cid][1] or cid
            subset = model_subset(model.get(cid, []))
            subsets[cid] = subset
            mcls, _ = parse_proj(model.get(cid, []))
            src = "%s/in_%s.tl" % (scratch, cid)
            with open(src, "wb") as f:
                f.write(texts[cid])
            outs = []
            fail = None
            for k in ("a", "b"):
                d = "%s/%s%s" % (scratch, k, cid)
                os.makedirs(d)
                rc, o = C.sh([tlgen, src, d], timeout=300)
                if rc != 0 or len(os.listdir(d)) != 5:
                    fail = o
                    break
                outs.append(d)
            in_subset = subset == ("1", "1", "1")
            key = "schema:" + (label if meta[cid][0] != "valid" else hashlib.sha1(texts[cid]).hexdigest()[:16])
            if fail is not None:
                if in_subset or (meta[cid][0] == "shipped" and label == SHIPPED_INPUT):
                    C.violation(ctx, key + ":rejected", "tlgen rejects %s, a schema of the documented subset: %s" % (label, fail.strip()[-300:]),
                                {"schema_text": texts[cid].decode("utf-8", "replace"), "expected": "5 generated files", "got": fail.strip()[-600:],
                                 "how": "write schema_text to a file and run `tlgen file outdir` built from internal/cmd/tlgen"})
                else:
                    st["outside_subset"] += 1
                    st["outside_subset_which"].append("%s %s" % (label, subset))
                continue
            st["generated"] += 1
            same = all(open("%s/%s" % (outs[0], n), "rb").read() == open("%s/%s" % (outs[1], n), "rb").read() for n in sorted(os.listdir(outs[0])))
            if same:
                st["generated_twice_identical"] += 1
            else:
                C.violation(ctx, key + ":nondeterministic", "tlgen run twice on %s writes different files" % label,
                            {"schema_text": texts[cid].decode("utf-8", "replace"), "expected": "byte-identical output", "got": "files differ"})
            shutil.rmtree(outs[1])
            pk = "%s/p%s" % (scratch, cid)
            os.rename(outs[0], pk)
            with open(pk + "/stub_verif.go", "w") as f:
                f.write(STUB)
            os.makedirs("%s/cmd/r%s" % (scratch, cid))
            with open("%s/cmd/r%s/main.go" % (scratch, cid), "w") as f:
                f.write(tmpl.replace("__PKG__", "github.com/xelaj/mtproto/verifscratch/p" + cid))
            gen_ok.append((cid, key, label, in_subset))
        if not gen_ok:
            return st
        # one compiler run over all generated packages; errors are attributed by package
        rc, o = C.sh(["go", "build", "-gcflags=-e", "-tags", "verif"] + ["./p%s" % c for c, _, _, _ in gen_ok], cwd=scratch, timeout=1500)
        errs = {}
        cur = None
        for line in o.splitlines():
            m = re.match(r"^# github.com/xelaj/mtproto/verifscratch/p(\S+)", line)
            if m:
                cur = m.group(1)
                continue
            if cur is not None:
                errs.setdefault(cur, []).append(line)
        if rc != 0 and not errs:
            raise C.BuildError("go build in the scratch module failed:\n" + o[-3000:])
        good = []
        for cid, key, label, in_subset in gen_ok:
            if cid in errs:
                if in_subset:
                    C.violation(ctx, key + ":does-not-compile", "the package tlgen generates from %s does not compile: %s" % (label, " | ".join(errs[cid][:4])),
                                {"schema_text": texts[cid].decode("utf-8", "replace"), "expected": "generated package compiles",
                                 "got": "\n".join(errs[cid][:30]),
                                 "how": "tlgen file outdir; add a stub `type Client struct{}` with MakeRequest(tl.Object) (interface{}, error); go build"})
                else:
                    st["outside_subset"] += 1
                    st["outside_subset_which"].append("%s %s" % (label, subsets.get(cid)))
                shutil.rmtree("%s/cmd/r%s" % (scratch, cid))
                continue
            st["compiled"] += 1
            good.append((cid, key, label, in_subset))
        if good:
            os.makedirs(scratch + "/bin")
            rc, o = C.sh(["go", "build", "-tags", "verif", "-o", scratch + "/bin/"] + ["./cmd/r%s" % c for c, _, _, _ in good], cwd=scratch, timeout=1500)
            if rc != 0:
                raise C.BuildError("go build of the reflection programs failed:\n" + o[-3000:])
        for cid, key, label, in_subset in good:
            rc, o = C.sh([scratch + "/bin/r" + cid], timeout=300)
            if rc != 0:
                if in_subset:
                    C.violation(ctx, key + ":init-panics", "the package generated from %s fails at start-up: %s" % (label, o.strip()[-300:]),
                                {"schema_text": texts[cid].decode("utf-8", "replace"), "expected": "registration succeeds", "got": o.strip()[-800:]})
                else:
                    st["outside_subset"] += 1
                    st["outside_subset_which"].append("%s %s" % (label, subsets.get(cid)))
                continue
            rrows = [l.split("\t") for l in o.splitlines() if l]
            got = reflect_proj(rrows)
            badcalls = call_status(rrows)
            if badcalls and in_subset:
                C.violation(ctx, key + ":method-body", "generated methods for %s misbehave when executed: %s" % (label, badcalls[:4]),
                            {"schema_text": texts[cid].decode("utf-8", "replace"), "expected": "answers of the declared kind come back unchanged, a failed request gives an error, a wrong-kind answer is refused",
                             "got": badcalls[:20], "expected_all": None, "oracle": "execution of the generated methods against a stub request function"})
                continue
            want, status = model_proj(model.get(cid, []))
            if status != "ok":
                if in_subset:
                    C.violation(ctx, key + ":model-status", "generator model gives %s on %s although the tool produced a package" % (status, label),
                                {"no_failing_input": True, "schema_text": texts[cid].decode("utf-8", "replace")})
                else:
                    st["outside_subset"] += 1
                    st["outside_subset_which"].append("%s %s" % (label, subsets.get(cid)))
                continue
            diff = sorted(want ^ got)
            if diff:
                if not in_subset:
                    st["outside_subset"] += 1
                    st["outside_subset_which"].append("%s %s" % (label, subsets.get(cid)))
                    continue
                w = [d for d in diff if d in want]
                g = [d for d in diff if d in got]
                # pair up the two views of the same method / field so that the message names the culprit
                gk = {(d[0], d[1]) if d[0] in ("call", "method") else (d[0], d[1], d[2]): d for d in g}
                w.sort(key=lambda d: 0 if ((d[0], d[1]) if d[0] in ("call", "method") else (d[0], d[1], d[2])) in gk else 1)
                g = [gk[k] for k in [((d[0], d[1]) if d[0] in ("call", "method") else (d[0], d[1], d[2])) for d in w] if k in gk] + [d for d in g if d not in [gk.get(((x[0], x[1]) if x[0] in ("call", "method") else (x[0], x[1], x[2]))) for x in w]]
                w, g = w[:6], g[:6]
                C.violation(ctx, key + ":layout", "generated package for %s declares something else than the schema says (Classify.v): expected %s got %s"
                            % (label, [show_item(x) for x in w], [show_item(x) for x in g]),
                            {"schema_text": texts[cid].decode("utf-8", "replace"), "expected": [show_item(x) for x in w], "got": [show_item(x) for x in g],
                             "expected_all": sorted(list(x) for x in want),
                             "oracle": "descriptors of TLGen/Classify.v (theorem C14_layout) vs reflection of the compiled package"})
                continue
            st["reflected_equal"] += 1
            for it in got:
                st[{"struct": "structs_compared", "field": "fields_compared", "enum": "enum_values_compared", "method": "methods_compared", "call": "methods_executed"}[it[0]]] += 1
    finally:
        shutil.rmtree(scratch, ignore_errors=True)
    return st


def show_item(x):
    k = x[0]
    if k == "struct":
        return "struct %s id=%x FlagIndex=%s implements=%s" % (txt(x[2]), int(x[1]), x[3], ",".join(txt(i) for i in x[4].split(",")) if x[4] != "-" else "-")
    if k == "field":
        return "field #%s of %x: %s %s `%s`" % (x[2], int(x[1]), txt(x[3]), txt(x[4]), x[5])
    if k == "enum":
        return "enum value %x of %s (%s)" % (int(x[1]), txt(x[2]), txt(x[3]))
    if k == "method":
        return "method %s(%s) %s" % (txt(x[1]), txt(x[2]), txt(x[3]))
    if k == "call":
        return "calling %s hands MakeRequest a %s (id %x) with argument>field %s" % (txt(x[1]), txt(x[2]), int(x[3]), x[4])
    return str(x)


def model_subset(rows):
    for r in rows:
        if r[0] == "E" and r[2] == "subset":
            return (r[3], r[4], r[5])
    return None


def model_proj(rows):
    items = set()
    status = "none"
    for r in rows:
        if r[0] != "E":
            continue
        if r[2] == "status":
            status = r[3] if r[3] != "ok" or r[4] == "order-independent" else "order-dependent"
        elif r[2] == "struct":
            items.add(("struct", r[3], r[4], r[5], r[6]))
        elif r[2] == "field":
            items.add(("field", r[3], r[4], r[5], r[6], r[7]))
        elif r[2] == "enum":
            items.add(("enum", r[3], r[4], r[5]))
        elif r[2] == "method":
            items.add(("method", r[3], r[4], r[5]))
        elif r[2] == "call":
            items.add(("call", r[3], r[4], r[5], r[6]))
    return items, status


def reflect_proj(rows):
    """descriptors + executed calls; the result status of a call is judged separately (call_status)"""
    items = set()
    for r in rows:
        if r[0] in ("struct", "field", "enum", "method"):
            items.add(tuple(r))
        elif r[0] == "call":
            items.add(tuple(r[:5]))
    return items


def call_status(rows):
    """methods whose execution went wrong: answers altered, error path, wrong-kind answer accepted"""
    bad = []
    for r in rows:
        if r[0] == "call":
            st = txt(r[5]) if len(r) > 5 else "?"
            if st not in ("ok:wrong-kind=panic", "ok:wrong-kind=error"):
                bad.append("%s: %s" % (txt(r[1]), st))
    return bad


# ---------------------------------------------------------------------------------------------

def run(ctx):
    t_start = time.time()
    hb = C.build_harness("tlgen", pkg="./cmd/c14")
    tlgen = build_tlgen()
    sha, size = write_schema_text(C.REPO)

    rc, out = C.sh([hb, "gen", ctx.tier, ctx.work, C.REPO], env=ctx.env(), timeout=1800)
    if rc != 0:
        raise C.BuildError("harness gen failed: " + out[-2000:])
    stats = {}
    for l in out.splitlines():
        f = l.split("\t")
        if len(f) == 3 and f[0] == "stat":
            stats[f[1]] = int(f[2])
    rc, out = C.sh([hb, "tables"], env=ctx.env(), timeout=300)
    go_tables = {}
    for l in out.splitlines():
        f = l.split("\t")
        if f[0] == "U":
            go_tables[f[1]] = f[2]
        elif f[0] == "V":
            go_tables["version"] = f[1]

    pr = C.coq_props(PROPS)
    C.coq_obligation_violations(ctx, pr, "C14")
    C.log("coq done %.1fs" % (time.time() - t_start))
    chk = None
    if ctx.tier == "thorough" and not pr["failed"]:
        with C.Lock("coq"):
            rc, o = C.sh(["coqchk", "-silent", "-o", "-Q", "theories", "MTV", "-Q", "gen", "MTVgen", "MTV.Props.C14", "MTV.Inst.C14i"],
                         cwd=C.COQ, timeout=3000)
        chk = "coqchk -silent -o MTV.Props.C14 MTV.Inst.C14i: rc=%d, %s" % (rc, "axioms: <none>" if "* Axioms: <none>" in o else o[-400:])
        if rc != 0 or "* Axioms: <none>" not in o:
            C.violation(ctx, "coq:coqchk", "coqchk does not accept the C14 development: " + o[-600:],
                        {"no_failing_input": True, "broken_obligation": "coqchk", "log": o[-2000:]})
        C.log("coqchk done %.1fs" % (time.time() - t_start))

    C.build_model("C14")
    cases = ctx.work + "/cases.txt"
    with open(cases, "a") as f:
        f.write("U\n")
    mraw = ctx.work + "/model.txt"
    run_model(cases, mraw)
    C.log("model done %.1fs" % (time.time() - t_start))
    model, mtables = load(mraw)
    impl, _ = load(ctx.work + "/impl.txt")

    # unicode tables of the model = those of the toolchain
    for k in ("space", "digit"):
        if mtables.get(k) != go_tables.get(k):
            C.violation(ctx, "unicode-table:" + k, "Parser.v is_%s differs from unicode.Is%s of the toolchain (Unicode %s)" % (k, k.capitalize(), go_tables.get("version")),
                        {"no_failing_input": True, "model": mtables.get(k), "go": go_tables.get(k)})

    texts = {}
    for r in C.read_tsv(cases):
        if r[0] == "S":
            texts[r[1]] = unhex(r[2])
        elif r[0] == "C":
            texts[r[1]] = unhex(r[2])

    meta = {}
    evals = 0
    nontrivial = set()
    disagreements = 0
    samples = []
    cursor_cases = 0
    classes = {}
    inproc_runs = {}
    timing_retries = []
    todo = []
    for cid, rows in impl.items():
        if cid.startswith("c"):
            cursor_cases += 1
            evals += 1
            got = rows[0][2] if len(rows[0]) > 2 else ""
            mrow = model.get(cid, [["C", cid, "<none>"]])[0]
            want = mrow[2] if len(mrow) > 2 else ""
            if got != want:
                disagreements += 1
                ops = [r for r in C.read_tsv(cases) if r[0] == "C" and r[1] == cid][0][3]
                C.violation(ctx, "cursor:" + hashlib.sha1(texts[cid] + ops.encode()).hexdigest()[:16],
                            "cursor methods %s on %r: model %s, implementation %s" % (ops, texts[cid], want, got),
                            {"no_failing_input": True, "text_hex": texts[cid].hex(), "ops": ops, "model": want, "implementation": got,
                             "broken": "correspondence Parser.v cursor vs tlparser.Cursor"})
            continue
        x = [r for r in rows if r[0] == "X"][0]
        kind, label, comp = x[2], txt(x[3]), x[4]
        meta[cid] = (kind, label)
        evals += 1
        icls, idefs = parse_proj(rows)
        mcls, mdefs = parse_proj(model.get(cid, []))
        classes[icls] = classes.get(icls, 0) + 1
        text = texts[cid]
        shown = text.decode("utf-8", "replace")
        key = "schema:" + (label if label else hashlib.sha1(text).hexdigest()[:16])
        replay = {"schema_text": shown, "schema_hex": text.hex(), "kind": kind}
        retried = False
        if icls == "hang":
            # confirm before reporting: the 5 s watchdog of the batch run can fire under machine load (or while an
            # earlier, really hanging case still spins); the case is run again alone with 60 s
            rf = "%s/retry_%s.tl" % (ctx.work, cid)
            with open(rf, "wb") as f:
                f.write(text)
            rc, o = C.sh([hb, "one", rf, "60"], env=ctx.env(), timeout=120)
            os.remove(rf)
            lines = [l.split("\t") for l in o.splitlines() if l]
            if rc == 0 and lines and lines[0][0] == "P" and lines[0][1] in ("ok", "err"):
                timing_retries.append({"case": cid, "schema": shown[:120], "batch_verdict": "hang", "alone": lines[0][1]})
                icls = lines[0][1]
                idefs = [tuple(l[2:]) for l in lines if l[0] == "D"]
                retried = True
        if icls == "panic" or icls == "hang":
            C.violation(ctx, key + ":" + icls, "ParseSchema %ss on %r: %s" % (icls, shown[:200], txt(([r for r in rows if r[0] == "P"][0] + ["-", "-"])[3])),
                        dict(replay, expected="a schema or an error", got=icls))
            continue
        if kind == "valid" and icls != "ok":
            C.violation(ctx, key + ":rejected", "ParseSchema rejects a schema of the documented subset: %s" % txt([r for r in rows if r[0] == "P"][0][3]),
                        dict(replay, expected="ok", got=icls))
            continue
        if kind == "shipped" and label == SHIPPED_INPUT and icls != "ok":
            C.violation(ctx, key + ":rejected", "ParseSchema rejects the shipped generator input schemes/%s: %s" % (label, txt([r for r in rows if r[0] == "P"][0][3])),
                        dict(replay, schema_text="<schemes/%s>" % label, schema_hex="", schema_file="schemes/" + label, expected="ok", got=icls))
            continue
        wdefs = [tuple(r[2:]) for r in rows if r[0] == "W"]
        if kind == "valid" and sorted(wdefs) != sorted(idefs) or (kind == "valid" and [d for d in wdefs if d[0] == "o"] != [d for d in idefs if d[0] == "o"]):
            first = next((d for d in idefs if d not in wdefs), None)
            miss = next((d for d in wdefs if d not in idefs), None)
            C.violation(ctx, key + ":wrong-parse",
                        "ParseSchema does not extract what the schema declares: got %s, declared %s" % (show_def(first) if first else None, show_def(miss) if miss else None),
                        dict(replay, expected=[show_def(d) for d in wdefs], got=[show_def(d) for d in idefs][:60], oracle="definitions the generator wrote"))
            continue
        if mcls != icls or mdefs != idefs:
            disagreements += 1
            first = next((i for i in range(max(len(mdefs), len(idefs))) if i >= len(mdefs) or i >= len(idefs) or mdefs[i] != idefs[i]), None)
            C.violation(ctx, key + ":parse-mismatch",
                        "ParseSchema and Parser.v disagree on %r: model %s (%d defs), implementation %s (%d defs)%s"
                        % (shown[:120], mcls, len(mdefs), icls, len(idefs),
                           "" if first is None else "; first difference: model %s / impl %s" % (show_def(mdefs[first]) if first < len(mdefs) else None, show_def(idefs[first]) if first < len(idefs) else None)),
                        dict(replay, no_failing_input=True, model=mcls, implementation=icls, broken="correspondence Parser.v vs tlparser.ParseSchema"))
            continue
        if retried:
            continue   # the batch run has no classification / generation lines for this case
        if icls == "ok":
            nontrivial.add(tuple(idefs))
            # run-time instance of C14_parse_print
            rt = [r for r in model[cid] if r[0] == "R"]
            if rt and rt[0][2] not in ("ok", "n/a"):
                C.violation(ctx, key + ":roundtrip", "model: parse (print s) %s for the parsed value of %r" % (rt[0][2], shown[:120]),
                            dict(replay, no_failing_input=True, broken="C14_parse_print instance"))
            # in-process generation from one parsed schema value
            ip = [txt(r[2]) for r in rows if r[0] == "I"]
            if ip:
                inproc_runs[ip[0].split(":")[0].split(" ")[0]] = inproc_runs.get(ip[0].split(":")[0].split(" ")[0], 0) + 1
                if ip[0] != "ok" and not ip[0].startswith("first:"):
                    C.violation(ctx, key + ":inprocess", "generating again from the same parsed schema %r...: %s" % (shown[:80], ip[0]),
                                dict(replay, expected="Generate twice on one Generator and a second NewGenerator+Generate from the same *tlparser.Schema "
                                                      "give byte-identical files and leave the schema unchanged", got=ip[0], oracle="in-process generation"))
            # classification
            ik = sorted(tuple(r[2:]) for r in rows if r[0] == "K")
            mk = sorted(tuple(r[3:]) for r in model[cid] if r[0] == "E" and r[2] == "class")
            if ik != mk:
                disagreements += 1
                C.violation(ctx, key + ":classify-mismatch", "createInternalSchema and Classify.v disagree on %r: model %s impl %s" % (shown[:120], mk[:4], ik[:4]),
                            dict(replay, no_failing_input=True, broken="correspondence Classify.v vs gen.createInternalSchema"))
            if kind == "valid":
                sub = model_subset(model[cid])
                if sub != ("1", "1", "1"):
                    C.violation(ctx, key + ":generator-outside-subset", "harness generator produced a schema the model's subset predicates reject %s" % (sub,),
                                dict(replay, no_failing_input=True, broken="harness generator vs wf_schema/wf_gen/names_ok"))
            if comp == "1":
                todo.append(cid)
            if len(samples) < 5 and kind == "valid" and evals % 41 == 0:
                samples.append({"schema": shown[:400], "parsed": [show_def(d) for d in idefs[:6]]})
    C.log("parser comparison done %.1fs; compiling %d schemas" % (time.time() - t_start, len(todo)))

    cst = compile_stage(ctx, tlgen, todo, texts, model, meta)
    C.log("compile stage done %.1fs" % (time.time() - t_start))
    cst["input_paths"] = path_stage(ctx, tlgen)
    cst["regeneration"] = regen_stage(ctx, tlgen)

    # report one violation per category first (the first five are printed)
    cats = {}
    for v in ctx.violations:
        cats.setdefault(v[0].rsplit(":", 1)[-1] if v[0].startswith("schema:") else v[0].split(":")[0], []).append(v)
    order = []
    while any(cats.values()):
        for k in sorted(cats):
            if cats[k]:
                order.append(cats[k].pop(0))
    ctx.violations[:] = order
    if order:
        ctx.notes.append("violations by category: %s" % {k: sum(1 for v in order if (v[0].rsplit(":", 1)[-1] if v[0].startswith("schema:") else v[0].split(":")[0]) == k) for k in sorted(cats)})
    if not samples:
        samples.append({"note": "no sample collected"})
    cov = C.proof_coverage(
        pr, "make -f Makefile.coq theories/Props/C14.vo theories/Inst/C14i.vo (coqc 8.16.1) in /verif/coq",
        ["gen/SchemaTextC14.v = schemes/%s copied verbatim (sha256 %s, %d bytes); Inst/C14i.v runs the parser model on it" % (SHIPPED_INPUT, sha, size),
         "goify (strcase-based name mangling) is a Section variable of the generator theorems; for execution it is an oracle table recorded per schema from gen.goify (verif export)",
         "sort.Slice / sort.Strings are Section variables (sorted permutation); executed as insertion sort",
         "unicode.IsSpace / unicode.IsDigit tables in Parser.v are compared with the toolchain's on all code points on every run",
         "'the generated package compiles' is established by compiling (go build in a scratch module with a stub Client), per schema",
         "reflection program harness/tlgen/reflect/main.go.tmpl and tl.VerifRegistry (verif export) read the compiled package"],
        {"evaluations": evals, "distinct_nontrivial": len(nontrivial),
         "rule": "schemas = every file under schemes/ + the three fixtures of the tlgen module + random schemas of the subset (enums, single- and multi-constructor types, "
                 "constructor/type name clashes, all primitives, flags on bits 0..31 incl. shared bits, flags word at any position, vectors, namespaces, @-annotation blocks with and without text, "
                 "plain comments, excluded definitions, repeated section markers, functions returning types/enums/Bool/vectors, awkward argument names) + edge tails + mutated schemas "
                 "(truncation, missing '=', bad hex id, stray pieces incl. invalid UTF-8 and non-ASCII digits) + all strings up to length %d over a 15-letter alphabet; "
                 "non-trivial = distinct parsed schema values on which ParseSchema succeeded; each text goes through tlparser.ParseSchema and the extracted Parser.v parse "
                 "(classes and every name/id/parameter/result compared), then createInternalSchema vs Classify.v; a subset is generated twice by the tlgen binary, compiled, reflected and compared with Classify.v's descriptors"
                 % (3 if ctx.tier == "thorough" else 2),
         "samples": samples, "input_distribution": stats, "coqchk": chk,
         "termination": "C14_parse_terminates: the parser model never exhausts its (linear) loop budget, for every byte string; "
                        "on the implementation side every ParseSchema call runs under a 5 s watchdog and a 'hang' is a violation with the input as replay", "result_classes": classes, "cursor_method_sequences": cursor_cases, "in_process_generation": inproc_runs, "timing_retries": timing_retries,
         "disagreements_checked": disagreements, "generator": cst,
         "projection": "result class ok/err/panic/hang; for ok every definition: section, name, id, result type, vector marker, parameters (name, type, vector, conditional, bit) in order; "
                       "classification per type name; per constructor of the compiled package: id, Go type name, fields in order with kind and tl tag, FlagIndex, Implements methods; "
                       "enum values with String(); *Client methods with argument and result kinds; error texts and comments are not compared"})
    return C.finish(ctx, "proof", cov, [
        "goify is an arbitrary function in the theorems (injectivity on the names of a schema is part of names_ok)",
        "sort.Slice and sort.Strings return a sorted permutation of their input",
        "Go's compiler decides 'compiles'; the correspondence is per schema run, the theorems are for all schemas"])


def replay(ctx, path):
    obj = json.load(open(path))
    hb = C.build_harness("tlgen", pkg="./cmd/c14")
    if obj.get("no_failing_input") or ("schema_text" not in obj and "schema_file" not in obj):
        print("replay names a broken obligation or correspondence, re-running the full check")
        return run(ctx)
    tlgen = build_tlgen()
    d = tempfile.mkdtemp(prefix="c14-replay-", dir="/tmp")
    try:
        src = d + "/in.tl"
        if obj.get("schema_file"):
            shutil.copy(C.REPO + "/" + obj["schema_file"], src)
        elif obj.get("schema_hex"):
            open(src, "wb").write(bytes.fromhex(obj["schema_hex"]))
        else:
            open(src, "w").write(obj["schema_text"])
        rc, o = C.sh([hb, "one", src], env=ctx.env())
        print("ParseSchema:", o.strip()[:300])
        if obj.get("expected") == "a schema or an error":
            # totality finding: only a panic / hang is a failure, the generator is not involved
            bad = o.startswith("P\tpanic") or o.startswith("P\thang")
            if bad:
                print("VIOLATION property=C14 replay=%s" % path)
            return 1 if bad else 0
        if obj.get("oracle") == "in-process generation":
            rc, o2 = C.sh([hb, "inproc", src], env=ctx.env(), timeout=600)
            print("in-process generation:", o2.strip()[:300])
            bad = not (o2.startswith("I\tok") or o2.startswith("I\tfirst:"))
            if bad:
                print("VIOLATION property=C14 replay=%s" % path)
            return 1 if bad else 0
        if obj.get("oracle") == "definitions the generator wrote":
            got = [show_def(tuple(l.split("\t")[2:])) for l in o.splitlines() if l.startswith("D\t")]
            bad = sorted(got) != sorted(obj.get("expected", []))
            print("declared %d definitions, extracted %d; %s" % (len(obj.get("expected", [])), len(got), "DIFFERENT" if bad else "equal"))
            if bad:
                print("VIOLATION property=C14 replay=%s" % path)
            return 1 if bad else 0
        bad = not o.startswith("P\tok")
        if not bad:
            os.makedirs(d + "/out")
            rc, o = C.sh([tlgen, src, d + "/out"], timeout=300)
            print("tlgen rc=%d %s" % (rc, o.strip()[:300]))
            bad = rc != 0 or len(os.listdir(d + "/out")) != 5
        if not bad:
            with open(d + "/go.mod", "w") as f:
                f.write("module github.com/xelaj/mtproto/verifscratch\n\ngo 1.21\n\nrequire github.com/xelaj/mtproto v0.0.0\n\n"
                        "replace github.com/xelaj/mtproto => %s\n" % C.REPO)
            shutil.copy(C.REPO + "/go.sum", d + "/go.sum")
            with open(d + "/out/stub_verif.go", "w") as f:
                f.write(STUB)
            rc, o = C.sh(["go", "build", "-gcflags=-e", "./out"], cwd=d, timeout=900)
            print("go build rc=%d %s" % (rc, o.strip()[:600]))
            bad = rc != 0
            if not bad and (obj.get("expected_all") is not None or str(obj.get("oracle", "")).startswith("execution")):
                os.makedirs(d + "/cmd/r")
                with open(d + "/cmd/r/main.go", "w") as f:
                    f.write(open(HERE + "/reflect/main.go.tmpl").read().replace("__PKG__", "github.com/xelaj/mtproto/verifscratch/out"))
                rc, o = C.sh(["go", "build", "-tags", "verif", "-o", d + "/r", "./cmd/r"], cwd=d, timeout=900)
                if rc != 0:
                    raise C.BuildError("reflection program does not build: " + o[-1500:])
                rc, o = C.sh([d + "/r"], timeout=300)
                rrows = [l.split("\t") for l in o.splitlines() if l]
                got = reflect_proj(rrows)
                badcalls = call_status(rrows)
                diff = sorted(set(tuple(x) for x in obj["expected_all"]) ^ got) if obj.get("expected_all") is not None else []
                print("reflection: %d descriptors, %d differ from the schema's: %s; executed methods misbehaving: %s"
                      % (len(got), len(diff), [show_item(x) for x in diff[:4]], badcalls[:4]))
                bad = rc != 0 or bool(diff) or bool(badcalls)
        if bad:
            print("VIOLATION property=C14 replay=%s" % path)
            return 1
        return 0
    finally:
        shutil.rmtree(d, ignore_errors=True)


def pregen(ctx):
    write_schema_text(C.REPO)
