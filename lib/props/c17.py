"""C17 - RPC errors: TryExpandError / RpcErrorToNative / tryToProcessErr.

Translator: specificErrors, errorMessages, defaultDCList of the tree -> coq/gen/ErrTables.v
(Inst/C17i.v re-proves table_ok / descs_ok / ... on it by vm_compute on every run).
Correspondence: the implementation and the extracted Coq model on the same texts; a direct
oracle (independent of the model) for the documented shapes; panics are violations by themselves."""
import json
import os

from .. import common as C
from . import c17m

PROPS = ["theories/Misc/MigrateProofs.v", "theories/Props/C17.v", "theories/Inst/C17i.v"]


def unhex(h):
    return b"" if h in ("-", "") else bytes.fromhex(h)


def show(h):
    return unhex(h).decode("utf-8", "backslashreplace")


def coq_bytes(b):
    return "[" + "; ".join(str(x) for x in b) + "]"


def write_tables(rows):
    """rows: the '#row' / '#msg' / '#dc' lines of the harness dump."""
    tr, ms, dc = [], [], []
    for r in rows:
        if r[0] == "#row":
            tr.append("  (%s, %s, %s)" % (coq_bytes(unhex(r[1])), coq_bytes(unhex(r[2])), r[3]))
        elif r[0] == "#msg":
            ms.append("  (%s,\n   %s)" % (coq_bytes(unhex(r[1])), coq_bytes(unhex(r[2]))))
        elif r[0] == "#dc":
            dc.append("  ((%s)%%Z, %s)" % (r[1], coq_bytes(unhex(r[2]))))
    body = ["(* generated from specificErrors / errorMessages / defaultDCList of the current tree"
            " (verif_export.go) - do not edit *)",
            "From Coq Require Import ZArith NArith List.", "Import ListNotations.", "Open Scope N_scope.",
            "(* prefix, suffix, kind: 0 reflect.Int, 1 reflect.String, 2 any other; in matching order *)",
            "Definition shipped_rows : list (list N * list N * N) := [", ";\n".join(tr), "].",
            "(* name, description; sorted by name *)",
            "Definition shipped_messages : list (list N * list N) := [", ";\n".join(ms), "].",
            "(* DC id, address; sorted by id *)",
            "Definition shipped_dcs : list (Z * list N) := [", ";\n".join(dc), "]."]
    txt = "\n".join(body) + "\n"
    p = C.COQ + "/gen/ErrTables.v"
    os.makedirs(C.COQ + "/gen", exist_ok=True)
    if not os.path.exists(p) or open(p).read() != txt:
        with open(p, "w") as f:
            f.write(txt)
    C.want_gen(p, txt)
    return len(tr), len(ms), len(dc)


def race_pair(ctx):
    """SetDCList (map write) concurrent with tryToProcessErr (map read) under the Go race detector.
    Informational: the property quantifies over requests in flight, not over configuration calls made
    concurrently with them (telegram.NewClient calls SetDCList before it hands the client out); the result
    is recorded in the evidence and as a note, never as a violation."""
    import subprocess
    md = C.BUILD + "/gomod/root-race"
    os.makedirs(md, exist_ok=True)
    hd = C.V + "/harness/root"
    with open(md + "/go.mod", "w") as f:
        f.write(open(hd + "/go.mod").read().replace("=> /repo", "=> " + C.REPO))
    with open(md + "/go.sum", "wb") as f:
        f.write(open(C.REPO + "/go.sum", "rb").read())
    env = dict(C.GOENV)
    env["CGO_ENABLED"] = "1"
    out = C.BIN + "/h_root_cmd_c17race"
    res = {"ran": True}
    rc, o = C.sh(["go", "build", "-race", "-modfile", md + "/go.mod", "-tags", "verif", "-o", out, "./cmd/c17race"], cwd=hd, env=env, timeout=900)
    if rc != 0:
        res["race_detector"] = "unavailable (go build -race failed: %s)" % o.strip().splitlines()[-1:] 
        rc, o = C.sh(["go", "build", "-modfile", md + "/go.mod", "-tags", "verif", "-o", out, "./cmd/c17race"], cwd=hd, timeout=900)
        if rc != 0:
            raise C.BuildError("c17race does not build: " + o[-1500:])
    else:
        res["race_detector"] = "available"
    p = subprocess.run([out], stdout=subprocess.PIPE, stderr=subprocess.PIPE, timeout=300)
    err = p.stderr.decode("utf-8", "replace")
    res["exit"] = p.returncode
    res["data_race_reports"] = err.count("WARNING: DATA RACE")
    res["runtime_abort_concurrent_map"] = "concurrent map" in err
    if res["data_race_reports"] or res["runtime_abort_concurrent_map"]:
        first = [l.strip() for l in err.splitlines() if "mtproto.(*MTProto)" in l][:2]
        ctx.notes.append("SetDCList called concurrently with the handling of PHONE_MIGRATE_X is a data race on the DC table (%s); "
                         "not counted as a violation of C17: the property speaks of requests in flight, and NewClient calls SetDCList before "
                         "the client is handed out" % ", ".join(first))
    return res


def e_replay(code, text, expected, got, oracle, fields=None):
    """fields: the projected observables the replay must reproduce (message_hex, info, code, description_hex);
    a panic is always a failure."""
    return {"kind": "E", "code": int(code), "text_hex": text, "text": show(text),
            "expected": expected, "got": got, "oracle": oracle, "expect_fields": fields or {}}


def describe_ops(ops):
    out = []
    for op in ops.split(" "):
        if op == "N":
            out.append("New")
        elif op[0] == "S":
            c, d = op[1:].split(":", 1)
            d = "" if d == "-" else ", ".join("%s:%s" % (kv.split("=")[0], show(kv.split("=")[1])) for kv in d.split(","))
            out.append("c%s.SetDCList{%s}" % (c, d))
        elif op[0] == "T":
            out.append("c%s.table" % op[1:])
        elif op[0] == "P":
            c, msg, info = op[1:].split(":", 2)
            out.append("c%s.tryToProcessErr(%s,%s)" % (c, show(msg), info))
    return "; ".join(out)


def describe_obs(o):
    if o.startswith("t:"):
        n, rest = o[2:].split(";", 1)
        return "table(%s entries: %s)" % (n, ", ".join("%s=%s" % (kv.split("=")[0], show(kv.split("=")[1])) for kv in rest.split(",") if kv))
    if "," in o:
        cls, a = o.split(",", 1)
        return "%s addr=%r" % (cls, show(a))
    return o


def fields_hold(flds, impl):
    """impl = [ok, message_hex, info, code, description_hex]"""
    idx = {"message_hex": 1, "info": 2, "code": 3, "description_hex": 4}
    if impl[0] != "ok" or len(impl) < 5:
        return False
    if flds.get("description_has_no_fmt_marker") and b"%!" in unhex(impl[4]):
        return False
    if flds.get("errtext") and (len(impl) < 6 or impl[5] != flds["errtext"]):
        return False
    if any(k.lower() not in show(impl[4]).lower() for k in flds.get("description_keywords", [])):
        return False
    return all(impl[idx[k]] == str(v) for k, v in flds.items() if k in idx)


def fmt_impl(f):
    """projection of the implementation fields of an E line"""
    if f[0] == "P":
        return "panic: " + show(f[1])
    return "message=%r info=%s code=%s description=%r" % (show(f[1]), f[2], f[3], show(f[4]))


def run(ctx):
    hb = C.build_harness("root", pkg="./cmd/c17")
    cases = ctx.work + "/cases.txt"
    rc, out = C.sh([hb, "gen", ctx.tier, cases], env=ctx.env(), timeout=1800)
    if rc != 0:
        raise C.BuildError("harness gen failed: " + out[-2000:])
    stats = {}
    for l in out.splitlines():
        f = l.split("\t")
        if len(f) == 3 and f[0] == "stat":
            stats[f[1]] = int(f[2])
    rows = C.read_tsv(cases)
    nrows, nmsgs, ndcs = write_tables([r for r in rows if r[0].startswith("#")])
    stats["table-rows"], stats["catalogue-entries"], stats["default-dcs"] = nrows, nmsgs, ndcs

    pr = C.coq_props(PROPS)
    C.coq_obligation_violations(ctx, pr, "C17")
    bad = C.lint_coq()
    bad = [b for b in bad if "RpcError" in b or "C17" in b or "ErrTables" in b]
    if bad:
        C.violation(ctx, "coq-lint", "forbidden Coq construct: %s" % bad[:3], {"no_failing_input": True, "lint": bad[:10]})

    coqchk = None
    if ctx.tier == "thorough":
        with C.Lock("coq"):
            rc, o = C.sh(["coqchk", "-silent", "-o", "-Q", "theories", "MTV", "-Q", "gen", "MTVgen",
                          "MTV.Props.C17", "MTV.Inst.C17i"], cwd=C.COQ, timeout=1500)
        coqchk = "ok: Axioms <none>" if rc == 0 and "* Axioms: <none>" in o else "FAILED"
        if coqchk == "FAILED" and not pr["failed"]:
            C.violation(ctx, "coqchk", "coqchk over the closure of Props/C17.vo and Inst/C17i.vo fails or reports axioms: " + o[-600:],
                        {"no_failing_input": True, "log": o[-2000:]})

    C.build_model("C17")
    mraw = ctx.work + "/model_raw.txt"
    C.run_model("C17", cases, mraw)
    model = {}
    for f in C.read_tsv(mraw):
        model[f[0]] = f[1:]

    table = [(unhex(r[1]), unhex(r[2])) for r in rows if r[0] == "#row"]
    names = set(unhex(r[1]) for r in rows if r[0] == "#msg")

    evals = 0
    nontrivial = set()
    disagreements = 0
    unmodelled_fmt = 0
    errtexts = 0
    spots = 0
    fmt_compared = 0
    fmt_outside = 0
    samples = []
    for r in rows:
        kind = r[0]
        if kind.startswith("#"):
            continue
        evals += 1
        cid = r[1]
        m = model.get(cid)
        if kind == "E":
            code, text = r[2], r[3]
            impl = r[4:10]
            expect = r[10:]
            tb = unhex(text)
            key = "input:" + text
            if any(tb.startswith(p) and tb.endswith(s) for (p, s) in table) or tb in names:
                nontrivial.add(("E", text))
            if impl[0] == "P":
                C.violation(ctx, key, "RpcErrorToNative(%r) panics: %s" % (show(text), show(impl[1])),
                            e_replay(code, text, "a structured error (no panic)", fmt_impl(impl), "direct: panic"))
                continue
            if impl[2].startswith("o:"):
                C.violation(ctx, key, "RpcErrorToNative(%r): unexpected result %s" % (show(text), impl[2]),
                            e_replay(code, text, "ErrResponseCode with nil/int/string parameter, same from TryExpandError",
                                     fmt_impl(impl), "direct: result type"))
                continue
            if impl[3] != code:
                C.violation(ctx, key, "RpcErrorToNative(%r): Code %s, server sent %s" % (show(text), impl[3], code),
                            e_replay(code, text, "code=" + code, fmt_impl(impl), "direct: code", {"code": code}))
                continue
            if impl[5] != "ok":
                # Error() must carry the description verbatim and nothing fmt wrote by accident (a server text used as a format)
                what = impl[5].split(":", 1)
                C.violation(ctx, key, "RpcErrorToNative(%r).Error() = %r: the description %r is %s"
                            % (show(text), show(what[1]) if len(what) > 1 else "?", show(impl[4]),
                               "not in it" if what[0] == "lost" else "surrounded by formatting diagnostics"),
                            e_replay(code, text, "Error() contains the description verbatim and no %!verb(...) / (MISSING) / (EXTRA ...) around it",
                                     "Error() = %r" % (show(what[1]) if len(what) > 1 else "?"), "direct: error text", {"errtext": "ok"}))
                continue
            errtexts += 1
            # direct oracle for the documented shapes (independent of the Coq model)
            if expect and expect[0] != "?":
                ok, want, flds = True, "", {}
                if expect[0] == "plain":
                    want = "message=%r info=nil" % show(text)
                    flds = {"message_hex": text, "info": "nil"}
                elif expect[0] == "shape":
                    want = "message=%r info=i:%s" % (show(expect[1]), expect[2])
                    flds = {"message_hex": expect[1], "info": "i:" + expect[2]}
                elif expect[0] == "spot":
                    spots += 1
                    want = "message=%r info=%s" % (show(expect[1]), expect[2])
                    flds = {"message_hex": expect[1], "info": expect[2]}
                    if expect[3] != "-":
                        want += " description=%r" % show(expect[3])
                        flds["description_hex"] = expect[3]
                    kws = [show(k) for k in expect[4].split(",") if k]
                    missing = [k for k in kws if k.lower() not in show(impl[4]).lower()]
                    if fields_hold(flds, impl) and missing:
                        C.violation(ctx, key, "RpcErrorToNative(%r): the description %r does not mention %s (hand-typed table of well-known errors)"
                                    % (show(text), show(impl[4]), missing),
                                    e_replay(code, text, want + " mentioning %s" % kws, fmt_impl(impl), "direct: spot table of well-known errors",
                                             dict(flds, description_keywords=kws)))
                        continue
                elif expect[0] == "name":
                    want = "message=%r info=nil description=%r" % (show(text), show(expect[1]))
                    flds = {"message_hex": text, "info": "nil", "description_hex": expect[1]}
                if expect[0] == "shape" and b"%!" in unhex(impl[4]):
                    # fmt's own marker for a verb/operand mismatch: the description was not formed from the catalogue text
                    C.violation(ctx, key, "RpcErrorToNative(%r): malformed description %r" % (show(text), show(impl[4])),
                                e_replay(code, text, want + " and a description without fmt error markers", fmt_impl(impl),
                                         "direct: description well-formed", dict(flds, description_has_no_fmt_marker=True)))
                    continue
                if not fields_hold(flds, impl):
                    C.violation(ctx, key, "RpcErrorToNative(%r): documented result %s, implementation gives %s"
                                % (show(text), want, fmt_impl(impl)),
                                e_replay(code, text, want, fmt_impl(impl), "direct: documented shape", flds))
                    continue
            if m is None or m[0] != "ok":
                disagreements += 1
                C.violation(ctx, key, "model gives %s for %r, implementation %s" % (m, show(text), fmt_impl(impl)),
                            e_replay(code, text, "model: %s" % (m,), fmt_impl(impl), "model Misc/RpcError.v to_native"))
                continue
            mm = m[1:4] + [m[4] if len(m) > 4 else "?"]   # message, info, code, description
            same = impl[1] == mm[0] and impl[2] == mm[1] and impl[3] == mm[2]
            if mm[3] == "?":
                unmodelled_fmt += 1
            else:
                same = same and impl[4] == mm[3]
            if not same:
                disagreements += 1
                flds = {"message_hex": mm[0], "info": mm[1], "code": mm[2]}
                if mm[3] != "?":
                    flds["description_hex"] = mm[3]
                mtxt = fmt_impl(["ok"] + mm[0:3] + [mm[3] if mm[3] != "?" else "-"])
                C.violation(ctx, key, "RpcErrorToNative(%r): model (proved) gives %s, implementation gives %s"
                            % (show(text), mtxt, fmt_impl(impl)),
                            e_replay(code, text, mtxt, fmt_impl(impl), "model Misc/RpcError.v to_native", flds))
            if len(samples) < 8 and impl[2] != "nil" and evals % 53 == 0:
                samples.append({"text": show(text), "code": int(code), "impl": fmt_impl(impl),
                                "model": fmt_impl(["ok"] + mm[0:3] + [mm[3] if mm[3] != "?" else "-"])})
        elif kind == "F":
            f, arg, got = r[2], r[3], r[4]
            if m is None or m[0] == "?":
                fmt_outside += 1
                continue
            fmt_compared += 1
            if m[0] != got:
                disagreements += 1
                C.violation(ctx, "fmt-model:" + f + ":" + arg,
                            "model of fmt.Sprintf differs on (%r, %s): model %r, Go %r" % (show(f), arg, show(m[0]), show(got)),
                            {"no_failing_input": True, "kind": "F", "format_hex": f, "arg": arg, "expected": show(m[0]), "got": show(got)})
        elif kind == "H":
            ops, impl, oracle = r[2], r[3], r[4]
            key = "history:" + ops
            nclients = ops.split(" ").count("N")
            if nclients >= 2:
                nontrivial.add(("H", ops))
            mo = m[0] if m else None
            first = None
            for idx, (a, b) in enumerate(zip(impl.split(" "), oracle.split(" "))):
                if a != b:
                    first = (idx, a, b)
                    break
            if first is not None:
                op = ops.split(" ")[first[0]]
                C.violation(ctx, key, "history with %d clients [%s]: at op #%d (%s) the property gives %s, implementation gives %s"
                            % (nclients, describe_ops(ops), first[0], describe_ops(op), describe_obs(first[2]), describe_obs(first[1])),
                            {"kind": "H", "ops": ops, "history": describe_ops(ops), "failing_op_index": first[0],
                             "expected": oracle, "got": impl,
                             "oracle": "direct: every client owns a copy of defaultDCList plus its own SetDCList entries"})
                continue
            if mo != impl:
                disagreements += 1
                C.violation(ctx, key, "history [%s]: model (proved, crun/cstep) gives %s, implementation gives %s"
                            % (describe_ops(ops), mo, impl),
                            {"kind": "H", "ops": ops, "history": describe_ops(ops), "expected": mo, "got": impl,
                             "oracle": "model Misc/RpcError.v cstep"})
            if len(samples) < 14 and evals % 97 == 0:
                samples.append({"history": describe_ops(ops), "observations": [describe_obs(o) for o in impl.split(" ")]})
        elif kind in ("M", "D"):
            if kind == "M":
                dcs, code, text = r[2], r[3], r[4]
                impl = r[5:8]
                key = "migrate:%s:%s" % (dcs, text)
                what = "makeRequest error path on %r with DC table {%s}" % (show(text), dcs)
                rep = {"kind": "M", "dcs": dcs, "code": int(code), "text_hex": text, "text": show(text)}
                if unhex(text).startswith(b"PHONE_MIGRATE_"):
                    nontrivial.add(("M", dcs, text))
            else:
                dcs, msg, info = r[2], r[3], r[4]
                impl = r[5:8]
                key = "process:%s:%s:%s" % (dcs, msg, info)
                what = "tryToProcessErr(Message=%r, AdditionalInfo=%s) with DC table {%s}" % (show(msg), info, dcs)
                rep = {"kind": "D", "dcs": dcs, "message_hex": msg, "message": show(msg), "info": info}
                if show(msg) == "PHONE_MIGRATE_X":
                    nontrivial.add(("D", dcs, msg, info))
            got = "panic: " + show(impl[1]) if impl[0] == "P" else "%s addr=%r" % (impl[0], show(impl[1]))
            if impl[0] == "P":
                rep.update({"expected": "an error or a switch of address (no panic)", "got": got, "oracle": "direct: panic"})
                C.violation(ctx, key, "%s panics: %s" % (what, show(impl[1])), rep)
                continue
            if len(impl) > 2 and impl[2] not in ("ok", "-"):
                what = impl[2].split(":", 1)
                rep.update({"expected": "the returned error's text contains the description verbatim and no fmt diagnostics around it",
                            "got": "Error() = %r" % (show(what[1]) if len(what) > 1 else "?"), "oracle": "direct: error text"})
                C.violation(ctx, key, "%s: the text of the returned error is %r" % (what and what[0], show(what[1]) if len(what) > 1 else "?"), rep)
                continue
            want = "%s addr=%r" % (m[0], show(m[1])) if m and len(m) > 1 else str(m)
            if m is None or m[0:2] != impl[0:2]:
                disagreements += 1
                rep.update({"expected": want, "got": got, "oracle": "model Misc/RpcError.v handle/process_err",
                            "expect_fields": {"class": m[0], "addr_hex": m[1]} if m and len(m) > 1 else {}})
                C.violation(ctx, key, "%s: model (proved) gives %s, implementation gives %s" % (what, want, got), rep)
            if len(samples) < 12 and impl[0] in ("switch", "nodc") and evals % 41 == 0:
                samples.append({"case": what, "impl": got, "model": want})
    if not samples:
        samples.append({"first_case": rows[-1]})
    ctx.notes.append("catalogue name 2FA_CONFIRM_WAIT_X has no row in specificErrors (its description has no verb): "
                     "texts 2FA_CONFIRM_WAIT_<n> are delivered as unknown errors with the number left in the message; "
                     "outside the 15-row quantifier of C17, reported for information")
    mcov = c17m.stage(ctx)   # end-to-end half against the in-process server
    racecov = race_pair(ctx) if ctx.tier == "thorough" else {"ran": False, "why": "thorough tier only"}
    cov = C.proof_coverage(
        pr, "make -f Makefile.coq theories/Props/C17.vo theories/Inst/C17i.vo (coqc 8.16.1) in /verif/coq",
        ["gen/ErrTables.v regenerated each run from specificErrors / errorMessages / defaultDCList through the add-only "
         "export verif_export.go (build tag verif); Inst/C17i.v re-proves table_ok, suffixes_clean, descs_ok, key uniqueness on it",
         "strconv.Atoi re-implemented in Gallina for a 64-bit int (harness refuses to run if strconv.IntSize != 64) and compared on "
         "every boundary of the quantifier; fmt.Sprintf re-implemented for one int/string operand and the verbs v d s %% "
         "(anything else = not modelled), compared with the real fmt on the F cases",
         "HasPrefix/HasSuffix/TrimPrefix/TrimSuffix as in MTV.Base (byte lists)",
         "tryToProcessErr driven through VerifTryToProcessErr on a client without connection: Reconnect is reached but its dial fails "
         "locally (addresses without port); what follows a successful reconnect is not observed here"],
        {"evaluations": evals, "distinct_nontrivial": len(nontrivial),
         "rule": "E: error texts = corpus + every table row x boundary parameter list (ints incl. negative, 0, +5, -0, leading zeros, "
                 "2^31, 2^63-1, 2^63, 2^64, 40-digit, empty, non-digit, trailing junk, unicode digits, % verbs) + random ints per row + "
                 "truncations/overlaps/doublings/crossings of rows + every catalogued name (and two mutations) + a hand-typed table of well-known (code, text) -> description / key words, "
                 "independent of errorMessages + texts made of formatting verbs (unknown names and row names) under several codes + random strings "
                 "(soup with % verbs, prefixes of rows, random bytes, mutated names), each with a random code; run through TryExpandError and "
                 "RpcErrorToNative and through the extracted to_native. F: fmt.Sprintf vs sprintf1 on every catalogue text and random formats. "
                 "M: RpcErrorToNative + the real tryToProcessErr vs handle, D: tryToProcessErr on hand-made errors vs process_err, over DC tables "
                 "{empty, one, ids of defaultDCList, extreme ids, random}. H: histories of NewMTProto / SetDCList / tryToProcessErr / table reads over 2-4 "
                 "clients alive in one process (fixed scenarios first, then random; configured clients override the default ids with unresolvable "
                 "addresses, fresh clients keep the default list and are asked only about ids outside it), real code vs extracted cstep vs a direct "
                 "per-client oracle. non-trivial = distinct E texts matched by a table row or equal to a "
                 "catalogued name + distinct M cases whose text starts with PHONE_MIGRATE_ + distinct D cases with message PHONE_MIGRATE_X + distinct H histories with at least 2 clients",
         "samples": samples, "input_distribution": stats, "disagreements_checked": disagreements,
         "coqchk": coqchk or "thorough tier only",
         "descriptions_outside_fmt_model": unmodelled_fmt,
         "error_texts_checked": errtexts, "spot_oracle_rows": spots,
         "sprintf_cases_compared": fmt_compared, "sprintf_cases_outside_modelled_subset": fmt_outside,
         "projection": "panic or not; Message; AdditionalInfo nil / int value / string; Code; Description bytes; of Error() only whether it carries the "
                       "description verbatim without fmt diagnostics (%!verb, MISSING, EXTRA) around it; for migration: "
                       "class (error itself / error wrapping it / address switched) and the client's address afterwards; panic texts, "
                       "error strings and wrap chains are not compared"})
    cov.update(mcov)
    cov["setdclist_concurrent_with_migrate"] = racecov
    return C.finish(ctx, "proof", cov, [
        "Go int is 64 bits",
        "fmt.Sprintf and strconv.Atoi behave as the Gallina re-implementations on the subset used (checked by the correspondence, not proved)",
        "the live part of PHONE_MIGRATE: one caller is modelled sequentially (C17_live_migrate), several callers by the protocol model Misc/Migrate.v (C17_concurrent_migrate_*; Reconnect assumed to succeed, termination under targets_serve); the model is a hand transcription of makeRequest / tryToProcessErrOf / repeatPendingRequests, tied to the code by membership of every observed multi-caller outcome in the set the extracted model allows"])


def replay(ctx, path):
    obj = json.load(open(path))
    if str(obj.get("key", "")).startswith("migrate-live:"):
        return c17m.replay(ctx, path)
    if obj.get("kind") == "H":
        hb = C.build_harness("root", pkg="./cmd/c17")
        rc, out = C.sh([hb, "one", "H", obj["ops"]], env=ctx.env())
        if rc != 0:
            raise C.BuildError("harness one failed: " + out[-1000:])
        f = out.strip("\n").split("\t")
        print("history=[%s]\n expected=%s\n got=%s" % (describe_ops(obj["ops"]), f[1], f[0]))
        if f[0] != f[1] or f[0] != obj.get("expected", f[0]):
            print("VIOLATION property=C17 replay=%s" % path)
            return 1
        return 0
    if obj.get("kind") not in ("E", "M", "D"):
        print("replay names a broken obligation or a model mismatch without input, re-running the full check")
        return run(ctx)
    hb = C.build_harness("root", pkg="./cmd/c17")
    if obj["kind"] == "E":
        rc, out = C.sh([hb, "one", "E", str(obj["code"]), obj["text_hex"]], env=ctx.env())
    elif obj["kind"] == "M":
        rc, out = C.sh([hb, "one", "M", obj["dcs"], str(obj["code"]), obj["text_hex"]], env=ctx.env())
    else:
        rc, out = C.sh([hb, "one", "D", obj["dcs"], obj["message_hex"], obj["info"]], env=ctx.env())
    if rc != 0:
        raise C.BuildError("harness one failed: " + out[-1000:])
    f = out.strip("\n").split("\t")
    flds = obj.get("expect_fields") or {}
    if obj["kind"] == "E":
        got = fmt_impl(f) if len(f) >= 5 else out
        bad = f[0] == "P" or not fields_hold(flds, f)
    else:
        got = ("panic: " + show(f[1])) if f[0] == "P" else "%s addr=%r" % (f[0], show(f[1]) if len(f) > 1 else "")
        bad = f[0] == "P" or ("class" in flds and (f[0] != flds["class"] or f[1] != flds["addr_hex"]))
    print("case=%r expected=%s got=%s" % (obj.get("text", obj.get("message")), obj.get("expected"), got))
    if bad:
        print("VIOLATION property=C17 replay=%s" % path)
        return 1
    return 0


def pregen(ctx):
    hb = C.build_harness("root", pkg="./cmd/c17")
    cases = ctx.work + "/pregen.txt"
    rc, out = C.sh([hb, "gen", "quick", cases], env=ctx.env(), timeout=600)
    rows = C.read_tsv(cases)
    write_tables([r for r in rows if r[0].startswith("#")])
