"""C13 - the shipped API layer is a faithful translation of the shipped TL schema."""
import glob
import hashlib
import json
import os
import re

from .. import common as C
from . import c13m
from . import tlcommon as T
from . import tlreg
from . import tlschema

PROPS = ["theories/Props/C13.v", "theories/Inst/C13i.v"]


REPORT_KEYS = ("api_mismatch_ids", "mt_mismatch_ids", "bad_crc_lines", "not_in_schema", "bad_wrappers", "name_mismatch_ids",
               "ident_mismatch_ids", "const_mismatch_ids", "stray_consts", "mt_ident_info", "dup_reg_ids", "dup_struct_crcs",
               "iface_mismatch_ids", "unseen_ifaces", "fingerprint", "counts")
COUNT_NAMES = ("api_definitions", "service_definitions", "service_wire_used", "unparsed_lines", "wrappers", "registered_ids",
               "enum_constants", "interfaces_seen", "interfaces_declared")


def handwritten_crc_types():
    """independent of the translator: hand-written types of package telegram with a CRC() method"""
    found = set()
    for f in sorted(glob.glob(C.REPO + "/telegram/*.go")):
        b = os.path.basename(f)
        if b.endswith("_gen.go") or b.endswith("_test.go") or b.startswith("verif_"):
            continue
        for m in re.finditer(r"^func \((?:\w+\s+)?\*?(\w+)\) CRC\(\) uint32", open(f).read(), re.M):
            found.add(m.group(1))
    return found


def definition_lines(path):
    """independent of the Coq parser: lines of a schema file that define a combinator (`name#id ... = Type;`)"""
    n = 0
    for line in open(path, encoding="latin-1"):
        if re.match(r"^[A-Za-z0-9_.]+#[0-9a-fA-F]+\s.*=\s*\S.*;", line):
            n += 1
    return n


def parse_report(log):
    m = re.search(r'"C13-REPORT".*?: string \*', log, re.S)
    rep = {}
    if not m:
        return rep
    txt = m.group(0)
    for k in REPORT_KEYS:
        mm = re.search(r'\(\s*"%s",\s*\[(.*?)\]\)' % k, txt, re.S)
        if mm:
            rep[k] = [int(x) for x in re.findall(r"\d+", mm.group(1))]
    return rep


def run(ctx):
    prep = T.prepare(ctx)
    tlschema.write_schema_v()
    # coq/gen/Registry.v is shared with every concurrent run of the TL family (possibly against another tree):
    # the instance must have been evaluated on the registry THIS run translated
    want = tlreg.fingerprint(prep["reg"])
    for attempt in range(5):
        pr = C.coq_props(PROPS)
        rep = parse_report(pr["log"])
        if rep.get("fingerprint") == [want] or ("fingerprint" not in rep and attempt >= 1):
            break
        C.log("C13: coq/gen/Registry.v was rewritten by another run; regenerating (attempt %d)" % (attempt + 1))
        tlreg.write_registry_v(prep["reg"])
        tlschema.write_schema_v()
    else:
        raise C.BuildError("coq/gen/Registry.v keeps being rewritten by concurrent runs")
    ids = T.schema_ids()
    names = prep["names"]
    by_crc = {}
    for s in prep["structs"]:
        if s["crc"] != "nocrc":
            by_crc.setdefault(int(s["crc"]), []).append(s)
    reg_name = {int(crc): k for crc, k in prep["regl"]}

    def describe(crc):
        ss = by_crc.get(crc, [])
        return "; ".join("%s{%s}" % (s["name"], ", ".join("%s %s %s" % f for f in s["fields"])) for s in ss) or ("registered as " + reg_name.get(crc, "nothing"))

    cs = tlreg.parse_consts(tlreg.consts_path(prep["reg"]))
    consts_by_value = {}
    for (t, n, v) in cs["consts"]:
        consts_by_value.setdefault(v, []).append("%s %s" % (t, n))
    iface_name = dict(cs["rifaces"])

    def go_ident(crc):
        k = reg_name.get(crc, "")
        if k.startswith("s"):
            return names.get(int(k[1:]), k)
        if k.startswith("e"):
            return "; ".join(consts_by_value.get(crc, [])) or "no constant with this value"
        ss = by_crc.get(crc, [])
        return "; ".join(x["name"] for x in ss) or "?"

    explained = set()
    for crc in rep.get("api_mismatch_ids", []) + rep.get("mt_mismatch_ids", []):
        line = ids.get(crc, ("?", "?"))
        C.violation(ctx, "mismatch:%08x" % crc,
                    "schema definition `%s` is not matched by the registered Go type: %s" % (line[1][:200], describe(crc)[:300]),
                    {"schema_line": line[1], "go_type": describe(crc), "constructor_id": "%08x" % crc})
        explained.add("theories/Inst/C13i.v")
    for crc in rep.get("name_mismatch_ids", []):
        line = ids.get(crc, ("?", "?"))
        C.violation(ctx, "names:%08x" % crc,
                    "the fields of the registered Go type do not follow the parameter names of `%s` in order: %s" % (line[1][:200], describe(crc)[:300]),
                    {"schema_line": line[1], "go_type": describe(crc), "constructor_id": "%08x" % crc})
        explained.add("theories/Inst/C13i.v")
    for crc in rep.get("bad_crc_lines", []):
        line = ids.get(crc, ("?", "?"))
        C.violation(ctx, "crc:%08x" % crc, "the id written in `%s` is not the CRC-32 of the canonical line" % line[1][:200],
                    {"schema_line": line[1]})
        explained.add("theories/Inst/C13i.v")
    for crc in rep.get("not_in_schema", []):
        C.violation(ctx, "not-in-schema:%08x" % crc,
                    "constructor id %08x is registered (%s) but no definition of the shipped schema files accounts for it" % (crc, describe(crc)[:200]),
                    {"constructor_id": "%08x" % crc, "go_type": describe(crc)})
    for tid in rep.get("bad_wrappers", []):
        C.violation(ctx, "wrapper:%s" % names.get(tid, tid),
                    "hand-written wrapper %s does not carry the id / layout of its schema line: %s" % (names.get(tid, tid), describe_tid(prep, tid)),
                    {"go_type": describe_tid(prep, tid)})
        explained.add("theories/Inst/C13i.v")
    for crc in rep.get("ident_mismatch_ids", []):
        line = ids.get(crc, ("?", "?"))
        C.violation(ctx, "ident:%08x" % crc,
                    "schema definition `%s` (id %08x) is represented by the Go type %s, whose name is not the schema name (CamelCase, optional Obj / Params suffix): "
                    "the id or the type name belongs to another definition" % (line[1][:200], crc, go_ident(crc)),
                    {"schema_line": line[1], "schema_name": line[0], "go_identifier": go_ident(crc), "constructor_id": "%08x" % crc})
        explained.add("theories/Inst/C13i.v")
    for crc in rep.get("const_mismatch_ids", []):
        line = ids.get(crc, ("?", "?"))
        C.violation(ctx, "const:%08x" % crc,
                    "schema definition `%s` (id %08x): the Go source gives this value to the enum constant(s) [%s]; no constant named after %s carries it alone"
                    % (line[1][:200], crc, go_ident(crc), line[0]),
                    {"schema_line": line[1], "schema_name": line[0], "go_identifier": go_ident(crc), "constructor_id": "%08x" % crc})
        explained.add("theories/Inst/C13i.v")
    for v in rep.get("stray_consts", []):
        C.violation(ctx, "stray-const:%08x" % v,
                    "enum constant %s has the value %08x, which is the id of no constructor of the API schema" % ("; ".join(consts_by_value.get(v, ["?"])), v),
                    {"go_identifier": consts_by_value.get(v, []), "value": "%08x" % v})
        explained.add("theories/Inst/C13i.v")
    for crc in rep.get("dup_reg_ids", []):
        C.violation(ctx, "registered-twice:%08x" % crc, "constructor id %08x occurs twice in the registry" % crc, {"constructor_id": "%08x" % crc})
        explained.add("theories/Inst/C13i.v")
    for crc in rep.get("dup_struct_crcs", []):
        C.violation(ctx, "two-types:%08x" % crc,
                    "constructor id %08x is returned by CRC() of more than one Go type: %s" % (crc, "; ".join(x["name"] for x in by_crc.get(crc, []))),
                    {"constructor_id": "%08x" % crc, "go_types": [x["name"] for x in by_crc.get(crc, [])]})
        explained.add("theories/Inst/C13i.v")
    for crc in rep.get("iface_mismatch_ids", []):
        line = ids.get(crc, ("?", "?"))
        k = reg_name.get(crc, "")
        impl = [iface_name.get(i, str(i)) for i in cs["rimpl"].get(int(k[1:]), (None, []))[1]] if k.startswith("s") else []
        result = line[1].rstrip(";").split("=")[-1].strip()
        C.violation(ctx, "iface:%08x" % crc,
                    "constructor `%s` (id %08x) has result type %s, but the registered Go type %s implements %s: it must implement tl.Object and exactly the "
                    "interface generated for %s (none if the type has a single constructor)" % (line[1][:200], crc, result, go_ident(crc), impl or "nothing", result),
                    {"schema_line": line[1], "result_type": result, "go_identifier": go_ident(crc), "implements": impl, "constructor_id": "%08x" % crc})
        explained.add("theories/Inst/C13i.v")
    if rep.get("unseen_ifaces"):
        seen = {tlreg.bare(n) for (_, n) in cs["rifaces"]}
        for (n, _) in cs["srcifaces"]:
            if n not in seen:
                C.violation(ctx, "iface-unseen:%s" % n,
                            "interface %s is declared in package telegram but is the type of no struct field and of no parameter or result of a Client method: "
                            "membership of constructors in it cannot be observed" % n, {"go_identifier": n, "no_failing_input": True})
        explained.add("theories/Inst/C13i.v")

    # the translators and the Coq parser are cross-checked against independent counts (a translator that
    # finds no wrapper, or a parser that drops lines, would make the theorems above say less than they seem to)
    counts = dict(zip(COUNT_NAMES, rep.get("counts", [])))
    hw = handwritten_crc_types()
    tw = {tlreg.bare(names[t]) for t in tlreg.wrapper_tids(prep["structs"])}
    if pr["log"] and rep and (hw != tw or counts.get("wrappers") != len(hw)):
        C.violation(ctx, "wrappers:translator-disagrees",
                    "hand-written types with a CRC() method in telegram/*.go (source scan): %s; wrappers selected by the registry translator: %s (%s in the Coq instance)"
                    % (sorted(hw), sorted(tw), counts.get("wrappers")),
                    {"no_failing_input": True, "source_scan": sorted(hw), "translator": sorted(tw), "coq_count": counts.get("wrappers")})
    indep = {"api_definitions": definition_lines(T.schema_paths()[0]), "service_definitions": definition_lines(T.schema_paths()[1])}
    if rep:
        for k, v in indep.items():
            if counts.get(k, 0) <= 0 or counts.get(k) != v:
                C.violation(ctx, "schema-count:" + k,
                            "%s: the Coq parser found %s definitions, an independent count of `name#id ... = Type;` lines finds %d" % (k, counts.get(k), v),
                            {"no_failing_input": True, "coq_count": counts.get(k), "independent_count": v})
        if counts.get("service_wire_used") != len(T.WIRE_USED):
            C.violation(ctx, "schema-count:service_wire_used", "wire-used service definitions found: %s of %d" % (counts.get("service_wire_used"), len(T.WIRE_USED)),
                        {"no_failing_input": True})

    # a failed obligation that the report above does not explain is reported on its own
    for fl in pr["failed"]:
        if fl["file"] in explained:
            continue
        C.violation(ctx, "coq:" + fl["file"], "C13: %s no longer checks: %s" % (fl["file"], fl["log"][-600:]),
                    {"no_failing_input": True, "broken_obligation": fl["file"], "log": fl["log"][-2000:]})

    # correspondence: every schema-defined constructor, values marshalled by the implementation
    # against the schema-defined serialisation (shared with C02): a layout that differs shows here as bytes
    model = T.run_model(ctx, prep, with_spec=True)
    crc_of = {s["tid"]: (None if s["crc"] == "nocrc" else int(s["crc"])) for s in prep["structs"]}
    evals = 0
    nontrivial = set()
    disagreements = 0
    defs_seen = set()
    samples = []
    for f in T.iter_cases(prep["cases"]):
        if f[0] != "E":
            continue
        _, cid, tid, g, impl, det, rt = f
        if tid == "c":
            continue
        tid = int(tid)
        crc = crc_of.get(tid)
        if crc not in ids:
            continue
        m = model.get(cid)
        if not isinstance(m, tuple) or m[1] in ("illtyped", "foreign"):
            continue
        evals += 1
        ic = T.norm_class(impl)
        m = (m[0], T.split_spec(m[1])[0])
        if ic.startswith("ok"):
            defs_seen.add(crc)
            nontrivial.add(hashlib.sha1(g.encode()).hexdigest())
        if (m[1].startswith("ok") or ic.startswith("ok")) and m[1] != ic and not (m[1] == "none" and not ic.startswith("ok")):
            disagreements += 1
            C.violation(ctx, "layout:%s" % ids[crc][0],
                        "%s: a value of the registered type serialises to %s but the schema line `%s` defines %s (value %s)"
                        % (ids[crc][0], T.short(ic, 100), ids[crc][1][:160], T.short(m[1], 100), T.short(g, 120)),
                        {"kind": "E", "type": names.get(tid), "value": g, "schema_line": ids[crc][1], "expected": m[1], "got": ic})
        if len(samples) < 4 and ic.startswith("ok") and evals % 499 == 0:
            samples.append({"definition": ids[crc][1][:160], "go_type": names.get(tid), "bytes": T.short(ic, 120)})
    if not samples:
        samples.append({"note": "no sample selected"})
    mcov = c13m.stage(ctx)   # end-to-end half against the in-process server
    cov = C.proof_coverage(
        pr, "make -f Makefile.coq theories/Props/C13.vo theories/Inst/C13i.vo (coqc 8.16.1) in /verif/coq",
        T.TRUSTED_TL + ["constant/interface translator harness/root/cmd/tl/consts.go (go/parser over the source of package telegram for typed integer constants and declared "
                        "interfaces; reflection over struct fields and *telegram.Client method signatures for interface membership), cross-checked against the registry translator where they overlap",
                        "schema-embed translator lib/props/tlschema.py (verbatim copy of the .tl files into coq/gen/SchemaText.v; parsed inside Coq)"],
        {"evaluations": evals, "distinct_nontrivial": len(nontrivial), "programs": len(ids),
         "rule": "the matcher TL/Match.v is evaluated by the Coq kernel on (registry regenerated from the tree) x (schema text of the tree): every definition of api_latest.tl and every "
                 "wire-used definition of mtproto.tl against its registered type (id, CRC-32 of the canonical line, field order, type, conditional bit, flags position), every registered id "
                 "against the schemas, the hand-written wrappers against their lines; Go identifiers (struct type names by reflection, enum constant names from the Go source) against "
                 "schema names; ids registered once and carried by one type; every constructor's struct implements tl.Object and exactly the interface of its result type "
                 "(interfaces found through struct fields and the signatures of *telegram.Client's methods); translator and parser counts against independent counts; plus values of every schema-defined constructor marshalled and compared with the schema-defined bytes. "
                 "non-trivial = distinct successfully encoded values",
         "samples": samples, "matcher_report": rep, "disagreements_checked": disagreements,
         "matcher_counts": counts, "independent_counts": dict(indep, wrappers=sorted(hw)),
         "service_layer_identifiers_differing_from_schema_names (information)": ["%08x %s -> %s" % (k, ids.get(k, ("?",))[0], go_ident(k)) for k in rep.get("mt_ident_info", [])],
         "schema_definitions_exercised_by_values": len(defs_seen), "schema_definitions_total": len(ids),
         "generated_client_methods": "covered by the end-to-end run against the in-process server (see notes)",
         "projection": "descriptor agreement (boolean, with reasons); bytes"})
    cov.update(mcov)
    return C.finish(ctx, "proof", cov, [
        "canonical-line rule for CRC-32 as in Telethon (drop #id and ';', bytes->string, '<'->' ', '>' dropped, braces dropped, flags.N?true parameters dropped, %T -> bare constructor name)",
        "method half of the property (343 generated client methods end to end) is a correspondence, not a theorem about Go source"])


def describe_tid(prep, tid):
    for s in prep["structs"]:
        if s["tid"] == tid:
            return "%s crc=%s {%s}" % (s["name"], s["crc"], ", ".join("%s %s %s" % f for f in s["fields"]))
    return str(tid)


def replay(ctx, path):
    obj = json.load(open(path))
    ctx.seed = obj.get("seed", ctx.seed)
    ctx.tier = obj.get("tier", ctx.tier)
    return run(ctx)
