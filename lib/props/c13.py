"""C13 - the shipped API layer is a faithful translation of the shipped TL schema."""
import hashlib
import json
import re

from .. import common as C
from . import c13m
from . import tlcommon as T
from . import tlschema

PROPS = ["theories/Props/C13.v", "theories/Inst/C13i.v"]


def parse_report(log):
    m = re.search(r'"C13-REPORT".*?: string \*', log, re.S)
    rep = {}
    if not m:
        return rep
    txt = m.group(0)
    for k in ("api_mismatch_ids", "mt_mismatch_ids", "bad_crc_lines", "not_in_schema", "bad_wrappers", "name_mismatch_ids", "counts"):
        mm = re.search(r'\("%s",\s*\[(.*?)\]\)' % k, txt, re.S)
        if mm:
            rep[k] = [int(x) for x in re.findall(r"\d+", mm.group(1))]
    return rep


def run(ctx):
    prep = T.prepare(ctx)
    tlschema.write_schema_v()
    pr = C.coq_props(PROPS)
    rep = parse_report(pr["log"])
    ids = T.schema_ids()
    names = prep["names"]
    by_crc = {}
    for s in prep["structs"]:
        if s["crc"] != "nocrc":
            by_crc.setdefault(int(s["crc"]), []).append(s)
    reg_name = {int(crc): k for crc, k in prep["regl"]}

    def describe(crc):
        ss = by_crc.get(crc, [])
        return "; ".join("%s{%s}" % (s["name"], ", ".join("%s %s %s" % f for f in s["fields"])) for s in ss) or ("registered as " + reg_name.get(crc, "nothing"))

    explained = set()
    for crc in rep.get("api_mismatch_ids", []) + rep.get("mt_mismatch_ids", []):
        line = ids.get(crc, ("?", "?"))
        C.violation(ctx, "mismatch:%08x" % crc,
                    "schema definition `%s` is not matched by the registered Go type: %s" % (line[1][:200], describe(crc)[:300]),
                    {"schema_line": line[1], "go_type": describe(crc), "constructor_id": "%08x" % crc})
        explained.add("theories/Inst/C13i.v")
    for crc in rep.get("name_mismatch_ids", []):
        line = ids.get(crc, ("?", "?"))
        C.violation(ctx, "names:%08x" % crc,
                    "the fields of the registered Go type do not follow the parameter names of `%s` in order: %s" % (line[1][:200], describe(crc)[:300]),
                    {"schema_line": line[1], "go_type": describe(crc), "constructor_id": "%08x" % crc})
        explained.add("theories/Inst/C13i.v")
    for crc in rep.get("bad_crc_lines", []):
        line = ids.get(crc, ("?", "?"))
        C.violation(ctx, "crc:%08x" % crc, "the id written in `%s` is not the CRC-32 of the canonical line" % line[1][:200],
                    {"schema_line": line[1]})
        explained.add("theories/Inst/C13i.v")
    for crc in rep.get("not_in_schema", []):
        C.violation(ctx, "not-in-schema:%08x" % crc,
                    "constructor id %08x is registered (%s) but no definition of the shipped schema files accounts for it" % (crc, describe(crc)[:200]),
                    {"constructor_id": "%08x" % crc, "go_type": describe(crc)})
    for tid in rep.get("bad_wrappers", []):
        C.violation(ctx, "wrapper:%s" % names.get(tid, tid),
                    "hand-written wrapper %s does not carry the id / layout of its schema line: %s" % (names.get(tid, tid), describe_tid(prep, tid)),
                    {"go_type": describe_tid(prep, tid)})
        explained.add("theories/Inst/C13i.v")
    # a failed obligation that the report above does not explain is reported on its own
    for fl in pr["failed"]:
        if fl["file"] in explained:
            continue
        C.violation(ctx, "coq:" + fl["file"], "C13: %s no longer checks: %s" % (fl["file"], fl["log"][-600:]),
                    {"no_failing_input": True, "broken_obligation": fl["file"], "log": fl["log"][-2000:]})

    # correspondence: every schema-defined constructor, values marshalled by the implementation
    # against the schema-defined serialisation (shared with C02): a layout that differs shows here as bytes
    model = T.run_model(ctx, prep, with_spec=True)
    crc_of = {s["tid"]: (None if s["crc"] == "nocrc" else int(s["crc"])) for s in prep["structs"]}
    evals = 0
    nontrivial = set()
    disagreements = 0
    defs_seen = set()
    samples = []
    for f in T.iter_cases(prep["cases"]):
        if f[0] != "E":
            continue
        _, cid, tid, g, impl, det, rt = f
        if tid == "c":
            continue
        tid = int(tid)
        crc = crc_of.get(tid)
        if crc not in ids:
            continue
        m = model.get(cid)
        if not isinstance(m, tuple) or m[1] in ("illtyped", "foreign"):
            continue
        evals += 1
        ic = T.norm_class(impl)
        m = (m[0], T.split_spec(m[1])[0])
        if ic.startswith("ok"):
            defs_seen.add(crc)
            nontrivial.add(hashlib.sha1(g.encode()).hexdigest())
        if (m[1].startswith("ok") or ic.startswith("ok")) and m[1] != ic and not (m[1] == "none" and not ic.startswith("ok")):
            disagreements += 1
            C.violation(ctx, "layout:%s" % ids[crc][0],
                        "%s: a value of the registered type serialises to %s but the schema line `%s` defines %s (value %s)"
                        % (ids[crc][0], T.short(ic, 100), ids[crc][1][:160], T.short(m[1], 100), T.short(g, 120)),
                        {"kind": "E", "type": names.get(tid), "value": g, "schema_line": ids[crc][1], "expected": m[1], "got": ic})
        if len(samples) < 4 and ic.startswith("ok") and evals % 499 == 0:
            samples.append({"definition": ids[crc][1][:160], "go_type": names.get(tid), "bytes": T.short(ic, 120)})
    if not samples:
        samples.append({"note": "no sample selected"})
    mcov = c13m.stage(ctx)   # end-to-end half against the in-process server
    cov = C.proof_coverage(
        pr, "make -f Makefile.coq theories/Props/C13.vo theories/Inst/C13i.vo (coqc 8.16.1) in /verif/coq",
        T.TRUSTED_TL + ["schema-embed translator lib/props/tlschema.py (verbatim copy of the .tl files into coq/gen/SchemaText.v; parsed inside Coq)"],
        {"evaluations": evals, "distinct_nontrivial": len(nontrivial), "programs": len(ids),
         "rule": "the matcher TL/Match.v is evaluated by the Coq kernel on (registry regenerated from the tree) x (schema text of the tree): every definition of api_latest.tl and every "
                 "wire-used definition of mtproto.tl against its registered type (id, CRC-32 of the canonical line, field order, type, conditional bit, flags position), every registered id "
                 "against the schemas, the hand-written wrappers against their lines; plus values of every schema-defined constructor marshalled and compared with the schema-defined bytes. "
                 "non-trivial = distinct successfully encoded values",
         "samples": samples, "matcher_report": rep, "disagreements_checked": disagreements,
         "schema_definitions_exercised_by_values": len(defs_seen), "schema_definitions_total": len(ids),
         "generated_client_methods": "covered by the end-to-end run against the in-process server (see notes)",
         "projection": "descriptor agreement (boolean, with reasons); bytes"})
    cov.update(mcov)
    return C.finish(ctx, "proof", cov, [
        "canonical-line rule for CRC-32 as in Telethon (drop #id and ';', bytes->string, '<'->' ', '>' dropped, braces dropped, flags.N?true parameters dropped, %T -> bare constructor name)",
        "method half of the property (343 generated client methods end to end) is a correspondence, not a theorem about Go source"])


def describe_tid(prep, tid):
    for s in prep["structs"]:
        if s["tid"] == tid:
            return "%s crc=%s {%s}" % (s["name"], s["crc"], ", ".join("%s %s %s" % f for f in s["fields"]))
    return str(tid)


def replay(ctx, path):
    obj = json.load(open(path))
    ctx.seed = obj.get("seed", ctx.seed)
    ctx.tier = obj.get("tier", ctx.tier)
    return run(ctx)
