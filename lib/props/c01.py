"""C01 - TL codec round trip."""
import hashlib
import json

from .. import common as C
from . import tlcommon as T

PROPS = ["theories/Props/C01.v", "theories/Inst/C01i.v"]


def run(ctx):
    prep = T.prepare(ctx)
    pr = C.coq_props(PROPS)
    C.coq_obligation_violations(ctx, pr, "C01")
    model = T.run_model(ctx, prep)
    names = prep["names"]
    evals = 0
    nontrivial = set()
    disagreements = 0
    samples = []
    kinds = {}
    canon_ids = prep.get("canonical_ids", set())
    exact = {}          # encoding (hex) of a canonical value -> its abstraction: decoding must give back the value ITSELF
    exact_checked = 0
    for f in T.iter_cases(prep["cases"]):
        if f[0] == "E":
            _, cid, tid, g, impl, det, rt = f
            evals += 1
            if cid in canon_ids and impl.startswith("ok:") and tid != "c":
                exact.setdefault((tid, impl[3:]), g)
            name = "objects.MessageContainer" if tid == "c" else names.get(int(tid), tid)
            m = model.get(cid, "missing")
            ic = T.norm_class(impl)
            if ic.startswith("ok"):
                nontrivial.add(hashlib.sha1(g.encode()).hexdigest())
            if det != "1":
                C.violation(ctx, "nondeterministic:" + name, "Marshal(%s) twice gives different bytes: %s" % (name, T.short(g)),
                            {"kind": "E", "type": name, "value": g})
            if rt.startswith("fail"):
                what = rt.split(":")[1]
                C.violation(ctx, "roundtrip:%s:%s" % (name, what),
                            "round trip of %s fails (%s): value %s encodes to %s" % (name, rt[:80], T.short(g), T.short(impl)),
                            {"kind": "E", "type": name, "value": g, "impl_bytes": impl, "oracle": "Decode(Marshal(v)) re-marshals to the same bytes", "got": rt})
                continue
            if m == "unsupported":
                continue
            if m != ic:
                disagreements += 1
                C.violation(ctx, "encode:%s:%s" % (name, hashlib.sha1(g.encode()).hexdigest()[:8]),
                            "Marshal(%s): model (proved to round-trip) gives %s, implementation gives %s for %s"
                            % (name, T.short(m), T.short(ic), T.short(g)),
                            {"kind": "E", "type": name, "value": g, "expected": m, "got": ic, "oracle": "model TL/Codec.v enc"})
            if len(samples) < 5 and ic.startswith("ok") and evals % 397 == 0:
                samples.append({"type": name, "value": T.short(g, 300), "bytes": T.short(ic, 200)})
        elif f[0] == "D":
            _, cid, mode, hints, hx, impl = f
            # only the decode-of-valid-encoding cases belong to C01 (arbitrary bytes are C15's)
            evals += 1
            m = model.get(cid, "missing")
            ic = T.norm_class(impl)
            if m == "FUEL":
                raise C.BuildError("model ran out of fuel on case %s" % cid)
            # exact round trip (C01_roundtrip_exact*): the encoding of a CANONICAL value decodes to that very value
            if mode.startswith("n") and hints == "-" and (mode[1:], hx) in exact:
                exact_checked += 1
                want = "ok:" + exact[(mode[1:], hx)]
                if ic != want:
                    C.violation(ctx, "roundtrip-exact:%s:%s" % (names.get(int(mode[1:]), mode), hashlib.sha1(hx.encode()).hexdigest()[:8]),
                                "Decode(Marshal(v)) of the canonical value %s gives %s" % (T.short(exact[(mode[1:], hx)]), T.short(ic)),
                                {"kind": "D", "mode": mode, "hints": hints, "hex": hx, "expected": want, "got": ic,
                                 "oracle": "C01_roundtrip_exact_named: a canonical value comes back unchanged"})
            if m != ic and (ic.startswith("ok") or m.startswith("ok")):
                disagreements += 1
                C.violation(ctx, "decode:%s:%s" % (mode, hashlib.sha1(hx.encode()).hexdigest()[:8]),
                            "decode (%s, hints %s) of %s: model gives %s, implementation gives %s"
                            % (mode, hints, T.short(hx), T.short(m), T.short(ic)),
                            {"kind": "D", "mode": mode, "hints": hints, "hex": hx, "expected": m, "got": ic, "oracle": "model TL/Codec.v dec"})
        elif f[0] == "G":
            evals += 1
            if f[2] != "ok":
                # the known finding is exactly the "not implemented" panic of GzipPacked.MarshalTL; anything else is new
                txt = ""
                if f[3].startswith("panic:"):
                    try:
                        txt = bytes.fromhex(f[3][6:]).decode("utf-8", "replace")
                    except ValueError:
                        txt = f[3]
                key = "marshal-gzip" if (f[2] == "panic" and "not implemented" in txt) else "marshal-gzip:other"
                C.violation(ctx, key, "tl.Marshal(&objects.GzipPacked{Obj: ...}) does not serialise: %s %s" % (f[2], (txt or f[3])[:120]),
                            {"kind": "G", "value": "objects.GzipPacked{Obj: &tl.PseudoTrue{}}", "expected": "bytes", "got": f[3]})
        elif f[0] == "B":
            _, cid, tid, n, cls, hdr = f
            evals += 1
            n = int(n)
            tname = names.get(int(tid), tid)
            want = "ok" if n < (1 << 24) else "err"
            whdr = "fe" + n.to_bytes(3, "little").hex() if want == "ok" else "-"
            if cls != want or (want == "ok" and hdr != whdr):
                C.violation(ctx, "bytes-length:%s:%d" % (tname, n),
                            "%s with a string/bytes field of %d bytes: expected %s with length header %s, implementation: %s (header %s)" % (tname, n, want, whdr, cls, hdr),
                            {"kind": "B", "type": tname, "length": n, "expected": want, "expected_header": whdr, "got": cls, "header": hdr})
        elif f[0] == "G":
            _, cid, what, where = f[:4]
            evals += 1
            C.violation(ctx, "marshal-writes-into-its-argument",
                        "tl.Marshal(%s) wrote into the caller's memory behind a byte string of the value it was given (%s): a value cut "
                        "out of a larger buffer is no longer equal to the original, nor is whatever lies behind it"
                        % (T.short(what, 80), bytes.fromhex(where).decode("utf-8", "replace")),
                        {"kind": "G", "value": what, "where": bytes.fromhex(where).decode("utf-8", "replace"),
                         "oracle": "every generated []byte is a sub-slice (cap = len + 6) of an array whose tail holds 0xc3; after two "
                                   "Marshal calls the tail must still hold it"})
        elif f[0] == "A":
            _, cid, what, was, now, after = f
            evals += 1
            C.violation(ctx, "marshal-result-overwritten",
                        "bytes returned by tl.Marshal(%s) changed after a later tl.Marshal(%s): were %s, are %s"
                        % (T.short(what, 80), T.short(after, 80), T.short(was, 80), T.short(now, 80)),
                        {"kind": "A", "first_value": what, "later_value": after, "bytes_returned": was, "bytes_now": now,
                         "oracle": "a returned encoding is the caller's: it must not change when the library is used again"})
    if not samples:
        samples.append({"note": "no sample selected"})
    cov = C.proof_coverage(
        pr, "make -f Makefile.coq theories/Props/C01.vo theories/Inst/C01i.vo (coqc 8.16.1) in /verif/coq",
        T.TRUSTED_TL,
        {"evaluations": evals, "distinct_nontrivial": len(nontrivial),
         "rule": "per struct type of the universe (registered constructors, hand-written wrappers, pseudo objects): all-absent, all-present, every presence "
                 "pattern of every shared flag group, random values (boundary string lengths 0..8/252..257/65535..65537, int/long/double extremes, every enum member, "
                 "128/256-bit integers with leading zero bytes, nil/empty/1/2/17-element vectors, nested interface values); each is marshalled twice, decoded by name and by id, "
                 "re-marshalled, and compared with the extracted Coq enc/dec; plus the 2^24-1 / 2^24 / 2^24+1 byte strings and strings (length header compared); every returned encoding is "
                 "kept (the slice as returned) and compared with its snapshot after each of the next 8 Marshal calls. "
                 "non-trivial = distinct values whose encoding succeeded",
         "samples": samples, "input_distribution": prep["stats"], "disagreements_checked": disagreements,
         "values_by_theorem_domain": {"inside_wt and canonical (exact round trip: decoded value = original)": prep.get("domain", {}).get("wt-canonical", 0),
                                      "canonical values whose decode was compared with the original": exact_checked,
                                      "inside_wt, not canonical (round trip up to norm)": prep.get("domain", {}).get("wt", 0),
                                      "outside_wt (compared by result class and bytes only)": prep.get("domain", {}).get("illtyped", 0),
                                      "msg_container (hand-written codec; C01_container_roundtrip + correspondence)": prep.get("domain", {}).get("c", 0),
                                      "not representable in the model (skipped)": prep.get("domain", {}).get("unsupported", 0)},
         "types_in_universe": len(prep["structs"]), "registered_ids": len(prep["regl"]), "types_found_by_source_scan": prep["nscanned"],
         "projection": "result class ok/err/panic, produced bytes, abstracted decoded value; error texts not compared"})
    return C.finish(ctx, "proof", cov, [
        "Go values outside the typing predicate wt (nil in a mandatory pointer/interface field, big integers >= 2^128/2^256) are compared by result class only",
        "GzipPacked cannot be marshalled by the library (MarshalTL panics): decode-only, see KNOWN_FINDINGS"])


def replay(ctx, path):
    obj = json.load(open(path))
    ctx.seed = obj.get("seed", ctx.seed)
    ctx.tier = obj.get("tier", ctx.tier)
    rc = run(ctx)
    return rc


def pregen(ctx):
    from . import tlreg
    hb, _ = T.build_tl_harness(ctx)
    reg = ctx.work + "/registry.txt"
    C.sh([hb, "registry", reg], env=ctx.env(), timeout=300)
    tlreg.write_registry_v(reg)
