"""C16 - no server message can kill the client process or stop its receive loop; reconnect keeps the key
(client as LTS: Coq invariants + existence of a completing probe over all histories of Client/Live.v, trace
validation of the real client against the extracted step2, every schedule in a supervised child process)."""
from .. import common as C
from . import live_common as L

RULE = (
    "schedules are drawn while they run (splitmix64 stream seeded with VERIF_SEED), 1-4 callers; besides calls, goroutine releases and "
    "answers the server sends 1-6 hostile messages per schedule: bodies the decoder refuses (unregistered constructor id, "
    "new_session_created and rpc_result cut short, fewer than four bytes, msg_container announcing more messages than it carries), "
    "frames the transport refuses (4-byte error code -404, ciphertext cut short, flipped ciphertext byte, even msg_id, unknown "
    "auth_key_id), bad_msg_notification for a pending / answered / unknown id, rpc_result for an id never used, for an id already "
    "answered and for the first attempt of a retried request, empty and nested containers, a container whose middle item is undecodable, "
    "gzip_packed with a valid header and complete data but a flipped CRC-32 trailer / flipped ISIZE / a wrong byte in the middle of the "
    "deflate data (at top level around pong, an unhandled object or a container, and inside rpc_result for a pending or an unknown id; "
    "what a standard gzip reader makes of each stream is checked by the harness with compress/gzip), "
    "every registered MTProto service constructor without a case of its own (incl. the key-exchange constructors and client-side "
    "constructors echoed back) and API update objects, plain, gzip-packed once or twice; bad_server_salt / new_session_created; the "
    "Warnings channel is nil, buffered with capacity 1 / 1-3 / 64 and drained at random moments or never, or unbuffered with a live reader; "
    "handlers: none, one accepting everything, one that declines, one that declines followed by one that accepts; the server closes the "
    "connection between messages 0-3 times; every 10th schedule is a "
    "fresh session (key exchange in the same process). Every schedule ends with the closing procedure: run everything that is enabled, "
    "answer what is open, then a probe call of a new caller that must return its answer. The pinned schedules cover every service "
    "constructor one by one, an unbuffered Warnings channel without reader, two closes, close of a freshly keyed session. Each schedule "
    "batch runs in a child process: death of the process is observed by the supervisor and named after the message the receive loop was "
    "working on; a stall - blocked or spinning - is observed by the scheduler's watchdog with a goroutine dump that names the client function the receive "
    "loop is in (after a stall the worker process is replaced). Direct oracles: process alive, no stall, probe "
    "completed, every call the server answered (also as a later item of a container whose earlier items cannot be handled) returned, no "
    "plain frame and no second key exchange after a close. Each action's projection must equal the extracted step2's "
    "(incl. length of the Warnings channel, handler count, connection generation). Non-trivial = distinct schedule with a hostile message "
    "or a close in which a call completed.")


def run(ctx):
    pr = C.coq_props(["theories/Props/C16.v"])
    C.coq_obligation_violations(ctx, pr, "C16")
    ctx.seed_shift = 2
    n = 150 if ctx.tier == "quick" else 4000
    # the whole constructor registry as updates: every constructor once (quick) / in three variants (thorough)
    sweep = [("registry", "c16r", "random", "all1" if ctx.tier == "quick" else "all")]
    stats, validated, dis, distinct, samples, exh = L.run_batches(
        ctx, "C16", "c16", n, [L.PINNED + "/pinned-c16.script"], (), sweep)
    if ctx.tier == "thorough":
        L.coqchk(ctx, "C16", exh)
    return L.finish(ctx, "C16", pr, stats, validated, dis, distinct, samples, exh, RULE, L.PROJECTION)


def replay(ctx, path):
    r = L.replay(ctx, "C16", path)
    return run(ctx) if r is None else r
