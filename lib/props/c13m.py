"""C13, method half: every generated method of *telegram.Client (methods_gen.go) and the hand-written
wrappers (methods_special.go) called end to end against the in-process reference server.

stage(ctx) -> dict of coverage additions; violations are recorded with C.violation(ctx, "method:<Name>:<what>", ...).

Oracles (the Go harness harness/root/cmd/e2e only records observations):
 1. request bytes the server received == spec(abs P) of the extracted Coq TL model (TL/Spec.v, schema parsed inside
    Coq), P = the <Name>Params value holding argument k in field k (= schema parameter k by Inst/C13i.v);
 2. constructor id on the wire == id of the schema function whose name is the method's name;
 3. value returned by the method == decode of the reply bytes by the extracted Coq decoder (TL/Codec.v) with the
    method's hint, and the reply was drawn from the SCHEMA's result type of the function (a constructor of that type /
    Bool / Vector<...>) and is assignable to the method's Go result type;
 4. no panic, no hang, no process death, exactly one request frame per call.
"""
import json
import os
import re
import shutil
import time

from .. import common as C
from . import tlcommon as T

MAX_RESTARTS = 12


def build_e2e():
    """cmd/e2e with the scanned type list of the tree (same list as cmd/tl: same struct ids)."""
    items = T.scan_types()
    gen = ["package main", "", "import ("]
    for p, (imp, _) in T.PKGS.items():
        gen.append('\t%s "%s"' % (p, imp))
    gen += [")", "", "var _ = tl.CrcVector", "", "var scanned = []interface{}{"]
    for p, star, name in items:
        gen.append("\t&%s.%s{}," % (p, name) if star else "\t*new(%s.%s)," % (p, name))
    gen.append("}")
    od = C.BUILD + "/overlay"
    os.makedirs(od, exist_ok=True)
    gpath = od + "/e2e_scanned.go"
    C.write_atomic(gpath, "\n".join(gen) + "\n")
    ov = od + "/e2e_overlay.json"
    C.write_atomic(ov, json.dumps({"Replace": {C.V + "/harness/root/cmd/e2e/scanned.go": gpath}}))
    return C.build_harness("root", pkg="./cmd/e2e", extra=["-overlay", ov])


def scratch_env(ctx, work):
    """environment of an e2e harness run: its scratch files live below <work>/scratch (outside /repo and /verif/harness), removed afterwards"""
    e = ctx.env()
    os.makedirs(work + "/scratch", exist_ok=True)
    e["VERIF_E2E_SCRATCH"] = work + "/scratch"
    return e


def unhex(h):
    return b"" if h in ("-", "") else bytes.fromhex(h)


def show(h):
    return unhex(h).decode("utf-8", "backslashreplace")


def source_methods():
    """independent enumeration: func (x *Client) Name( in the two source files of the tree"""
    out = {}
    for fn in ("methods_gen.go", "methods_special.go"):
        p = "%s/telegram/%s" % (C.REPO, fn)
        txt = open(p, encoding="utf-8", errors="replace").read()
        for m in re.finditer(r"^func \(\w+ \*Client\) ([A-Z]\w*)\(", txt, re.M):
            out[m.group(1)] = fn
    return out


def schema_functions():
    """name -> (id, result type) of the functions section, read from the text independently of the harness"""
    fns = {}
    infn = False
    for line in open(T.schema_paths()[0], encoding="latin-1"):
        line = line.strip()
        if line == "---functions---":
            infn = True
            continue
        if line == "---types---":
            infn = False
            continue
        m = re.match(r"^([A-Za-z0-9_.]+)#([0-9a-fA-F]+)\s.*=\s*(.+?);$", line)
        if m and infn:
            fns[m.group(1)] = (int(m.group(2), 16), m.group(3).strip())
    return fns


def norm_name(s):
    return s.replace(".", "").replace("_", "").lower()


def unwrap_model_value(dres, true_tid, false_tid):
    """model decode result -> what makeRequest's UnwrapNativeTypes hands to the method"""
    if not dres.startswith("ok:"):
        return None
    v = dres[3:]
    if v.startswith("w"):
        return v[1:]
    if v == "o%d()" % true_tid:
        return "t"
    if v == "o%d()" % false_tid:
        return "f"
    return v


def stage(ctx):
    t0 = time.time()
    hb = build_e2e()
    work = ctx.work + "/methods"
    os.makedirs(work, exist_ok=True)
    for f in ("mcalls.txt", "mcases.txt", "registry.txt"):
        if os.path.exists(work + "/" + f):
            os.remove(work + "/" + f)
    api = T.schema_paths()[0]
    died = []
    frm = 0
    restarts = 0
    while True:
        args = [hb, "methods", ctx.tier, work, api] + (["from=%d" % frm] if frm else [])
        rc, out = C.sh(args, env=scratch_env(ctx, work), timeout=2400 if ctx.tier == "thorough" else 600)
        shutil.rmtree(work + "/scratch", ignore_errors=True)
        rows = C.read_tsv(work + "/mcalls.txt") if os.path.exists(work + "/mcalls.txt") else []
        if rows and rows[-1][0] == "END":
            break
        # the process died (a panic outside the calling goroutine kills it) or was killed by the timeout
        last_b = None
        done = set(r[1] for r in rows if r[0] == "C")
        for r in rows:
            if r[0] == "B" and r[1] not in done:
                last_b = r
        if last_b is None or restarts >= MAX_RESTARTS:
            raise C.BuildError("e2e methods harness failed (rc=%s) outside a call: %s" % (rc, out[-3000:]))
        died.append((last_b, rc, out[-3000:]))
        frm = int(last_b[1])
        restarts += 1
    cov = judge(ctx, work, rows, died)
    cov["methods_stage_wall_s"] = round(time.time() - t0, 1)
    return {"generated_client_methods": cov}


def judge(ctx, work, rows, died):
    # model run: spec(abs P) for the E lines, decode for the D lines
    C.build_model("TL")
    mout = work + "/mmodel.txt"
    C.run_model("TL", work + "/mcases.txt", mout, args=[work + "/registry.txt"] + T.schema_paths(), timeout=3000)
    model = {}
    for f in C.read_tsv(mout):
        model[f[0]] = f[1:]
    true_tid = false_tid = -1
    for f in C.read_tsv(work + "/registry.txt"):
        if f[0] == "struct" and f[2] == "tl.PseudoTrue":
            true_tid = int(f[1])
        if f[0] == "struct" and f[2] == "tl.PseudoFalse":
            false_tid = int(f[1])

    src = source_methods()
    fns = schema_functions()
    fn_by_norm = {}
    for n, v in fns.items():
        fn_by_norm.setdefault(norm_name(n), []).append((n,) + v)

    meth = {}
    for r in rows:
        if r[0] == "M":
            meth[r[1]] = {"file": r[2], "style": r[3], "params": r[4], "fid": r[5], "result": r[6], "type": r[7], "sig": show(r[8])}
    # enumeration by reflection == enumeration by source text
    if set(meth) != set(src):
        C.violation(ctx, "methods:enumeration",
                    "methods found by reflection and by the source text differ: only reflected %s, only in source %s"
                    % (sorted(set(meth) - set(src))[:5], sorted(set(src) - set(meth))[:5]),
                    {"no_failing_input": True, "only_reflected": sorted(set(meth) - set(src)), "only_source": sorted(set(src) - set(meth))})
    for n, m in sorted(meth.items()):
        if m["sig"]:
            C.violation(ctx, "method:%s:signature" % n, "method %s does not have the shape its parameter struct %s implies: %s"
                        % (n, m["params"], m["sig"]), {"no_failing_input": True, "method": n, "go_type": m["type"], "problem": m["sig"]})
        if m["file"] != "methods_gen.go":
            continue
        cands = fn_by_norm.get(norm_name(n), [])
        if len(cands) != 1:
            C.violation(ctx, "method:%s:no-function" % n, "generated method %s corresponds to %d functions of the schema" % (n, len(cands)),
                        {"no_failing_input": True, "method": n, "candidates": [c[0] for c in cands]})
            continue
        if m["fid"] != "%08x" % cands[0][1] or m["result"] != cands[0][2]:
            C.violation(ctx, "method:%s:harness-schema" % n, "harness and check read the schema line of %s differently: %s/%s vs %08x/%s"
                        % (cands[0][0], m["fid"], m["result"], cands[0][1], cands[0][2]), {"no_failing_input": True, "method": n})

    for (b, rc, out) in died:
        n = b[2]
        C.violation(ctx, "method:%s:process-died" % n,
                    "calling %s (%s arguments) killed the process (rc=%s): %s" % (n, b[3], rc, out[-500:]),
                    {"method": n, "pattern": b[3], "call_id": b[1], "expected": "the method returns", "got": "process death", "log": out[-2500:]})

    stats = {"calls": 0, "request_bytes_compared": 0, "request_bytes_total": 0, "replies_compared": 0, "send_refused_consistently": 0,
             "outside_spec": 0}
    kinds = {}
    per_method_ok = {}
    per_method_calls = {}
    patterns = {}
    ctors_used = set()
    samples = []
    gz = 0
    for r in rows:
        if r[0] != "C":
            continue
        cid, n, mode, how = r[1], r[2], r[3], r[4]
        if how == "noreply":
            C.violation(ctx, "method:%s:no-reply" % n, "no reply could be drawn from the schema for %s: %s" % (n, show(r[5])),
                        {"no_failing_input": True, "method": n, "pattern": mode})
            continue
        if how != "ran":
            continue
        (status, err, nframes, rcrc, rhex, fid, pcrc, result, rkind, ctor, kinderr, generr,
         ret_abs, sent_abs, reply_hex, inner, args_hex, detail_hex, gzflag) = r[5:24]
        stats["calls"] += 1
        per_method_calls[n] = per_method_calls.get(n, 0) + 1
        patterns[mode] = patterns.get(mode, 0) + 1
        nframes = int(nframes)
        args_txt = show(args_hex)
        me = model.get("e" + cid)
        md = model.get("d" + cid)
        base = {"method": n, "pattern": mode, "arguments": args_txt[:3000], "schema_function_id": fid, "schema_result": result,
                "reply_constructor": ctor, "reply_bytes": reply_hex[:2000], "inner_query": inner}

        def bad(what, text, expected, got):
            rep = dict(base)
            rep.update({"expected": expected, "got": got})
            C.violation(ctx, "method:%s:%s" % (n, what), "%s(%s): %s" % (n, T.short(args_txt, 200), text), rep)

        if status == "panic":
            bad("panic", "panics: %s" % show(detail_hex)[:300], "a result or an error", "panic: " + show(detail_hex)[:600])
            continue
        if status == "hang":
            bad("hang", "does not return within the watchdog", "a result or an error", "no return; goroutines:\n" + show(detail_hex)[:3000])
            continue
        enc = me[0] if me else "missing"
        spec, conforms = T.split_spec(me[1]) if me and len(me) > 1 else ("missing", True)
        if show(kinderr):
            bad("result-kind", "the schema's result type and the method's Go result type disagree: %s" % show(kinderr),
                "a Go result type holding every constructor of %s" % result, show(kinderr))
            continue
        if err == "error" and nframes == 0:
            # refused before sending: the encoder's model must refuse the same value
            if enc == "err" or spec in ("none",):
                stats["send_refused_consistently"] += 1
            else:
                bad("send-refused", "returns an error without sending although the request is encodable",
                    "request sent: " + T.short(spec, 300), "error: " + show(detail_hex)[:300])
            continue
        rejected = "+rejected-once" in gzflag
        if rejected:
            stats["calls_whose_first_copy_was_rejected_with_bad_server_salt"] = stats.get("calls_whose_first_copy_was_rejected_with_bad_server_salt", 0) + 1
        if nframes != (2 if rejected else 1):
            bad("frames", "%d request frames reached the server%s" % (nframes, " (the first copy was rejected with bad_server_salt)" if rejected else ""),
                "%d request frame(s)" % (2 if rejected else 1), "%d frames" % nframes)
            continue
        if rejected and "+resent-equal" not in gzflag:
            bad("resent-differs", "the request sent again after bad_server_salt is not the request that was rejected", "the same request bytes", "other bytes")
            continue
        if rhex == "unopenable" or rhex.startswith("plain:"):
            bad("envelope", "request left the client %s" % rhex[:12], "an encrypted frame under the session key", rhex[:80])
            continue
        stats["request_bytes_total"] += len(rhex) // 2
        # (2) constructor id = the schema function's id (generated methods: the function of the same name)
        if fid != "-" and rcrc != fid:
            bad("constructor", "sent constructor %s, the schema function has id %s" % (rcrc, fid), fid, rcrc)
            continue
        # (1) bytes = schema-defined serialisation of the function applied to the arguments in schema order
        if spec.startswith("ok:"):
            stats["request_bytes_compared"] += len(rhex) // 2
            if spec[3:] != rhex:
                want, got = spec[3:], rhex
                k = 0
                while k < min(len(want), len(got)) and want[k] == got[k]:
                    k += 1
                bad("request-bytes", "request differs from the schema-defined serialisation at byte %d" % (k // 2),
                    "spec(abs P) = " + want[:4000], "received = " + got[:4000])
                continue
            per_method_ok[n] = per_method_ok.get(n, 0) + 1
        else:
            stats["outside_spec"] += 1
        if err != "nil":
            bad("error", "returns an error although the server answered with a value of the declared kind: %s" % show(detail_hex)[:200],
                "the value sent (%s)" % T.short(sent_abs, 200), "error")
            continue
        # (3) returned value = what the server sent
        want = unwrap_model_value(md[0], true_tid, false_tid) if md else None
        if want is not None and meth.get(n, {}).get("file") != "methods_gen.go" and rkind == "Bool":
            want = md[0][3:]   # the generic wrappers return tl.Object: a Bool answer comes back as the boolTrue / boolFalse object
        if want is None:
            C.violation(ctx, "method:%s:reply-model" % n, "the decoder model does not decode the reply drawn for %s: %s" % (n, md),
                        dict(base, no_failing_input=True))
            continue
        stats["replies_compared"] += 1
        if ret_abs != want:
            bad("result", "returns a value different from the one the server sent", "decode(reply) = " + want[:3000], "returned = " + ret_abs[:3000])
            continue
        kinds[rkind] = kinds.get(rkind, 0) + 1
        if gzflag == "gzip":
            gz += 1
        for c in ctor.split(","):
            if c:
                ctors_used.add(c)
        if len(samples) < 5 and stats["calls"] % 151 == 7:
            samples.append({"method": n, "arguments": T.short(args_txt, 160), "request_bytes": T.short(rhex, 120),
                            "reply": rkind + " " + ctor, "returned": T.short(ret_abs, 120)})

    gen = [n for n, m in meth.items() if m["file"] == "methods_gen.go"]
    spc = [n for n, m in meth.items() if m["file"] != "methods_gen.go"]
    never = sorted(n for n in meth if per_method_ok.get(n, 0) == 0)
    reported = set(k.split(":")[1] for (k, _, _) in ctx.violations if k.startswith("method:"))
    for n in never:
        if n not in reported:
            C.violation(ctx, "method:%s:not-compared" % n, "no call of %s could be compared with the schema-defined bytes" % n,
                        {"no_failing_input": True, "method": n})
    if not samples:
        samples.append({"note": "no sample selected"})
    return {
        "methods_generated": len(gen), "methods_special": len(spc), "schema_functions": len(fns),
        "methods_with_request_bytes_equal_to_spec": len([n for n in meth if per_method_ok.get(n, 0) > 0]),
        "calls": stats["calls"], "calls_by_argument_pattern": patterns,
        "request_bytes_compared": stats["request_bytes_compared"], "replies_compared_with_model_decode": stats["replies_compared"],
        "result_kinds": kinds, "reply_constructors_used": len(ctors_used), "replies_gzip_packed": gz,
        "refused_before_sending_consistently_with_encoder_model": stats["send_refused_consistently"],
        "calls_outside_spec_subset": stats["outside_spec"], "process_deaths": len(died),
        "calls_whose_first_copy_was_rejected_with_bad_server_salt": stats.get("calls_whose_first_copy_was_rejected_with_bad_server_salt", 0),
        "rule": "every method of *telegram.Client whose code lies in methods_gen.go / methods_special.go (reflection + runtime.FuncForPC, cross-checked "
                "with the source text); per argument pattern a <Name>Params value with a different non-zero value in every field "
                "(ints 1000+k, longs 10^12+k, strings arg<k>, bools by bit patterns, objects/vectors from the tlh generator), call arguments derived from it; "
                "reply drawn from the schema's result type of the function of the same name; request bytes vs spec(abs P) and returned value vs decode(reply) "
                "of the extracted TL model",
        "samples": samples,
    }


def replay(ctx, path):
    """re-run the stage under the replay's tier and seed; the finding is reproduced iff its key is reported again"""
    obj = json.load(open(path))
    ctx.tier = obj.get("tier", ctx.tier)
    ctx.seed = obj.get("seed", ctx.seed)
    stage(ctx)
    hit = [v for v in ctx.violations if v[0] == obj.get("key")]
    print("method=%s arguments=%s\n expected=%s\n got=%s" % (obj.get("method"), T.short(str(obj.get("arguments")), 300), T.short(str(obj.get("expected")), 600),
                                                             T.short(str(hit[0][2].get("got")), 600) if hit else "as expected"))
    if hit:
        print("VIOLATION property=%s replay=%s" % (ctx.prop, path))
        return 1
    return 0
