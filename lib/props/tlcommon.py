"""Shared by the TL family (C01, C02, C13, C15): source scan for CRC() methods, harness build with
the generated type list, registry translation into coq/gen/Registry.v, case generation."""
import glob
import json
import os
import re

from .. import common as C

PKGS = {
    "telegram": ("github.com/xelaj/mtproto/telegram", "telegram"),
    "objects": ("github.com/xelaj/mtproto/internal/mtproto/objects", "internal/mtproto/objects"),
    "tl": ("github.com/xelaj/mtproto/internal/encoding/tl", "internal/encoding/tl"),
}
SKIP = {("tl", "WrappedSlice")}  # decode-only carrier, handled specially by the abstraction


def scan_types():
    """typeenum translator: every exported type with a CRC() uint32 method in the three packages."""
    items = []
    for p, (_, d) in PKGS.items():
        for f in sorted(glob.glob("%s/%s/*.go" % (C.REPO, d))):
            if f.endswith("_test.go") or os.path.basename(f).startswith("verif_"):
                continue
            for m in re.finditer(r"^func \((?:\w+\s+)?(\*?)(\w+)\) CRC\(\) uint32", open(f).read(), re.M):
                star, name = m.groups()
                if name[0].isupper() and (p, name) not in SKIP:
                    items.append((p, star, name))
    return sorted(set(items))


def build_tl_harness(ctx):
    items = scan_types()
    gen = ["package main", "", "import ("]
    for p, (imp, _) in PKGS.items():
        gen.append('\t%s "%s"' % (p, imp))
    gen += [")", "", "var _ = tl.CrcVector", "", "var scanned = []interface{}{"]
    for p, star, name in items:
        gen.append("\t&%s.%s{}," % (p, name) if star else "\t*new(%s.%s)," % (p, name))
    gen.append("}")
    od = C.BUILD + "/overlay"
    os.makedirs(od, exist_ok=True)
    gpath = od + "/tl_scanned.go"
    with open(gpath, "w") as f:
        f.write("\n".join(gen) + "\n")
    ov = od + "/tl_overlay.json"
    with open(ov, "w") as f:
        json.dump({"Replace": {C.V + "/harness/root/cmd/tl/scanned.go": gpath}}, f)
    return C.build_harness("root", pkg="./cmd/tl", extra=["-overlay", ov]), len(items)
