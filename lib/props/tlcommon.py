"""Shared by the TL family (C01, C02, C13, C15): source scan for CRC() methods, harness build with
the generated type list, registry translation into coq/gen/Registry.v, case generation."""
import glob
import json
import os
import re

from .. import common as C

PKGS = {
    "telegram": ("github.com/xelaj/mtproto/telegram", "telegram"),
    "objects": ("github.com/xelaj/mtproto/internal/mtproto/objects", "internal/mtproto/objects"),
    "tl": ("github.com/xelaj/mtproto/internal/encoding/tl", "internal/encoding/tl"),
}
SKIP = {("tl", "WrappedSlice")}  # decode-only carrier, handled specially by the abstraction


def scan_types():
    """typeenum translator: every exported type with a CRC() uint32 method in the three packages."""
    items = []
    for p, (_, d) in PKGS.items():
        for f in sorted(glob.glob("%s/%s/*.go" % (C.REPO, d))):
            if f.endswith("_test.go") or os.path.basename(f).startswith("verif_"):
                continue
            for m in re.finditer(r"^func \((?:\w+\s+)?(\*?)(\w+)\) CRC\(\) uint32", open(f).read(), re.M):
                star, name = m.groups()
                if name[0].isupper() and (p, name) not in SKIP:
                    items.append((p, star, name))
    return sorted(set(items))


def build_tl_harness(ctx):
    items = scan_types()
    gen = ["package main", "", "import ("]
    for p, (imp, _) in PKGS.items():
        gen.append('\t%s "%s"' % (p, imp))
    gen += [")", "", "var _ = tl.CrcVector", "", "var scanned = []interface{}{"]
    for p, star, name in items:
        gen.append("\t&%s.%s{}," % (p, name) if star else "\t*new(%s.%s)," % (p, name))
    gen.append("}")
    od = C.BUILD + "/overlay"
    os.makedirs(od, exist_ok=True)
    gpath = od + "/tl_scanned.go"
    C.write_atomic(gpath, "\n".join(gen) + "\n")
    ov = od + "/tl_overlay.json"
    C.write_atomic(ov, json.dumps({"Replace": {C.V + "/harness/root/cmd/tl/scanned.go": gpath}}))
    return C.build_harness("root", pkg="./cmd/tl", extra=["-overlay", ov]), len(items)


def prepare(ctx):
    """Build harness from the tree, translate the registry (-> coq/gen/Registry.v), generate
    cases with the implementation's results, run the extracted model on them.
    Returns dict(reg=..., cases=path, model={id: result}, stats=..., names={tid: name})."""
    from . import tlreg
    hb, nscanned = build_tl_harness(ctx)
    reg = ctx.work + "/registry.txt"
    rc, out = C.sh([hb, "registry", reg], env=ctx.env(), timeout=300)
    if rc != 0:
        raise C.BuildError("registry translator failed: " + out[-2000:])
    structs, enums, regl, ifaces = tlreg.write_registry_v(reg)
    cases = ctx.work + "/cases.txt"
    rc, out = C.sh("%s cases %s %s 2>%s/cases.err" % (hb, ctx.tier, cases, ctx.work), env=ctx.env(), timeout=3000)
    if rc != 0:
        raise C.BuildError("case generation failed: " + out[-2000:] + open(ctx.work + "/cases.err").read()[-2000:])
    stats = {}
    for l in out.splitlines():
        f = l.split("\t")
        if len(f) == 3 and f[0] == "stat":
            stats[f[1]] = int(f[2])
    return {"hb": hb, "reg": reg, "cases": cases, "stats": stats, "structs": structs, "enums": enums,
            "regl": regl, "nscanned": nscanned, "names": {s["tid"]: s["name"] for s in structs}}


def schema_paths():
    return [C.REPO + "/schemes/api_latest.tl", C.REPO + "/schemes/mtproto.tl"]


def run_model(ctx, prep, with_spec=False):
    """model results per case id; with_spec: E-cases get (enc result, spec(abs v) result)"""
    C.build_model("TL")
    mout = ctx.work + "/model.txt"
    args = [prep["reg"]] + (schema_paths() if with_spec else [])
    C.run_model("TL", prep["cases"], mout, args=args, timeout=3000)
    model = {}
    dom = {}
    canon = set()
    with open(mout) as f:
        for line in f:
            fs = line.rstrip("\n").split("\t")
            if with_spec and len(fs) == 3:
                model[fs[0]] = (fs[1], fs[2])
            elif len(fs) == 3:
                model[fs[0]] = fs[1]
                dom[fs[2]] = dom.get(fs[2], 0) + 1     # wt-canonical / wt / illtyped / c: is the value inside the domain of the theorems?
                if fs[2] == "wt-canonical":
                    canon.add(fs[0])
            else:
                model[fs[0]] = fs[1]
                if fs[1] == "unsupported":
                    dom["unsupported"] = dom.get("unsupported", 0) + 1
    prep["domain"] = dom
    prep["canonical_ids"] = canon
    return model


WIRE_USED = {"req_pq", "req_DH_params", "set_client_DH_params", "ping", "msgs_ack", "p_q_inner_data", "client_DH_inner_data",
             "resPQ", "server_DH_params_ok", "server_DH_params_fail", "server_DH_inner_data", "dh_gen_ok", "dh_gen_retry", "dh_gen_fail",
             "rpc_result", "rpc_error", "pong", "new_session_created", "bad_msg_notification", "bad_server_salt"}


def split_spec(x):
    """driver's spec column -> (bytes result, conforms?)"""
    if x.startswith("ok-nonconforming:"):
        return "ok:" + x[len("ok-nonconforming:"):], False
    return x, True


def schema_ids():
    """constructor ids written in the schema files (only used to select which cases C02/C13 compare)"""
    import re
    ids = {}
    for k, p in enumerate(schema_paths()):
        for line in open(p, encoding="latin-1"):
            m = re.match(r"^([A-Za-z0-9_.]+)#([0-9a-fA-F]+)\s", line)
            if m and (k == 0 or m.group(1) in WIRE_USED):   # mtproto.tl: the wire-used definitions only
                ids[int(m.group(2), 16)] = (m.group(1), line.strip())
    return ids


def iter_cases(path):
    with open(path) as f:
        for line in f:
            yield line.rstrip("\n").split("\t")


def norm_class(x):
    """implementation result -> comparable form: panic text and kind of fatal error dropped"""
    if x.startswith("panic") or x.startswith("fatal"):
        return "panic"
    return x


def short(s, n=160):
    return s if len(s) <= n else s[:n] + "...(%d chars)" % len(s)


TRUSTED_TL = [
    "registry translator harness/root/tlh/registry.go (reflection over tl.VerifRegistry() + the source scan for CRC() methods) and lib/props/tlreg.py (text -> coq/gen/Registry.v)",
    "value abstraction harness/root/tlh/abs.go (Go value -> model value text) and the OCaml parsers of coq/extract/TL/driver.ml",
    "compress/gzip enters the decoder model as the Section variable `inflate`; for execution it is an oracle table recorded per run from the real library",
    "modelled, not verified: internal/encoding/tl encoder.go, decoder.go, cursor_w.go, cursor_r.go, tag.go, common_types.go (Int128/Int256), objects/types.go container and gzip decoders, as Gallina functions in coq/theories/TL/{Types,Codec}.v",
]
