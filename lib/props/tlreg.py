"""registry.txt (translator output) -> coq/gen/Registry.v"""
import os

from .. import common as C


def fty(s):
    if s.startswith("bad"):
        return "TBad"
    m = {"i32": "TI32", "u32": "TU32", "i64": "TI64", "f64": "TF64", "bool": "TBool", "str": "TStr",
         "bytes": "TBytes", "i128": "TI128", "i256": "TI256"}
    if s in m:
        return m[s]
    if s[0] == "e":
        return "(TEnum %s)" % s[1:]
    if s[0] == "I":
        return "(TIface %s)" % s[1:]
    if s[0] == "P":
        return "(TPtr %s)" % s[1:]
    if s[0] == "V":
        return "(TVec %s)" % fty(s[1:])
    raise ValueError(s)


def tag(s):
    if s == "none":
        return "TagNone"
    if s.startswith("flag:"):
        return "(TagFlag %s)" % s[5:]
    if s.startswith("bitflag:"):
        return "(TagBit %s)" % s[8:]
    return "TagBad"


def nlist(s):
    return "[]" if s == "-" else "[" + "; ".join(s.split(",")) + "]"


def parse(path):
    structs, enums, reg, ifaces = [], [], [], []
    for line in open(path):
        f = line.rstrip("\n").split("\t")
        if f[0] == "struct":
            structs.append({"tid": int(f[1]), "name": f[2], "crc": f[3], "fi": int(f[4]), "impls": f[6], "flags": f[7], "fields": []})
        elif f[0] == "field":
            structs[-1]["fields"].append((f[1], f[2], f[3]))
        elif f[0] == "enum":
            enums.append({"eid": int(f[1]), "name": f[2], "members": f[3], "impls": f[4]})
        elif f[0] == "reg":
            reg.append((f[1], f[2]))
        elif f[0] == "iface":
            ifaces.append((int(f[1]), f[2]))
    return structs, enums, reg, ifaces


def bl(name):
    """identifier -> Coq `list N` of its bytes"""
    return "[" + "; ".join(str(b) for b in name.encode()) + "]"


def bare(name):
    """pkg.Name -> Name"""
    return name.split(".", 1)[1] if "." in name else name


def consts_path(path_txt):
    return os.path.join(os.path.dirname(os.path.abspath(path_txt)), "consts.txt")


def run_consts(path_txt):
    """second translator (harness/root/cmd/tl/consts.go): Go SOURCE of <repo>/telegram -> typed integer
    constants and declared interfaces; reflection over *telegram.Client -> interfaces that occur only as
    method results and which struct implements which interface.  Written beside registry.txt."""
    out = consts_path(path_txt)
    hb = C.BIN + "/h_root_cmd_tl"
    if os.path.exists(out):
        os.unlink(out)
    rc, o = C.sh([hb, "consts", C.REPO + "/telegram", out], timeout=300)
    if rc != 0 or not os.path.exists(out):
        raise C.BuildError("constant/interface translator (%s consts %s/telegram) failed: %s" % (hb, C.REPO, o[-2000:]))
    return parse_consts(out)


def parse_consts(path):
    """-> dict(consts=[(type, name, value)], srcifaces=[(name, [methods])], rifaces=[(id, pkg.Name)], rimpl={tid: (name, [ids])})"""
    r = {"consts": [], "srcifaces": [], "rifaces": [], "rimpl": {}}
    for line in open(path):
        f = line.rstrip("\n").split("\t")
        if f[0] == "const":
            r["consts"].append((f[1], f[2], int(f[3])))
        elif f[0] == "srciface":
            r["srcifaces"].append((f[1], f[2].split(",")))
        elif f[0] == "riface":
            r["rifaces"].append((int(f[1]), f[2]))
        elif f[0] == "rimpl":
            r["rimpl"][int(f[1])] = (f[2], [int(x) for x in f[3].split(",")] if len(f) > 3 and f[3] else [])
    return r


def translator_disagreements(structs, ifaces, cs):
    """the two translators describe one tree: where they overlap they must say the same thing"""
    bad = []
    if [(i, n) for (i, n) in cs["rifaces"][:len(ifaces)]] != list(ifaces):
        bad.append("interface ids of `registry` and `consts` differ")
    n = len(ifaces)
    for s in structs:
        nm, ids = cs["rimpl"].get(s["tid"], (None, []))
        want = [] if s["impls"] == "-" else [int(x) for x in s["impls"].split(",")]
        if nm != s["name"] or [i for i in ids if i < n] != want:
            bad.append("struct %d %s: registry says implements %s, consts says %s %s" % (s["tid"], s["name"], want, nm, ids))
    return bad


def fingerprint(path_txt):
    """identifies the translator output a Registry.v was written from: coq/gen is shared by every run
    (also by runs against other trees), so a check that reads a Coq result can tell whether the
    Registry.v that was compiled is the one it wrote"""
    import hashlib
    h = hashlib.sha1()
    for p in (path_txt, consts_path(path_txt)):
        h.update(open(p, "rb").read())
    return int(h.hexdigest()[:15], 16)


def wrapper_tids(structs):
    """hand-written request wrappers as the translator selects them: struct types of package telegram
    with a CRC() method that are not registered"""
    return [s["tid"] for s in structs if s["flags"].startswith("u") and s["name"].startswith("telegram.")]


def write_registry_v(path_txt):
    structs, enums, reg, ifaces = parse(path_txt)
    cs = run_consts(path_txt)
    dis = translator_disagreements(structs, ifaces, cs)
    if dis:
        raise C.BuildError("registry translator and constant/interface translator disagree: " + "; ".join(dis[:5]))
    out = ["(* generated by the registry translator (harness/root/tlh) from the current tree - do not edit *)",
           "From Coq Require Import NArith List.", "From MTV Require Import TL.Types.", "Import ListNotations.",
           "Open Scope N_scope.", "", "Definition shipped_structs : list sdesc := ["]
    items = []
    names = {}
    for s in structs:
        names[s["name"]] = s["tid"]
        crc = "None" if s["crc"] == "nocrc" else "(Some %s)" % s["crc"]
        fi = "None" if s["fi"] < 0 else "(Some %d%%nat)" % s["fi"]
        fl = "; ".join("{| f_ty := %s; f_tag := %s |}" % (fty(t), tag(g)) for (_, t, g) in s["fields"])
        items.append("  (* %d %s *) {| s_crc := %s; s_flagidx := %s; s_fields := [%s]; s_impls := %s |}"
                     % (s["tid"], s["name"], crc, fi, fl, nlist(s["impls"])))
    out.append(";\n".join(items))
    out.append("].")
    out.append("")
    out.append("")
    out.append("(* Go field names per struct (same order as shipped_structs), as byte strings *)")
    out.append("Definition shipped_field_names : list (list (list N)) := [")
    out.append(";\n".join("  [" + "; ".join("[" + "; ".join(str(b) for b in n.encode()) + "]" for (n, _, _) in s["fields"]) + "]" for s in structs))
    out.append("].")
    out.append("")
    out.append("Definition shipped_enum_impls : list (list N) := [" + "; ".join(nlist(e["impls"]) for e in enums) + "].")
    out.append("")
    rl = []
    for crc, k in reg:
        if k == "container":
            rl.append("(%s, RContainer)" % crc)
        elif k == "gzip":
            rl.append("(%s, RGzip)" % crc)
        elif k[0] == "s":
            rl.append("(%s, RStruct %s)" % (crc, k[1:]))
        elif k[0] == "e":
            rl.append("(%s, REnum %s)" % (crc, k[1:]))
    out.append("Definition shipped_reg : list (N * rkind) := [\n  " + ";\n  ".join(rl) + "\n].")
    out.append("")
    out.append("Definition shipped : universe := {| u_structs := shipped_structs; u_enum_impls := shipped_enum_impls; "
               "u_reg := shipped_reg; u_true := %d; u_false := %d; u_null := %d |}."
               % (names.get("tl.PseudoTrue", 0), names.get("tl.PseudoFalse", 0), names.get("tl.PseudoNil", 0)))
    # tids of the types the client itself never (de)serialises through the generic walk and that are
    # known not to be well-formed descriptors; named here so that the instance theorem can say "all but these"
    exc = [names[n] for n in ("objects.Null", "objects.MsgCopy") if n in names]
    out.append("Definition shipped_exceptions : list N := [%s]." % "; ".join(str(x) for x in exc))
    out.append("Definition shipped_nregistered : N := %d." % len(reg))
    # hand-written request wrappers: types with a CRC() method in package telegram that are not registered
    wr = wrapper_tids(structs)
    out.append("Definition shipped_wrappers : list N := [%s]." % "; ".join(str(x) for x in wr))
    # ---- identifiers (C13): what the programmer reads ----
    out.append("")
    out.append("(* Go type name of every struct (package prefix dropped), same order as shipped_structs *)")
    out.append("Definition shipped_struct_names : list (list N) := [")
    out.append(";\n".join("  (* %d %s *) %s" % (s["tid"], s["name"], bl(bare(s["name"]))) for s in structs))
    out.append("].")
    out.append("")
    enum_types = {bare(e["name"]) for e in enums if e["name"].startswith("telegram.")}
    ec = [(n, v) for (t, n, v) in cs["consts"] if t in enum_types]
    out.append("(* typed integer constants of package telegram whose type is a registered enum type, as the Go SOURCE names them: (identifier, value) *)")
    out.append("Definition shipped_enum_consts : list (list N * N) := [")
    out.append(";\n".join("  (* %s *) (%s, %d)" % (n, bl(n), v) for (n, v) in ec))
    out.append("].")
    out.append("")
    out.append("(* interface types: ids below %d are the registry translator's (field types), the rest occur only as results of *telegram.Client methods *)" % len(ifaces))
    out.append("Definition shipped_ifaces : list (list N) := [")
    out.append(";\n".join("  (* %d %s *) %s" % (i, n, bl(bare(n))) for (i, n) in cs["rifaces"]))
    out.append("].")
    out.append("Definition shipped_nfield_ifaces : N := %d." % len(ifaces))
    out.append("")
    out.append("(* which of shipped_ifaces the pointer to each struct implements (reflect.Type.Implements), same order as shipped_structs *)")
    out.append("Definition shipped_struct_ifaces : list (list N) := [")
    out.append(";\n".join("  [" + "; ".join(str(i) for i in cs["rimpl"].get(s["tid"], (None, []))[1]) + "]" for s in structs))
    out.append("].")
    out.append("")
    out.append("(* interface types DECLARED in the source of package telegram (with at least one method of their own) *)")
    out.append("Definition shipped_src_ifaces : list (list N) := [")
    out.append(";\n".join("  (* %s *) %s" % (n, bl(n)) for (n, _) in cs["srcifaces"]))
    out.append("].")
    out.append("")
    out.append("Definition shipped_fingerprint : N := %d." % fingerprint(path_txt))
    txt = "\n".join(out) + "\n"
    p = C.COQ + "/gen/Registry.v"
    os.makedirs(C.COQ + "/gen", exist_ok=True)
    if not os.path.exists(p) or open(p).read() != txt:
        with open(p, "w") as f:
            f.write(txt)
    C.want_gen(p, txt)
    return structs, enums, reg, ifaces
