"""C02 - TL wire format equals the schema-defined serialisation."""
import hashlib
import re
import json

from .. import common as C
from . import tlcommon as T
from . import tlschema

PROPS = ["theories/Props/C02.v", "theories/Inst/C02i.v"]


def run(ctx):
    prep = T.prepare(ctx)
    tlschema.write_schema_v()
    pr = C.coq_props(PROPS, slow=["theories/Inst/C02x.v"], timeout=3000)
    C.coq_obligation_violations(ctx, pr, "C02")
    model = T.run_model(ctx, prep, with_spec=True)
    ids = T.schema_ids()
    crc_of = {s["tid"]: (None if s["crc"] == "nocrc" else int(s["crc"])) for s in prep["structs"]}
    names = prep["names"]
    evals = 0
    compared = 0
    nontrivial = set()
    disagreements = 0
    defs_seen = set()
    samples = []
    outside_nested = 0
    for f in T.iter_cases(prep["cases"]):
        if f[0] == "E":
            _, cid, tid, g, impl, det, rt = f
            if tid == "c":
                continue
            tid = int(tid)
            crc = crc_of.get(tid)
            if crc not in ids:
                continue   # not a definition of the shipped schemas (pseudo objects, unlisted types)
            evals += 1
            name = names.get(tid, str(tid))
            m = model.get(cid)
            if not isinstance(m, tuple):
                continue
            menc, mspec = m
            mspec, conforming = T.split_spec(mspec)
            ic = T.norm_class(impl)
            # a value that mentions, anywhere inside, a definition outside API + wire-used service definitions (e.g. future_salts
            # as the query of a generic wrapper: its Go type is boxed where the schema has a bare vector) is not one the claim is about
            nested_outside = any(crc_of.get(int(t)) not in ids for t in re.findall(r"o(\d+)\(", g))
            if nested_outside:
                outside_nested += 1
            if not conforming and ic.startswith("ok") and not nested_outside:
                C.violation(ctx, "nonconforming:%s" % ids[crc][0],
                            "%s: the value the implementation serialises does not conform to the schema types of its line `%s`: %s"
                            % (ids[crc][0], ids[crc][1][:160], T.short(g)),
                            {"kind": "E", "type": name, "value": g, "schema_line": ids[crc][1], "oracle": "TL/Conform.v conforms"})
            if mspec in ("illtyped", "foreign"):
                continue   # not a value of the schema (nested constructor outside the schema files)
            if mspec.startswith("ok") or ic.startswith("ok"):
                compared += 1
                if ic.startswith("ok"):
                    defs_seen.add(crc)
                    nontrivial.add(hashlib.sha1(g.encode()).hexdigest())
                if mspec != ic and not (mspec == "none" and not ic.startswith("ok")):
                    disagreements += 1
                    C.violation(ctx, "wire:%s:%s" % (ids[crc][0], hashlib.sha1(g.encode()).hexdigest()[:8]),
                                "%s: schema-defined serialisation is %s, implementation produced %s for value %s (schema line: %s)"
                                % (ids[crc][0], T.short(mspec), T.short(ic), T.short(g), ids[crc][1]),
                                {"kind": "E", "type": name, "value": g, "schema_line": ids[crc][1], "expected": mspec, "got": ic,
                                 "oracle": "extracted TL/Spec.v spec (serialiser written from the schema text)"})
                if len(samples) < 5 and ic.startswith("ok") and compared % 331 == 0:
                    samples.append({"definition": ids[crc][1][:160], "value": T.short(g, 200), "bytes": T.short(ic, 160)})
        elif f[0] == "D":
            _, cid, mode, hints, hx, impl = f
            m = model.get(cid)
            ic = T.norm_class(impl)
            if m == "FUEL":
                raise C.BuildError("model ran out of fuel on case %s" % cid)
            # bytes built from the schema (= the valid encodings above) must decode to the corresponding value
            if isinstance(m, str) and m.startswith("ok") and m != ic:
                evals += 1
                disagreements += 1
                C.violation(ctx, "decode:%s:%s" % (mode, hashlib.sha1(hx.encode()).hexdigest()[:8]),
                            "decoding %s (%s): schema-level value is %s, implementation gives %s" % (T.short(hx, 80), mode, T.short(m), T.short(ic)),
                            {"kind": "D", "mode": mode, "hints": hints, "hex": hx, "expected": m, "got": ic})
            elif isinstance(m, str) and m.startswith("ok"):
                evals += 1
        elif f[0] == "B":
            _, cid, tid, n, cls, hdr = f
            evals += 1
            n = int(n)
            want = "ok" if n < (1 << 24) else "err"
            whdr = "fe" + n.to_bytes(3, "little").hex() if want == "ok" else "-"
            if cls != want or (want == "ok" and hdr != whdr):
                C.violation(ctx, "bytes-length:t%s:%d" % (tid, n),
                            "string/bytes field of %d bytes (type %s): the format %s it (length header %s), implementation: %s (header %s)"
                            % (n, tid, "carries" if want == "ok" else "cannot carry", whdr, cls, hdr),
                            {"kind": "B", "type": tid, "length": n, "expected": want, "expected_header": whdr, "got": cls, "header": hdr})
    if not samples:
        samples.append({"note": "no sample selected"})
    cov = C.proof_coverage(
        pr, "make -f Makefile.coq theories/Props/C02.vo theories/Inst/C02i.vo (coqc 8.16.1) in /verif/coq",
        T.TRUSTED_TL + ["schema-embed translator lib/props/tlschema.py copies the .tl files line by line into coq/gen/SchemaText.v; the grammar is parsed inside Coq (TL/TLText.v); "
                        "the OCaml driver feeds the same files to the extracted parser"],
        {"evaluations": evals, "distinct_nontrivial": len(nontrivial),
         "rule": "values of every constructor/method of schemes/api_latest.tl and of the registered mtproto.tl definitions (generation as for C01: all flag-group presence patterns, boundary "
                 "string lengths, vector sizes 0/1/2/17, recursive types) are marshalled by the implementation and serialised by the extracted spec (TL/Spec.v) applied to their schema-level "
                 "abstraction; bytes must be identical; the same bytes are decoded back; 2^24-1 / 2^24 / 2^24+1 byte strings. non-trivial = distinct values with a successful encoding",
         "samples": samples, "input_distribution": prep["stats"], "disagreements_checked": disagreements, "values_compared_with_spec": compared,
         "schema_definitions_exercised": len(defs_seen), "values_mentioning_definitions_outside_the_claim": outside_nested, "schema_definitions_total": len(ids),
         "projection": "bytes; result class"})
    return C.finish(ctx, "proof", cov, [
        "spec covers the TL subset used by the two schema files (flags.N? conditionals, Vector<>, %T, !X); result types of functions are not part of a request's bytes"])


def replay(ctx, path):
    obj = json.load(open(path))
    ctx.seed = obj.get("seed", ctx.seed)
    ctx.tier = obj.get("tier", ctx.tier)
    return run(ctx)


def pregen(ctx):
    tlschema.write_schema_v()
