(* Go string helpers over byte lists: literals, IndexByte, Split, slicing with Go's
   bounds panics, TrimPrefix/TrimSuffix. *)
From Coq Require Import Ascii String.
From Coq Require Import ZArith NArith List Lia ZifyN ZifyNat ZifyBool Bool.
From MTV Require Import Base.Bytes Base.Outcome.
Import ListNotations.
Open Scope N_scope.

(* string literal -> bytes (ASCII only in this development) *)
Definition lit (s : string) : bytes := List.map N_of_ascii (list_ascii_of_string s).

(* strings.IndexByte: position of first c, or -1 *)
Fixpoint index_byte (c : N) (s : bytes) : Z :=
  match s with
  | [] => (-1)%Z
  | x :: r => if x =? c then 0%Z
              else let i := index_byte c r in if (i <? 0)%Z then (-1)%Z else (1 + i)%Z
  end.

Definition zlen (s : bytes) : Z := Z.of_nat (length s).

(* s[lo:hi] on a Go string: panics unless 0 <= lo <= hi <= len(s) *)
Definition go_slice (s : bytes) (lo hi : Z) : outcome bytes :=
  if ((0 <=? lo) && (lo <=? hi) && (hi <=? zlen s))%Z
  then Ok (firstn (Z.to_nat (hi - lo)) (skipn (Z.to_nat lo) s))
  else Panic.

(* strings.Split(s, string(c)) : always at least one piece *)
Fixpoint split_on (c : N) (s : bytes) : list bytes :=
  match s with
  | [] => [[]]
  | x :: r =>
      if x =? c then [] :: split_on c r
      else match split_on c r with
           | h :: t => (x :: h) :: t
           | [] => [[x]]
           end
  end.

Fixpoint strip_prefix (p s : bytes) : option bytes :=
  match p, s with
  | [], _ => Some s
  | x :: p', y :: s' => if x =? y then strip_prefix p' s' else None
  | _ :: _, [] => None
  end.

Definition trim_prefix (p s : bytes) : bytes :=
  match strip_prefix p s with Some r => r | None => s end.

Definition trim_suffix (q s : bytes) : bytes :=
  match strip_prefix (rev q) (rev s) with Some r => rev r | None => s end.

Definition contains_byte (c : N) (s : bytes) : bool := existsb (N.eqb c) s.

Fixpoint list_contains (l : list bytes) (s : bytes) : bool :=
  match l with [] => false | x :: r => beq x s || list_contains r s end.

(* ---- facts ---- *)

Lemma index_byte_range c s : (-1 <= index_byte c s < zlen s)%Z.
Proof.
  unfold zlen. induction s as [|x r IH]; cbn [index_byte length]; [lia|].
  destruct (x =? c); [lia|]. destruct (Z.ltb_spec (index_byte c r) 0); lia.
Qed.

Lemma index_byte_none c s : (index_byte c s < 0)%Z <-> ~ In c s.
Proof.
  induction s as [|x r IH]; cbn [index_byte In]; [intuition lia|].
  destruct (N.eqb_spec x c) as [->|Hn].
  - split; [lia|intros H; exfalso; apply H; auto].
  - pose proof (index_byte_range c r).
    destruct (Z.ltb_spec (index_byte c r) 0); split; intros; try lia; intuition.
Qed.

Lemma index_byte_split c s : (0 <= index_byte c s)%Z ->
  exists a r, s = a ++ c :: r /\ ~ In c a /\ index_byte c s = zlen a.
Proof.
  unfold zlen. induction s as [|x s IH]; cbn [index_byte]; [lia|].
  destruct (N.eqb_spec x c) as [->|Hn].
  - intros _. exists [], s. cbn. auto.
  - destruct (Z.ltb_spec (index_byte c s) 0) as [Hlt|Hge]; [lia|]. intros _.
    destruct (IH Hge) as (a & r & -> & Hna & Hi).
    exists (x :: a), r. cbn [app In length]. repeat split; [intuition|lia].
Qed.

Lemma index_byte_app c a r : ~ In c a -> index_byte c (a ++ c :: r) = zlen a.
Proof.
  unfold zlen. induction a as [|x a IH]; cbn [app index_byte In length]; intros Hn.
  - now rewrite N.eqb_refl.
  - destruct (N.eqb_spec x c); [intuition|]. rewrite IH by intuition.
    destruct (Z.ltb_spec (Z.of_nat (length a)) 0); lia.
Qed.

Lemma split_on_nonempty c s : split_on c s <> [].
Proof.
  induction s as [|x r IH]; cbn [split_on]; [discriminate|].
  destruct (x =? c); [discriminate|]. destruct (split_on c r); discriminate.
Qed.

Lemma split_on_noc c s : ~ In c s -> split_on c s = [s].
Proof.
  induction s as [|x r IH]; cbn [split_on In]; intros Hn; [reflexivity|].
  destruct (N.eqb_spec x c); [intuition|]. rewrite IH by intuition. reflexivity.
Qed.

Lemma split_on_app c a r : ~ In c a -> split_on c (a ++ c :: r) = a :: split_on c r.
Proof.
  induction a as [|x a IH]; cbn [app split_on In]; intros Hn.
  - now rewrite N.eqb_refl.
  - destruct (N.eqb_spec x c); [intuition|]. rewrite IH by intuition. reflexivity.
Qed.

Lemma split_on_inv c s h t : split_on c s = h :: t ->
  ~ In c h /\ ((t = [] /\ s = h) \/ exists r, s = h ++ c :: r /\ split_on c r = t).
Proof.
  revert h t; induction s as [|x s IH]; cbn [split_on]; intros h t H.
  - injection H as <- <-. split; [intros []|left; auto].
  - destruct (N.eqb_spec x c) as [->|Hn].
    + injection H as <- <-. split; [intros []|right]. exists s. auto.
    + destruct (split_on c s) as [|h' t'] eqn:E; [now apply split_on_nonempty in E|].
      injection H as <- <-. destruct (IH h' t' eq_refl) as [Hh Hc]. split.
      * cbn [In]. intuition.
      * destruct Hc as [[-> ->]|[r [-> Hr]]]; [left; auto|right; exists r; auto].
Qed.

Lemma list_contains_spec l s : list_contains l s = true <-> In s l.
Proof.
  induction l as [|x l IH]; cbn [list_contains In]; [intuition discriminate|].
  rewrite orb_true_iff, IH, beq_eq. reflexivity.
Qed.

Lemma go_slice_ok s lo hi : (0 <= lo <= hi)%Z -> (hi <= zlen s)%Z ->
  go_slice s lo hi = Ok (firstn (Z.to_nat (hi - lo)) (skipn (Z.to_nat lo) s)).
Proof.
  intros H1 H2. unfold go_slice.
  destruct (Z.leb_spec 0 lo); [|lia]. destruct (Z.leb_spec lo hi); [|lia].
  destruct (Z.leb_spec hi (zlen s)); [|lia]. reflexivity.
Qed.
