(* Byte strings as lists of N (each < 256), little-endian words, basic list helpers
   shared by all models.  Go strings are modelled as their UTF-8 byte sequence. *)
From Coq Require Import ZArith NArith List Lia ZifyN ZifyNat ZifyBool Bool.
Import ListNotations.
Open Scope N_scope.
Ltac Zify.zify_post_hook ::= Z.div_mod_to_equations.

Definition byte := N.
Definition bytes := list N.

Definition byte_ok (b : N) : bool := b <? 256.
Definition bytes_ok (l : bytes) : bool := forallb byte_ok l.

Definition blen (l : bytes) : N := N.of_nat (length l).

Fixpoint beq (a b : bytes) : bool :=
  match a, b with
  | [], [] => true
  | x :: a', y :: b' => (x =? y) && beq a' b'
  | _, _ => false
  end.

Lemma beq_spec a b : reflect (a = b) (beq a b).
Proof.
  revert b; induction a as [|x a IH]; intros [|y b]; cbn [beq]; try (constructor; congruence).
  destruct (N.eqb_spec x y) as [->|Hn]; cbn [andb].
  - destruct (IH b) as [->|Hn]; constructor; congruence.
  - constructor; congruence.
Qed.

Lemma beq_refl a : beq a a = true.
Proof. destruct (beq_spec a a); congruence. Qed.

Lemma beq_eq a b : beq a b = true <-> a = b.
Proof. destruct (beq_spec a b); split; congruence. Qed.

Lemma beq_neq a b : beq a b = false <-> a <> b.
Proof. destruct (beq_spec a b); split; congruence. Qed.

(* strings.HasPrefix *)
Fixpoint has_prefix (p s : bytes) : bool :=
  match p, s with
  | [], _ => true
  | x :: p', y :: s' => (x =? y) && has_prefix p' s'
  | _ :: _, [] => false
  end.

Lemma has_prefix_spec p s : has_prefix p s = true <-> exists r, s = p ++ r.
Proof.
  revert s; induction p as [|x p IH]; intros s.
  - cbn [has_prefix]. split; [intros _; exists s; reflexivity|reflexivity].
  - destruct s as [|y s]; cbn [has_prefix].
    + split; [discriminate|intros [r Hr]; discriminate].
    + rewrite andb_true_iff, N.eqb_eq, IH. split.
      * intros [-> [r ->]]. now exists r.
      * intros [r Hr]. cbn [app] in Hr. injection Hr as -> ->. eauto.
Qed.

Definition has_suffix (q s : bytes) : bool := has_prefix (rev q) (rev s).

Lemma has_suffix_spec q s : has_suffix q s = true <-> exists r, s = r ++ q.
Proof.
  unfold has_suffix. rewrite has_prefix_spec. split.
  - intros [r Hr]. exists (rev r). rewrite <- (rev_involutive s), Hr, rev_app_distr, rev_involutive. reflexivity.
  - intros [r ->]. exists (rev r). now rewrite rev_app_distr.
Qed.

(* little-endian 32/64 bit words *)
Definition le32 (n : N) : bytes :=
  [n mod 256; (n / 256) mod 256; (n / 65536) mod 256; (n / 16777216) mod 256].
Definition of_le32 (a b c d : N) : N := a + 256 * b + 65536 * c + 16777216 * d.

Lemma of_le32_le32 n : n < 4294967296 ->
  of_le32 (n mod 256) ((n / 256) mod 256) ((n / 65536) mod 256) ((n / 16777216) mod 256) = n.
Proof. unfold of_le32. intros. lia. Qed.

Definition le64 (n : N) : bytes := le32 (n mod 4294967296) ++ le32 (n / 4294967296).

Fixpoint of_le (l : bytes) : N :=
  match l with [] => 0 | b :: r => b + 256 * of_le r end.

Fixpoint of_be_acc (acc : N) (l : bytes) : N :=
  match l with [] => acc | b :: r => of_be_acc (256 * acc + b) r end.
Definition of_be (l : bytes) : N := of_be_acc 0 l.

Definition zeros (n : N) : bytes := repeat 0 (N.to_nat n).

Lemma length_zeros n : N.of_nat (length (zeros n)) = n.
Proof. unfold zeros. rewrite repeat_length. lia. Qed.

Lemma le32_length n : length (le32 n) = 4%nat.
Proof. reflexivity. Qed.

Lemma le32_bytes_ok n : bytes_ok (le32 n) = true.
Proof.
  unfold bytes_ok, le32, byte_ok. cbn [forallb].
  repeat (rewrite andb_true_iff; split); try reflexivity; apply N.ltb_lt; lia.
Qed.
