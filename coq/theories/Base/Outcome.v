(* Outcome of a modelled Go function: a value, an error return, or a run-time panic.
   [Panic] is written wherever the Go code would panic (slice bounds, negative make,
   nil dereference, failed unchecked type assertion, explicit panic/check(err)). *)
From Coq Require Import List.
Import ListNotations.

Inductive outcome (A : Type) : Type :=
| Ok (a : A)
| Err
| Panic.
Arguments Ok {A} a.
Arguments Err {A}.
Arguments Panic {A}.

Definition obind {A B} (x : outcome A) (f : A -> outcome B) : outcome B :=
  match x with Ok a => f a | Err => Err | Panic => Panic end.

Definition omap {A B} (f : A -> B) (x : outcome A) : outcome B :=
  match x with Ok a => Ok (f a) | Err => Err | Panic => Panic end.

Definition is_ok {A} (x : outcome A) : bool := match x with Ok _ => true | _ => false end.
Definition is_panic {A} (x : outcome A) : bool := match x with Panic => true | _ => false end.

Notation "'do' x <- a ; b" := (obind a (fun x => b))
  (at level 200, x pattern, a at level 100, b at level 200, right associativity).

Lemma Ok_inj {A} (a b : A) : Ok a = Ok b -> a = b.
Proof. intros H; injection H; auto. Qed.
