(* C07: the key exchange is ABANDONED WITH AN ERROR - it does not wait for ever - whatever arrives.
   [HStalled] has exactly two causes in the model (Handshake/Client.v): the server stays silent for ever
   ([e hist = None]) or SplitPQ does not return.  If the server answers every request with SOMETHING - a reply of any
   bytes, a transport error code, closing the connection - and SplitPQ returns, the run is Success or Stopped HFailed. *)
From Coq Require Import ZArith NArith List Lia Bool.
From MTV Require Import Base.Bytes Base.Outcome Crypto.Ige Crypto.TempKeys Crypto.Envelope
  Handshake.Bytes Handshake.Objects Handshake.Client Handshake.Abort Handshake.Agreement Handshake.NoPanic.
Import ListNotations.
Open Scope N_scope.

Definition ns {A} (w : W A) : Prop := snd w <> Halt HStalled.

Lemma ns_bind {A B} (m : W A) (f : A -> W B) : ns m -> (forall a, ns (f a)) -> ns (wbind m f).
Proof.
  unfold ns, wbind. destruct m as [e [a|s]]; cbn [snd]; intros Hm Hf; [|intros Hx; apply Hm; injection Hx as ->; reflexivity].
  specialize (Hf a). destruct (f a) as [e' r]. exact Hf.
Qed.

Lemma ns_ret {A} (a : A) : ns (ret a). Proof. discriminate. Qed.
Lemma ns_failed {A} : ns (@halt A HFailed). Proof. discriminate. Qed.
Lemma ns_guard b : ns (guard b). Proof. destruct b; discriminate. Qed.
Lemma ns_emit x : ns (emit x). Proof. discriminate. Qed.
Lemma ns_of_outcome {A} (o : outcome A) : ns (of_outcome o). Proof. destruct o; discriminate. Qed.
Lemma ns_of_checked {A} (o : outcome A) : ns (of_checked o). Proof. destruct o; discriminate. Qed.

Section NoStall.
Variable H : bytes -> bytes.
Variables E D : bytes -> bytes -> bytes.
Variable modexp : Z -> Z -> Z -> Z.
Variable is_prime : N -> bool.
Variable split : N -> option (N * N).
Variable e : env.
Hypothesis answers : forall hist, e hist <> None.
Hypothesis split_returns : forall n, split n <> None.

Lemma ns_request hist f : ns (request hist f e).
Proof.
  unfold request. apply ns_bind; [apply ns_emit|]. intros _.
  destruct (e (hist ++ [f])) as [[r| |]|] eqn:He; try apply ns_failed.
  - destruct (dec_reply r); [apply ns_ret|apply ns_failed|apply ns_failed].
  - exfalso. exact (answers _ He).
Qed.

Ltac ns_step :=
  first [ apply ns_ret | apply ns_failed | apply ns_guard | apply ns_emit | apply ns_of_outcome | apply ns_of_checked
        | apply ns_request | apply ns_bind; [|intros ?] ].

Lemma stage1_ns pk dr : ns (stage1 H modexp is_prime split pk dr e).
Proof.
  unfold stage1. repeat ns_step.
  match goal with |- ns (match fst ?x with _ => _ end) => destruct (fst x) end; try apply ns_failed.
  repeat ns_step.
  destruct (split (of_be pq)) as [[p q]|] eqn:Hs; [|exfalso; exact (split_returns _ Hs)]. repeat ns_step.
Qed.

Lemma stage2_ns dr s : ns (stage2 H E D modexp dr e s).
Proof.
  unfold stage2. repeat ns_step.
  match goal with |- ns (match fst ?x with _ => _ end) => destruct (fst x) end; try apply ns_failed.
  repeat ns_step.
  match goal with |- ns (match dec_inner ?x with _ => _ end) => destruct (dec_inner x) end; [|apply ns_failed].
  repeat ns_step.
Qed.

Lemma stage3_ns s : ns (stage3 H e s).
Proof.
  unfold stage3. repeat ns_step.
  match goal with |- ns (match fst ?x with _ => _ end) => destruct (fst x) end; try apply ns_failed.
  repeat ns_step.
Qed.

Theorem handshake_no_stall pk dr : ns (handshake H E D modexp is_prime split pk dr e).
Proof.
  unfold handshake. apply ns_bind; [apply stage1_ns|]. intros a. apply ns_bind; [apply stage2_ns|]. intros b. apply stage3_ns.
Qed.

End NoStall.

(* Success, or an error: never a panic, never an endless wait *)
Theorem error_unless_silent (H : bytes -> bytes) (E D : bytes -> bytes -> bytes) (modexp : Z -> Z -> Z -> Z)
    (is_prime : N -> bool) (split : N -> option (N * N)) :
  (forall m, length (H m) = 20%nat) -> (forall m, okb (H m)) ->
  (forall k b, length (E k b) = 16%nat) -> (forall k b, length (D k b) = 16%nat) ->
  (forall k b, okb k -> okb b -> okb (D k b)) ->
  (forall b e m, (0 <= e)%Z -> (0 < m)%Z -> modexp b e m = ((b ^ e) mod m)%Z) ->
  (forall n a b, split n = Some (a, b) -> a * b = n /\ 1 < a /\ a <= b) ->
  (forall n, split n <> None) ->
  forall pk dr (e : env), draws_ok dr -> (forall h r, e h = Some (Reply r) -> okb r) ->
  (forall hist, e hist <> None) ->
  forall sid msgid seq ack body eff fin,
    connect_and_request H E D modexp is_prime split pk dr e sid msgid seq ack body = (eff, fin) ->
    (exists key kid salt, fin = Success key kid salt) \/ fin = Stopped HFailed.
Proof.
  intros HL HO EL DL DO ME SS SR pk dr e DR EO AN sid msgid seq ack body eff fin Hc.
  pose proof (no_panic H E D modexp is_prime split HL HO EL DL DO ME SS pk dr e DR EO sid msgid seq ack body eff fin Hc) as Hnp.
  pose proof (handshake_no_stall H E D modexp is_prime split e AN SR pk dr) as Hns.
  unfold connect_and_request, ns in *.
  destruct (handshake H E D modexp is_prime split pk dr e) as [eff0 [f|st]] eqn:Hh; cbn [outcome_of snd] in *.
  - destruct (handshake_go_success H E D modexp is_prime split pk dr e eff0 f Hh) as (k & h & s & ->).
    left. destruct (seal_client H (ige_encrypt E) k s sid msgid seq ack body); injection Hc as <- <-; eauto.
  - injection Hc as <- <-. right. destruct st; [reflexivity|exfalso; now apply Hnp|exfalso; now apply Hns].
Qed.
