(* Byte layouts of the objects of the key exchange (schemes/mtproto.tl, internal/mtproto/objects):

     req_pq#60469778 nonce:int128 = ResPQ
     resPQ#05162463 nonce:int128 server_nonce:int128 pq:string server_public_key_fingerprints:Vector<long>
     p_q_inner_data#83c95aec pq:string p:string q:string nonce:int128 server_nonce:int128 new_nonce:int256
     req_DH_params#d712e4be nonce:int128 server_nonce:int128 p:string q:string public_key_fingerprint:long encrypted_data:string
     server_DH_params_fail#79cb045d nonce:int128 server_nonce:int128 new_nonce_hash:int128
     server_DH_params_ok#d0e8075c nonce:int128 server_nonce:int128 encrypted_answer:string
     server_DH_inner_data#b5890dba nonce:int128 server_nonce:int128 g:int dh_prime:string g_a:string server_time:int
     client_DH_inner_data#6643b654 nonce:int128 server_nonce:int128 retry_id:long g_b:string
     set_client_DH_params#f5045f1f nonce:int128 server_nonce:int128 encrypted_data:string
     dh_gen_ok#3bcbf734 / dh_gen_retry#46dc1fb9 / dh_gen_fail#a69dae02 nonce:int128 server_nonce:int128 new_nonce_hashN:int128

   Encoders = what tl.Marshal does for the Go struct (field order; *tl.Int128 through dry.BigIntBytes which
   PANICS on a value that does not fit; []byte through PutMessage whose refusal of >= 2^24 bytes is an ERROR;
   the first failing field decides).  Decoders = what the reflection decoder does for the registered struct
   (PopRawBytes 16/32 -> big.Int.SetBytes, PopMessage, PopInt/PopLong, PopVector of long), trailing bytes are
   left unread.  The TL byte-string primitives put_bytes / pop_bytes are those of TL/Types.v (C01/C02).
   int128/int256 values are numbers (big.Int); int/long are 32/64-bit patterns. *)
From Coq Require Import ZArith NArith List Lia ZifyN ZifyNat ZifyBool Bool.
From MTV Require Import Base.Bytes Base.Outcome Crypto.TempKeys Crypto.TempKeysProofs TL.Types Handshake.Bytes.
Import ListNotations.
Open Scope N_scope.

Definition crc_req_pq : N := 1615239032.          (* 0x60469778 *)
Definition crc_res_pq : N := 85337187.            (* 0x05162463 *)
Definition crc_pq_inner : N := 2211011308.        (* 0x83c95aec *)
Definition crc_req_dh : N := 3608339646.          (* 0xd712e4be *)
Definition crc_dh_fail : N := 2043348061.         (* 0x79cb045d *)
Definition crc_dh_ok : N := 3504867164.           (* 0xd0e8075c *)
Definition crc_dh_inner : N := 3045658042.        (* 0xb5890dba *)
Definition crc_client_inner : N := 1715713620.    (* 0x6643b654 *)
Definition crc_set_client_dh : N := 4110704415.   (* 0xf5045f1f *)
Definition crc_gen_ok : N := 1003222836.          (* 0x3bcbf734 *)
Definition crc_gen_retry : N := 1188831161.       (* 0x46dc1fb9 *)
Definition crc_gen_fail : N := 2795351554.        (* 0xa69dae02 *)

(* ---- writing ---- *)
Definition int128_m (n : N) : outcome bytes := dry_big_int_bytes 16 n.
Definition int256_m (n : N) : outcome bytes := dry_big_int_bytes 32 n.
Definition tl_bytes (b : bytes) : outcome bytes :=
  match put_bytes b with Some x => Ok x | None => Err end.

Definition enc_req_pq (nonce : N) : outcome bytes :=
  do n <- int128_m nonce; Ok (le32 crc_req_pq ++ n).

Definition enc_pq_inner (pq p q : bytes) (nonce srv new_nonce : N) : outcome bytes :=
  do a <- tl_bytes pq; do b <- tl_bytes p; do c <- tl_bytes q;
  do n <- int128_m nonce; do s <- int128_m srv; do nn <- int256_m new_nonce;
  Ok (le32 crc_pq_inner ++ a ++ b ++ c ++ n ++ s ++ nn).

Definition enc_req_dh (nonce srv : N) (p q : bytes) (fp : N) (enc : bytes) : outcome bytes :=
  do n <- int128_m nonce; do s <- int128_m srv;
  do a <- tl_bytes p; do b <- tl_bytes q; do c <- tl_bytes enc;
  Ok (le32 crc_req_dh ++ n ++ s ++ a ++ b ++ le64 fp ++ c).

Definition enc_client_inner (nonce srv retry : N) (gb : bytes) : outcome bytes :=
  do n <- int128_m nonce; do s <- int128_m srv; do a <- tl_bytes gb;
  Ok (le32 crc_client_inner ++ n ++ s ++ le64 retry ++ a).

Definition enc_set_client_dh (nonce srv : N) (enc : bytes) : outcome bytes :=
  do n <- int128_m nonce; do s <- int128_m srv; do a <- tl_bytes enc;
  Ok (le32 crc_set_client_dh ++ n ++ s ++ a).

(* server side objects; the specification's layout (raw 16-byte nonces) *)
Definition enc_res_pq (nonce srv : bytes) (pq : bytes) (fps : list N) : option bytes :=
  match put_bytes pq with
  | Some a => Some (le32 crc_res_pq ++ nonce ++ srv ++ a ++ le32 crc_vector ++ le32 (N.of_nat (length fps))
                    ++ concat (map le64 fps))
  | None => None
  end.

Definition enc_dh_ok (nonce srv : bytes) (enc : bytes) : option bytes :=
  match put_bytes enc with Some a => Some (le32 crc_dh_ok ++ nonce ++ srv ++ a) | None => None end.

Definition enc_dh_inner (nonce srv : bytes) (g : N) (dh_prime ga : bytes) (time : N) : option bytes :=
  match put_bytes dh_prime, put_bytes ga with
  | Some a, Some b => Some (le32 crc_dh_inner ++ nonce ++ srv ++ le32 g ++ a ++ b ++ le32 time)
  | _, _ => None
  end.

Definition enc_gen (crc : N) (nonce srv hash : bytes) : bytes := le32 crc ++ nonce ++ srv ++ hash.

(* ---- reading ---- *)
Definition take_n (n : nat) (l : bytes) : option (bytes * bytes) :=
  if (length l <? n)%nat then None else Some (firstn n l, skipn n l).

(* *tl.Int128 / *tl.Int256: PopRawBytes + SetBytes *)
Definition pop_big (w : nat) (l : bytes) : option (N * bytes) :=
  match take_n w l with Some (b, r) => Some (of_be b, r) | None => None end.

(* PopVector of long: count must not exceed rest/4 words, then count longs *)
Fixpoint pop_longs (k : nat) (l : bytes) : option (list N * bytes) :=
  match k with
  | O => Some ([], l)
  | S k' => match pop64 l with
            | Some (x, r) => match pop_longs k' r with Some (xs, r') => Some (x :: xs, r') | None => None end
            | None => None
            end
  end.

Definition pop_vec_long (l : bytes) : option (list N * bytes) :=
  match pop32 l with
  | Some (c, r) =>
      if negb (c =? crc_vector) then None else
      match pop32 r with
      | Some (n, r') => if N.of_nat (length r' / 4) <? n then None else pop_longs (N.to_nat n) r'
      | None => None
      end
  | None => None
  end.

Inductive reply :=
| RResPQ (nonce srv : N) (pq : bytes) (fps : list N)
| RDHOk (nonce srv : N) (enc : bytes)
| RDHFail (nonce srv hash : N)
| RGenOk (nonce srv hash : N)
| RGenRetry (nonce srv hash : N)
| RGenFail (nonce srv hash : N).

(* result of tl.DecodeUnknownObject on a plain reply, as far as the key exchange can tell *)
Inductive dres :=
| DObj (r : reply)
| DForeign          (* constructor id of no key-exchange answer: outcome given by the generic decoder *)
| DFail.            (* a key-exchange constructor with a malformed body: the read loop fails *)

Definition three_big (l : bytes) : option (N * N * N) :=
  match pop_big 16 l with
  | Some (a, r) => match pop_big 16 r with
                   | Some (b, r') => match pop_big 16 r' with Some (c, _) => Some (a, b, c) | None => None end
                   | None => None
                   end
  | None => None
  end.

Definition dec_reply (l : bytes) : dres :=
  match pop32 l with
  | None => DFail
  | Some (c, r) =>
      if c =? crc_res_pq then
        match pop_big 16 r with
        | Some (n, r1) =>
          match pop_big 16 r1 with
          | Some (s, r2) =>
            match pop_bytes r2 with
            | Some (pq, r3) => match pop_vec_long r3 with Some (fps, _) => DObj (RResPQ n s pq fps) | None => DFail end
            | None => DFail
            end
          | None => DFail
          end
        | None => DFail
        end
      else if c =? crc_dh_ok then
        match pop_big 16 r with
        | Some (n, r1) =>
          match pop_big 16 r1 with
          | Some (s, r2) => match pop_bytes r2 with Some (e, _) => DObj (RDHOk n s e) | None => DFail end
          | None => DFail
          end
        | None => DFail
        end
      else if c =? crc_dh_fail then
        match three_big r with Some (a, b, h) => DObj (RDHFail a b h) | None => DFail end
      else if c =? crc_gen_ok then
        match three_big r with Some (a, b, h) => DObj (RGenOk a b h) | None => DFail end
      else if c =? crc_gen_retry then
        match three_big r with Some (a, b, h) => DObj (RGenRetry a b h) | None => DFail end
      else if c =? crc_gen_fail then
        match three_big r with Some (a, b, h) => DObj (RGenFail a b h) | None => DFail end
      else DForeign
  end.

Record inner := mkinner { i_nonce : N; i_srv : N; i_g : N; i_dh_prime : bytes; i_ga : bytes; i_time : N }.

(* the decrypted answer: Some only for a well-formed server_DH_inner_data (anything else - another object or
   undecodable bytes - makes makeAuthKey return an error either way) *)
Definition dec_inner (l : bytes) : option inner :=
  match pop32 l with
  | Some (c, r) =>
    if negb (c =? crc_dh_inner) then None else
    match pop_big 16 r with
    | Some (n, r1) =>
      match pop_big 16 r1 with
      | Some (s, r2) =>
        match pop32 r2 with
        | Some (g, r3) =>
          match pop_bytes r3 with
          | Some (dp, r4) =>
            match pop_bytes r4 with
            | Some (ga, r5) => match pop32 r5 with Some (t, _) => Some (mkinner n s g dp ga t) | None => None end
            | None => None
            end
          | None => None
          end
        | None => None
        end
      | None => None
      end
    | None => None
    end
  | None => None
  end.

(* ---- server-side reading of the client's objects (raw nonces as byte strings) ---- *)
Definition sdec_req_pq (l : bytes) : option bytes :=
  match pop32 l with
  | Some (c, r) => if negb (c =? crc_req_pq) then None else
                   match take_n 16 r with Some (n, []) => Some n | _ => None end
  | None => None
  end.

Record req_dh := mkreqdh { rd_nonce : bytes; rd_srv : bytes; rd_p : bytes; rd_q : bytes; rd_fp : N; rd_enc : bytes }.
Definition sdec_req_dh (l : bytes) : option req_dh :=
  match pop32 l with
  | Some (c, r) =>
    if negb (c =? crc_req_dh) then None else
    match take_n 16 r with
    | Some (n, r1) =>
      match take_n 16 r1 with
      | Some (s, r2) =>
        match pop_bytes r2 with
        | Some (p, r3) =>
          match pop_bytes r3 with
          | Some (q, r4) =>
            match pop64 r4 with
            | Some (fp, r5) => match pop_bytes r5 with Some (e, []) => Some (mkreqdh n s p q fp e) | _ => None end
            | None => None
            end
          | None => None
          end
        | None => None
        end
      | None => None
      end
    | None => None
    end
  | None => None
  end.

Record pq_inner := mkpqi { pi_pq : bytes; pi_p : bytes; pi_q : bytes; pi_nonce : bytes; pi_srv : bytes; pi_new : bytes }.
(* returns also the unread rest (the padding of the RSA block) *)
Definition sdec_pq_inner (l : bytes) : option (pq_inner * bytes) :=
  match pop32 l with
  | Some (c, r) =>
    if negb (c =? crc_pq_inner) then None else
    match pop_bytes r with
    | Some (pq, r1) =>
      match pop_bytes r1 with
      | Some (p, r2) =>
        match pop_bytes r2 with
        | Some (q, r3) =>
          match take_n 16 r3 with
          | Some (n, r4) =>
            match take_n 16 r4 with
            | Some (s, r5) => match take_n 32 r5 with Some (nn, r6) => Some (mkpqi pq p q n s nn, r6) | None => None end
            | None => None
            end
          | None => None
          end
        | None => None
        end
      | None => None
      end
    | None => None
    end
  | None => None
  end.

Record set_dh := mksetdh { sd_nonce : bytes; sd_srv : bytes; sd_enc : bytes }.
Definition sdec_set_client_dh (l : bytes) : option set_dh :=
  match pop32 l with
  | Some (c, r) =>
    if negb (c =? crc_set_client_dh) then None else
    match take_n 16 r with
    | Some (n, r1) =>
      match take_n 16 r1 with
      | Some (s, r2) => match pop_bytes r2 with Some (e, []) => Some (mksetdh n s e) | _ => None end
      | None => None
      end
    | None => None
    end
  | None => None
  end.

Record client_inner := mkci { ci_nonce : bytes; ci_srv : bytes; ci_retry : N; ci_gb : bytes }.
Definition sdec_client_inner (l : bytes) : option (client_inner * bytes) :=
  match pop32 l with
  | Some (c, r) =>
    if negb (c =? crc_client_inner) then None else
    match take_n 16 r with
    | Some (n, r1) =>
      match take_n 16 r1 with
      | Some (s, r2) =>
        match pop64 r2 with
        | Some (retry, r3) => match pop_bytes r3 with Some (gb, r4) => Some (mkci n s retry gb, r4) | None => None end
        | None => None
        end
      | None => None
      end
    | None => None
    end
  | None => None
  end.
