(* C07_no_panic: makeAuthKey never panics, whatever the server sends.
   Every [Panic] of the model (Handshake/Client.v) is shown unreachable: slices of SHA-1 outputs (length 20), of the
   fixed-width nonces, dry.BigIntBytes on values that fit, check(err) after tl.Marshal (the byte strings marshalled are
   shorter than 2^24: p, q <= pq < 2^64; g_b < dh_prime, itself read from a TL string), PanicIf in DoRSAencrypt,
   check(err) inside EncryptMessageWithTempKeys.
   Hypotheses: SHA-1 returns 20 bytes; AES blocks are 16 bytes of bytes; Exp is reduction modulo m; whatever SplitPQ
   returns is a factorisation; the draws and the replies are byte strings of the drawn lengths. *)
From Coq Require Import ZArith NArith List Lia ZifyN ZifyNat ZifyBool Bool.
From MTV Require Import Base.Bytes Base.Outcome Prim.Xor Prim.Aes256 Crypto.Ige Crypto.IgeMem Crypto.IgeProofs Crypto.TempKeys
  Crypto.TempKeysProofs Crypto.Envelope TL.Types
  Handshake.Bytes Handshake.Objects Handshake.ObjectsProofs Handshake.Client Handshake.Abort Handshake.AgreeLemmas Handshake.Agreement.
Import ListNotations.
Open Scope N_scope.
Ltac Zify.zify_post_hook ::= Z.div_mod_to_equations.

Definition np {A} (w : W A) : Prop := snd w <> Halt HPanicked.

Lemma np_bind {A B} (m : W A) (f : A -> W B) :
  np m -> (forall e a, m = (e, Go a) -> np (f a)) -> np (wbind m f).
Proof.
  unfold np, wbind. destruct m as [e [a|s]]; cbn [snd]; intros Hm Hf; [|intros Hx; apply Hm; injection Hx as ->; reflexivity].
  specialize (Hf e a eq_refl). destruct (f a) as [e' r]. exact Hf.
Qed.

Lemma np_ret {A} (a : A) : np (ret a). Proof. discriminate. Qed.
Lemma np_failed {A} : np (@halt A HFailed). Proof. discriminate. Qed.
Lemma np_stalled {A} : np (@halt A HStalled). Proof. discriminate. Qed.
Lemma np_guard b : np (guard b). Proof. destruct b; discriminate. Qed.
Lemma np_emit x : np (emit x). Proof. discriminate. Qed.
Lemma np_of_outcome {A} (o : outcome A) : o <> Panic -> np (of_outcome o).
Proof. destruct o; [discriminate|discriminate|congruence]. Qed.
Lemma np_of_checked {A} (o : outcome A) : (exists a, o = Ok a) -> np (of_checked o).
Proof. intros [a ->]. discriminate. Qed.

(* ---------------------------------------------------------------------------------------------- *)
(* what reading from a byte string yields *)
Lemma take_n_okb n l a r : take_n n l = Some (a, r) -> okb l -> okb a /\ okb r /\ length a = n.
Proof.
  intros Ht Ho. destruct (take_n_inv _ _ _ _ Ht) as [-> Hl]. apply okb_app in Ho. tauto.
Qed.

Lemma pop_big_okb w l n r : pop_big w l = Some (n, r) -> okb l -> n < 256 ^ N.of_nat w /\ okb r.
Proof.
  unfold pop_big. destruct (take_n w l) as [[a r']|] eqn:Ht; [|discriminate]. intros [= <- <-] Ho.
  destruct (take_n_okb _ _ _ _ Ht Ho) as (Oa & Or & La). split; [|exact Or]. rewrite <- La. apply of_be_bound, Oa.
Qed.

Lemma pop32_okb l c r : pop32 l = Some (c, r) -> okb l -> okb r.
Proof.
  unfold pop32. destruct l as [|a [|b [|c' [|d r']]]]; try discriminate. intros [= _ <-] Ho.
  apply okb_cons in Ho as [_ Ho]. apply okb_cons in Ho as [_ Ho]. apply okb_cons in Ho as [_ Ho].
  apply okb_cons in Ho as [_ Ho]. exact Ho.
Qed.

Lemma take_okb n l m r : take n l = Some (m, r) -> okb l -> okb m /\ okb r /\ blen m = n.
Proof.
  unfold take. destruct (N.eqb_spec n 0) as [->|Hn].
  - intros [= <- <-] Ho. repeat split; auto.
  - destruct l as [|x l']; [discriminate|]. destruct (N.ltb_spec (blen (x :: l')) n); [discriminate|].
    intros [= <- <-] Ho. split; [apply okb_firstn, Ho|]. split; [apply okb_skipn, Ho|].
    unfold blen in *. rewrite firstn_length. lia.
Qed.

Lemma take_pad_okb n l m r : take_pad n l = Some (m, r) -> okb l -> okb r.
Proof.
  unfold take_pad. destruct (n =? 0); [intros [= _ <-]; auto|]. intros Ht Ho. now destruct (take_okb _ _ _ _ Ht Ho) as (_ & ? & _).
Qed.

Lemma pop_bytes_okb l m r : pop_bytes l = Some (m, r) -> okb l -> okb m /\ okb r /\ blen m < two24.
Proof.
  unfold pop_bytes. destruct l as [|b0 l0]; [discriminate|]. intros Hp Ho. apply okb_cons in Ho as [Hb0 Ho].
  destruct (N.eqb_spec b0 254) as [->|Hne].
  - destruct l0 as [|a [|b' [|c r']]]; try discriminate.
    apply okb_cons in Ho as [Ha Ho]. apply okb_cons in Ho as [Hb Ho]. apply okb_cons in Ho as [Hc Ho].
    destruct (take (a + 256 * b' + 65536 * c) r') as [[m' r'']|] eqn:Ht; [|discriminate].
    destruct (take_okb _ _ _ _ Ht Ho) as (Om & Or & Lm).
    destruct (take_pad (padlen (a + 256 * b' + 65536 * c)) r'') as [[pd r3]|] eqn:Hpd; [|discriminate].
    destruct (all_zero pd); [|discriminate]. injection Hp as <- <-.
    split; [exact Om|]. split; [eapply take_pad_okb; eauto|]. unfold two24. lia.
  - destruct (take b0 l0) as [[m' r'']|] eqn:Ht; [|discriminate].
    destruct (take_okb _ _ _ _ Ht Ho) as (Om & Or & Lm).
    destruct (take_pad (padlen (1 + b0)) r'') as [[pd r3]|] eqn:Hpd; [|discriminate].
    destruct (all_zero pd); [|discriminate]. injection Hp as <- <-.
    split; [exact Om|]. split; [eapply take_pad_okb; eauto|]. unfold two24. lia.
Qed.

Lemma dec_reply_res_pq_inv r n s pqb fps : dec_reply r = DObj (RResPQ n s pqb fps) -> okb r ->
  s < 256 ^ 16 /\ blen pqb < two24.
Proof.
  unfold dec_reply. destruct (pop32 r) as [[c r0]|] eqn:H0; [|discriminate]. intros Hd Ho.
  pose proof (pop32_okb _ _ _ H0 Ho) as O0.
  destruct (c =? crc_res_pq).
  - destruct (pop_big 16 r0) as [[n' r1]|] eqn:H1; [|discriminate]. destruct (pop_big_okb _ _ _ _ H1 O0) as [_ O1].
    destruct (pop_big 16 r1) as [[s' r2]|] eqn:H2; [|discriminate]. destruct (pop_big_okb _ _ _ _ H2 O1) as [Hs O2].
    destruct (pop_bytes r2) as [[pq' r3]|] eqn:H3; [|discriminate]. destruct (pop_bytes_okb _ _ _ H3 O2) as (_ & _ & Hl).
    destruct (pop_vec_long r3) as [[fps' r4]|]; [|discriminate]. injection Hd as <- <- <- <-.
    split; [exact Hs|exact Hl].
  - repeat match type of Hd with
    | (if ?b then _ else _) = _ => destruct b
    | match ?x with _ => _ end = _ => destruct x as [[[? ?] ?]|]
    end; try discriminate.
    all: repeat match type of Hd with
    | match ?x with _ => _ end = _ => destruct x as [[? ?]|]
    end; try discriminate.
Qed.

Lemma dec_reply_dh_ok_inv r n s enc : dec_reply r = DObj (RDHOk n s enc) -> okb r -> okb enc.
Proof.
  unfold dec_reply. destruct (pop32 r) as [[c r0]|] eqn:H0; [|discriminate]. intros Hd Ho.
  pose proof (pop32_okb _ _ _ H0 Ho) as O0.
  destruct (c =? crc_res_pq).
  { repeat match type of Hd with
    | match ?x with _ => _ end = _ => destruct x as [[? ?]|]
    end; discriminate. }
  destruct (c =? crc_dh_ok).
  - destruct (pop_big 16 r0) as [[n' r1]|] eqn:H1; [|discriminate]. destruct (pop_big_okb _ _ _ _ H1 O0) as [_ O1].
    destruct (pop_big 16 r1) as [[s' r2]|] eqn:H2; [|discriminate]. destruct (pop_big_okb _ _ _ _ H2 O1) as [_ O2].
    destruct (pop_bytes r2) as [[e' r3]|] eqn:H3; [|discriminate]. destruct (pop_bytes_okb _ _ _ H3 O2) as (Oe & _ & _).
    injection Hd as <- <- <-. exact Oe.
  - repeat match type of Hd with
    | (if ?b then _ else _) = _ => destruct b
    | match ?x with _ => _ end = _ => destruct x as [[[? ?] ?]|]
    end; try discriminate.
Qed.

Lemma dec_inner_inv l dhi : dec_inner l = Some dhi -> okb l -> okb (i_dh_prime dhi) /\ blen (i_dh_prime dhi) < two24.
Proof.
  unfold dec_inner. destruct (pop32 l) as [[c r0]|] eqn:H0; [|discriminate]. intros Hd Ho.
  pose proof (pop32_okb _ _ _ H0 Ho) as O0.
  destruct (negb (c =? crc_dh_inner)); [discriminate|].
  destruct (pop_big 16 r0) as [[n' r1]|] eqn:H1; [|discriminate]. destruct (pop_big_okb _ _ _ _ H1 O0) as [_ O1].
  destruct (pop_big 16 r1) as [[s' r2]|] eqn:H2; [|discriminate]. destruct (pop_big_okb _ _ _ _ H2 O1) as [_ O2].
  destruct (pop32 r2) as [[g r3]|] eqn:H3; [|discriminate]. pose proof (pop32_okb _ _ _ H3 O2) as O3.
  destruct (pop_bytes r3) as [[dp r4]|] eqn:H4; [|discriminate]. destruct (pop_bytes_okb _ _ _ H4 O3) as (Od & O4 & Ld).
  destruct (pop_bytes r4) as [[ga r5]|]; [|discriminate]. destruct (pop32 r5) as [[t r6]|]; [|discriminate].
  injection Hd as <-. cbn [i_dh_prime]. split; assumption.
Qed.

(* ---------------------------------------------------------------------------------------------- *)
Section NoPanic.
Variable H : bytes -> bytes.
Variables E D : bytes -> bytes -> bytes.
Variable modexp : Z -> Z -> Z -> Z.
Variable is_prime : N -> bool.
Variable split : N -> option (N * N).

Hypothesis H_len : forall m, length (H m) = 20%nat.
Hypothesis H_ok : forall m, okb (H m).
Hypothesis E_len : forall k b, length (E k b) = 16%nat.
Hypothesis D_len : forall k b, length (D k b) = 16%nat.
Hypothesis D_ok : forall k b, okb k -> okb b -> okb (D k b).
Hypothesis modexp_spec : forall b e m, (0 <= e)%Z -> (0 < m)%Z -> modexp b e m = ((b ^ e) mod m)%Z.
Hypothesis split_sound : forall n a b, split n = Some (a, b) -> a * b = n /\ 1 < a /\ a <= b.

Variable dr : draws.
Hypothesis DR : draws_ok dr.
Variable e : env.
Hypothesis env_ok : forall h r, e h = Some (Reply r) -> okb r.

Lemma np_request hist f : np (request hist f e).
Proof.
  unfold request. apply np_bind; [apply np_emit|]. intros _ _ _.
  destruct (e (hist ++ [f])) as [[r| |]|]; try apply np_failed; [|apply np_stalled].
  destruct (dec_reply r); [apply np_ret|apply np_failed|apply np_failed].
Qed.

Lemma fingerprint64_ok pk : exists f, fingerprint64 H pk = Ok f.
Proof.
  unfold fingerprint64. set (h := H _). assert (Lh : length h = 20%nat) by apply H_len.
  rewrite gslice_ok by lia. cbn [obind]. rewrite firstn_length, skipn_length, Lh. cbn. eauto.
Qed.

Lemma find_fp_total fps f : exists b, find_fp fps (Ok f) = Ok b.
Proof.
  induction fps as [|x r IH]; cbn [find_fp obind]; [eauto|]. destruct (x =? f); [eauto|exact IH].
Qed.

Lemma int128_fit n : n < 256 ^ 16 -> int128_m n = Ok (fixed_bytes 16 n).
Proof. intros Hn. apply dry_big_int_bytes_fit. exact Hn. Qed.

Lemma blen_big_bytes_lt n k : n < 256 ^ k -> k < two24 -> blen (big_bytes n) < two24.
Proof.
  intros Hn Hk. pose proof (big_bytes_length_le (N.to_nat k) n) as Hl. rewrite N2Nat.id in Hl.
  specialize (Hl Hn). unfold blen. lia.
Qed.

Lemma tl_bytes_total b : blen b < two24 -> exists x, tl_bytes b = Ok x.
Proof. intros Hb. destruct (tl_bytes_some b Hb) as [x Hx]. exists x. now apply tl_bytes_ok. Qed.

Lemma tl_bytes_np b : tl_bytes b <> Panic.
Proof. unfold tl_bytes. destruct (put_bytes b); discriminate. Qed.

(* the nonces the client holds after resPQ: the first drawn, the second read from 16 bytes *)
Let nonce := of_be (d_nonce dr).
Let nn := of_be (d_new_nonce dr).

Lemma nonce_m : int128_m nonce = Ok (d_nonce dr).
Proof. pose proof DR as (L & O & _). apply int128_raw; assumption. Qed.
Lemma nn_m : int256_m nn = Ok (d_new_nonce dr).
Proof. pose proof DR as (_ & _ & L & O & _). apply int256_raw; assumption. Qed.

Lemma stage1_np pk : np (stage1 H modexp is_prime split pk dr e).
Proof.
  unfold stage1. fold nonce nn.
  apply np_bind. { apply np_of_outcome. unfold enc_req_pq. rewrite nonce_m. discriminate. }
  intros e1 f1 Hf1. apply np_bind; [apply np_request|]. intros e2 [o h] Hreq.
  apply request_go in Hreq as (_ & _ & r1 & He & Hd). cbn [fst snd].
  destruct o; try apply np_failed.
  destruct (dec_reply_res_pq_inv _ _ _ _ _ Hd (env_ok _ _ He)) as [Hsrv Hpq].
  apply np_bind; [apply np_guard|]. intros _ _ _.
  destruct (fingerprint64_ok pk) as [f Hf]. rewrite Hf.
  destruct (find_fp_total fps f) as [bf Hbf]. rewrite Hbf.
  apply np_bind; [apply np_of_outcome; discriminate|]. intros ? found ?.
  apply np_bind; [apply np_guard|]. intros _ _ _.
  apply np_bind; [apply np_guard|]. intros e3 u Hg. apply guard_go in Hg as [Hg _].
  apply negb_true_iff in Hg. apply orb_false_iff in Hg as [Hg _]. apply orb_false_iff in Hg as [Hle Hsz].
  destruct (split (of_be pq)) as [[p q]|] eqn:Hsp; [|apply np_stalled].
  destruct (split_sound _ _ _ Hsp) as (Hmul & Hp1 & Hporder).
  assert (Hpq64 : of_be pq < 2 ^ 64).
  { apply N.ltb_ge in Hsz. pose proof (N.size_gt (of_be pq)) as Hs.
    eapply N.lt_le_trans; [exact Hs|]. apply N.pow_le_mono_r; lia. }
  assert (Hp : p < 256 ^ 8) by (change (256 ^ 8) with (2 ^ 64); nia).
  assert (Hq : q < 256 ^ 8) by (change (256 ^ 8) with (2 ^ 64); nia).
  destruct (tl_bytes_total pq Hpq) as [tpq Htpq].
  destruct (tl_bytes_total (big_bytes p) (blen_big_bytes_lt p 8 Hp ltac:(unfold two24; lia))) as [tp Htp].
  destruct (tl_bytes_total (big_bytes q) (blen_big_bytes_lt q 8 Hq ltac:(unfold two24; lia))) as [tq Htq].
  apply np_bind.
  { apply np_of_checked. unfold enc_pq_inner. rewrite Htpq, Htp, Htq. cbn [obind].
    rewrite nonce_m, (int128_fit srv Hsrv), nn_m. cbn [obind]. eauto. }
  intros _ message _.
  apply np_bind.
  { apply np_of_outcome. unfold rsa_encrypt. rewrite copy_into_length by (rewrite zbuf_length; lia).
    rewrite zbuf_length. cbn. discriminate. }
  intros _ encrypted _.
  apply np_bind; [apply np_of_outcome; discriminate|]. intros ? fp' ?.
  apply np_bind; [|intros; apply np_ret].
  apply np_of_outcome. unfold enc_req_dh. rewrite nonce_m, (int128_fit srv Hsrv). cbn [obind].
  rewrite Htp, Htq. cbn [obind]. destruct (tl_bytes encrypted) eqn:Ht; cbn [obind]; try discriminate.
  now apply tl_bytes_np in Ht.
Qed.

(* ---------------------------------------------------------------------------------------------- *)
(* the decrypted answer is a byte string *)
Lemma ige_dec_okb (Dk : bytes -> bytes) : (forall b, okb b -> okb (Dk b)) ->
  forall cs c0 p0, okb c0 -> okb p0 -> Forall (fun b => okb b) cs -> Forall (fun b => okb b) (ige_dec Dk c0 p0 cs).
Proof.
  intros HD. induction cs as [|c r IH]; intros c0 p0 Oc Op Hf; cbn [ige_dec]; [constructor|].
  apply Forall_cons_iff in Hf as [Hc Hr].
  assert (Ox : okb (xorb (Dk (xorb c p0)) c0)) by (apply xorb_okb; [apply HD, xorb_okb; assumption|assumption]).
  constructor; [exact Ox|]. apply IH; assumption.
Qed.

Lemma concat_okb (l : list bytes) : Forall (fun b => okb b) l -> okb (concat l).
Proof. induction 1 as [|x r Hx Hr IH]; cbn [concat]; [reflexivity|]. apply okb_app. split; assumption. Qed.

Lemma ige_decrypt_okb k iv d : okb k -> okb iv -> okb d -> okb (ige_decrypt D k iv d).
Proof.
  intros Ok Oiv Od. unfold ige_decrypt. apply concat_okb. apply ige_dec_okb.
  - intros b Ob. apply D_ok; assumption.
  - apply okb_firstn, Oiv.
  - apply okb_skipn, Oiv.
  - apply chunks16_ok, Od.
Qed.

Lemma try_cuts_e_np hash m : forall fuel j, try_cuts_e H fuel j hash m <> Panic.
Proof.
  induction fuel as [|f IH]; intros j; cbn [try_cuts_e]; [discriminate|].
  destruct (length m <? j)%nat; [discriminate|]. destruct (beq hash _); [discriminate|apply IH].
Qed.

Lemma try_cuts_e_prefix hash m : forall fuel j x, try_cuts_e H fuel j hash m = Ok x -> exists k, x = firstn k m.
Proof.
  induction fuel as [|f IH]; intros j x; cbn [try_cuts_e]; [discriminate|].
  destruct (length m <? j)%nat; [discriminate|]. destruct (beq hash _); [intros [= <-]; eauto|apply IH].
Qed.

Lemma nn_raw_facts : length (d_new_nonce dr) = 32%nat /\ okb (d_new_nonce dr).
Proof. pose proof DR as (_ & _ & L & O & _). split; assumption. Qed.

Lemma temp_keys_are srv : srv < 256 ^ 16 ->
  generate_temp_keys H nn srv = Ok (tmp_aes_key H (d_new_nonce dr) (fixed_bytes 16 srv), tmp_aes_iv H (d_new_nonce dr) (fixed_bytes 16 srv)).
Proof.
  intros Hs. destruct nn_raw_facts as [L O]. unfold nn.
  rewrite <- (of_be_fixed_bytes 16 srv) at 1.
  apply (generate_temp_keys_spec H H_len); auto; [apply fixed_bytes_length; exact Hs|apply fixed_bytes_ok].
Qed.

Lemma try_decrypt_facts enc srv : srv < 256 ^ 16 -> okb enc ->
  try_decrypt_temp H D enc nn srv <> Panic /\ (forall ans, try_decrypt_temp H D enc nn srv = Ok ans -> okb ans).
Proof.
  intros Hs Oe. destruct nn_raw_facts as [L O]. unfold try_decrypt_temp. rewrite (temp_keys_are srv Hs). cbn [obind fst snd].
  set (k := tmp_aes_key H _ _). set (iv := tmp_aes_iv H _ _).
  assert (Lk : key_len_ok k = true) by (apply key_len_ok_32, tmp_aes_key_length, H_len).
  assert (Liv : length iv = 32%nat) by (apply tmp_aes_iv_length; assumption).
  assert (Ok : okb k) by apply (tmp_aes_key_ok H H_ok).
  assert (Oiv : okb iv) by (apply (tmp_aes_iv_ok H H_ok), O).
  destruct (is_correct_data enc) eqn:Hc.
  - apply is_correct_data_iff in Hc as (n & Hn1 & Hn).
    rewrite (do_decrypt_is_ige D D_len k iv enc (zbuf (length enc)) n Lk Liv Hn Hn1) by (rewrite zbuf_length; lia).
    rewrite skipn_all2 by (rewrite zbuf_length; lia). rewrite app_nil_r. cbn [returned obind].
    set (dec := ige_decrypt D k iv enc). assert (Od : okb dec) by (apply ige_decrypt_okb; assumption).
    destruct (Nat.ltb_spec (length dec) 20); [split; [discriminate|discriminate]|].
    rewrite !gslice_ok by lia. cbn [obind]. split; [apply try_cuts_e_np|].
    intros ans Ha. destruct (try_cuts_e_prefix _ _ _ _ _ Ha) as [j ->]. apply okb_firstn, okb_firstn, okb_skipn, Od.
  - assert (Hbad : length enc = 0%nat \/ Nat.modulo (length enc) 16 <> 0%nat).
    { unfold is_correct_data in Hc. apply andb_false_iff in Hc as [Hc|Hc].
      - apply Nat.leb_gt in Hc. destruct (Nat.eq_dec (length enc) 0); [now left|right]. rewrite Nat.mod_small; lia.
      - right. now apply Nat.eqb_neq. }
    destruct (do_encrypt_rejects_err D D k iv enc (zbuf (length enc)) Lk ltac:(lia) Hbad) as [_ Hd].
    rewrite Hd. cbn [returned obind]. split; discriminate.
Qed.

Lemma stage2_np s : s1_nonce s = nonce -> s1_new s = nn -> s1_srv s < 256 ^ 16 ->
  np (stage2 H E D modexp dr e s).
Proof.
  intros Hn Hnn Hsrv. unfold stage2. rewrite Hn, Hnn. set (srv := s1_srv s) in *.
  apply np_bind; [apply np_request|]. intros e2 [o h] Hreq.
  apply request_go in Hreq as (_ & _ & r2 & He & Hd). cbn [fst snd].
  destruct o; try apply np_failed.
  pose proof (dec_reply_dh_ok_inv _ _ _ _ Hd (env_ok _ _ He)) as Oenc.
  apply np_bind; [apply np_guard|]. intros _ _ _. apply np_bind; [apply np_guard|]. intros _ _ _.
  destruct (try_decrypt_facts enc srv Hsrv Oenc) as [Hnp Hok].
  apply np_bind; [apply np_of_outcome, Hnp|]. intros e3 answer Ha. apply of_outcome_go in Ha as [Ha _].
  specialize (Hok _ Ha).
  destruct (dec_inner answer) as [dhi|] eqn:Hdi; [|apply np_failed].
  destruct (dec_inner_inv _ _ Hdi Hok) as [Odp Ldp].
  apply np_bind; [apply np_guard|]. intros _ _ _. apply np_bind; [apply np_guard|]. intros _ _ _.
  apply np_bind; [apply np_guard|]. intros e4 u Hg. apply guard_go in Hg as [Hg _].
  apply negb_true_iff in Hg. apply orb_false_iff in Hg as [Hlo Hhi].
  apply N.leb_gt in Hlo. apply Z.leb_gt in Hhi.
  set (p := of_be (i_dh_prime dhi)) in *. set (ga := of_be (i_ga dhi)) in *.
  assert (Hp : 0 < p) by lia.
  set (gb := Z.to_N (modexp (to_i32 (i_g dhi)) (Z.of_N (of_be (d_b dr))) (Z.of_N p))).
  assert (Hgb : gb < p).
  { unfold gb. rewrite modexp_spec by lia.
    pose proof (Z.mod_pos_bound (to_i32 (i_g dhi) ^ Z.of_N (of_be (d_b dr))) (Z.of_N p) ltac:(lia)). lia. }
  assert (Hpb : p < 256 ^ blen (i_dh_prime dhi)) by (unfold p, blen; apply of_be_bound, Odp).
  apply np_bind. { apply np_of_outcome. rewrite gslice_ok by (rewrite ?H_len; lia). discriminate. }
  intros _ aux _.
  apply np_bind. { apply np_of_outcome. rewrite gslice_ok by (rewrite ?H_len; lia). discriminate. }
  intros _ hash1 _.
  apply np_bind. { apply np_of_outcome. pose proof (fixed_bytes_length_ge 32 nn). rewrite gslice_ok by lia. discriminate. }
  intros _ s8 _.
  apply np_bind. { apply np_of_outcome. pose proof (fixed_bytes_length_ge 16 srv). rewrite gslice_ok by lia. discriminate. }
  intros _ v8 _.
  destruct (tl_bytes_total (big_bytes gb) (blen_big_bytes_lt gb (blen (i_dh_prime dhi)) ltac:(lia) Ldp)) as [tgb Htgb].
  apply np_bind.
  { apply np_of_checked. unfold enc_client_inner. rewrite nonce_m, (int128_fit srv Hsrv). cbn [obind].
    rewrite Htgb. cbn [obind]. eauto. }
  intros _ inner _.
  apply np_bind.
  { apply np_of_outcome. destruct nn_raw_facts as [L O]. pose proof DR as (_ & _ & _ & _ & _ & _ & Lp & Op).
    unfold nn. rewrite <- (of_be_fixed_bytes 16 srv).
    rewrite (encrypt_temp_spec H E H_len E_len (d_pad dr) (d_new_nonce dr) (fixed_bytes 16 srv) inner Lp L O
               (fixed_bytes_length 16 srv Hsrv) (fixed_bytes_ok 16 srv)). discriminate. }
  intros _ enc2 _.
  apply np_bind; [|intros; apply np_ret].
  apply np_of_outcome. unfold enc_set_client_dh. rewrite nonce_m, (int128_fit srv Hsrv). cbn [obind].
  destruct (tl_bytes enc2) eqn:Ht; cbn [obind]; try discriminate. now apply tl_bytes_np in Ht.
Qed.

Lemma stage3_np s : np (stage3 H e s).
Proof.
  unfold stage3. apply np_bind; [apply np_request|]. intros e2 [o h] _. cbn [fst].
  destruct o; try apply np_failed.
  apply np_bind; [apply np_guard|]. intros _ _ _. apply np_bind; [apply np_guard|]. intros _ _ _.
  apply np_bind; [apply np_guard|]. intros _ _ _.
  apply np_bind. { apply np_of_outcome. unfold auth_key_hash. rewrite gslice_ok by (rewrite ?H_len; lia). discriminate. }
  intros _ kh _. apply np_bind; [apply np_emit|]. intros; apply np_ret.
Qed.

Theorem handshake_no_panic pk : np (handshake H E D modexp is_prime split pk dr e).
Proof.
  unfold handshake. apply np_bind; [apply stage1_np|]. intros e1 a Ha.
  apply stage1_go in Ha as (f1 & r1 & pqb & fps & fp & p & q & message & encrypted & _ & _ & He1 & Hd1 & _ & _ &
                            _ & _ & _ & _ & _ & _ & _ & Hn & Hnn & _).
  destruct (dec_reply_res_pq_inv _ _ _ _ _ Hd1 (env_ok _ _ He1)) as [Hsrv _].
  apply np_bind; [apply stage2_np; assumption|]. intros e2 b _. apply stage3_np.
Qed.

End NoPanic.

Lemma handshake_go_success (H : bytes -> bytes) (E D : bytes -> bytes -> bytes) (modexp : Z -> Z -> Z -> Z)
    (is_prime : N -> bool) (split : N -> option (N * N)) pk dr e eff f :
  handshake H E D modexp is_prime split pk dr e = (eff, Go f) -> exists k h s, f = Success k h s.
Proof.
  unfold handshake.
  destruct (stage1 H modexp is_prime split pk dr e) as [e1 [a|st]]; cbn [wbind]; [|discriminate].
  destruct (stage2 H E D modexp dr e a) as [e2 [b|st]]; cbn [wbind]; [|discriminate].
  destruct (stage3 H e b) as [e3 r3] eqn:H3. intros [= <- ->].
  apply stage3_spec in H3 as (kh & _ & _ & _ & _ & -> & _). eauto.
Qed.

(* the statement for Props/C07.v: the run - with or without a first request - never ends Panicked *)
Theorem no_panic (H : bytes -> bytes) (E D : bytes -> bytes -> bytes) (modexp : Z -> Z -> Z -> Z)
    (is_prime : N -> bool) (split : N -> option (N * N)) :
  (forall m, length (H m) = 20%nat) -> (forall m, okb (H m)) ->
  (forall k b, length (E k b) = 16%nat) -> (forall k b, length (D k b) = 16%nat) ->
  (forall k b, okb k -> okb b -> okb (D k b)) ->
  (forall b e m, (0 <= e)%Z -> (0 < m)%Z -> modexp b e m = ((b ^ e) mod m)%Z) ->
  (forall n a b, split n = Some (a, b) -> a * b = n /\ 1 < a /\ a <= b) ->
  forall pk dr (e : env), draws_ok dr -> (forall h r, e h = Some (Reply r) -> okb r) ->
  forall sid msgid seq ack body eff fin,
    connect_and_request H E D modexp is_prime split pk dr e sid msgid seq ack body = (eff, fin) ->
    fin <> Stopped HPanicked.
Proof.
  intros HL HO EL DL DO ME SS pk dr e DR EO sid msgid seq ack body eff fin.
  pose proof (handshake_no_panic H E D modexp is_prime split HL HO EL DL DO ME SS dr DR e EO pk) as Hnp.
  unfold connect_and_request, np in *.
  destruct (handshake H E D modexp is_prime split pk dr e) as [eff0 [f|st]] eqn:Hh; cbn [outcome_of snd] in *.
  - destruct (handshake_go_success H E D modexp is_prime split pk dr e eff0 f Hh) as (k & h & s & ->).
    destruct (seal_client H (ige_encrypt E) k s sid msgid seq ack body); intros [= <- <-]; discriminate.
  - intros [= <- <-] Hx. injection Hx as ->. now apply Hnp.
Qed.
