(* C07: what a successful key exchange implies about the server's replies, that an abandoned one leaves nothing
   behind, and that makeAuthKey never panics.  Model: Handshake/Client.v. *)
From Coq Require Import ZArith NArith List Lia ZifyN ZifyNat ZifyBool Bool.
From MTV Require Import Base.Bytes Base.Outcome Prim.Xor Crypto.Ige Crypto.IgeMem Crypto.IgeProofs Crypto.TempKeys
  Crypto.TempKeysProofs Crypto.Envelope TL.Types Handshake.Bytes Handshake.Objects Handshake.ObjectsProofs Handshake.Client.
Import ListNotations.
Open Scope N_scope.
Ltac Zify.zify_post_hook ::= Z.div_mod_to_equations.

(* ---------------------------------------------------------------------------------------------- *)
(* the writer monad *)
Lemma wbind_go {A B} (m : W A) (f : A -> W B) eff b :
  wbind m f = (eff, Go b) -> exists e1 a e2, m = (e1, Go a) /\ f a = (e2, Go b) /\ eff = e1 ++ e2.
Proof.
  unfold wbind. destruct m as [e1 [a|s]]; [|discriminate].
  destruct (f a) as [e2 r] eqn:Hf. intros [= <- ->]. eauto 6.
Qed.

Lemma wbind_halt {A B} (m : W A) (f : A -> W B) eff st :
  wbind m f = (eff, Halt st) ->
  m = (eff, Halt st) \/ exists e1 a e2, m = (e1, Go a) /\ f a = (e2, Halt st) /\ eff = e1 ++ e2.
Proof.
  unfold wbind. destruct m as [e1 [a|s]].
  - destruct (f a) as [e2 r] eqn:Hf. intros [= <- ->]. right. eauto 6.
  - intros [= <- <-]. now left.
Qed.

Lemma of_outcome_go {A} (o : outcome A) eff a : of_outcome o = (eff, Go a) -> o = Ok a /\ eff = [].
Proof. destruct o; cbn; intros [= <- <-] || discriminate. auto. Qed.

Lemma of_checked_go {A} (o : outcome A) eff a : of_checked o = (eff, Go a) -> o = Ok a /\ eff = [].
Proof. destruct o; cbn; intros [= <- <-] || discriminate. auto. Qed.

Lemma guard_go b eff u : guard b = (eff, Go u) -> b = true /\ eff = [].
Proof. destruct b; cbn; intros [= <-] || discriminate. auto. Qed.

Definition is_plain (x : effect) : Prop := exists b, x = SendPlain b.
Definition plain_only (eff : list effect) : Prop := Forall is_plain eff.

Lemma plain_only_app a b : plain_only a -> plain_only b -> plain_only (a ++ b).
Proof. intros. apply Forall_app; auto. Qed.

Lemma wbind_plain {A B} (m : W A) (f : A -> W B) :
  plain_only (fst m) -> (forall a, plain_only (fst (f a))) -> plain_only (fst (wbind m f)).
Proof.
  intros Hm Hf. unfold wbind. destruct m as [e1 [a|s]]; [|exact Hm].
  specialize (Hf a). destruct (f a) as [e2 r]. cbn [fst] in *. now apply plain_only_app.
Qed.

Lemma plain_nil : plain_only [].
Proof. constructor. Qed.

Lemma of_outcome_plain {A} (o : outcome A) : plain_only (fst (of_outcome o)).
Proof. destruct o; apply plain_nil. Qed.
Lemma of_checked_plain {A} (o : outcome A) : plain_only (fst (of_checked o)).
Proof. destruct o; apply plain_nil. Qed.
Lemma guard_plain b : plain_only (fst (guard b)).
Proof. destruct b; apply plain_nil. Qed.

Section Abort.
Variable H : bytes -> bytes.
Variables E D : bytes -> bytes -> bytes.
Variable modexp : Z -> Z -> Z -> Z.
Variable is_prime : N -> bool.
Variable split : N -> option (N * N).

Notation stage1 := (stage1 H modexp is_prime split).
Notation stage2 := (stage2 H E D modexp).
Notation stage3 := (stage3 H).
Notation handshake := (handshake H E D modexp is_prime split).
Notation connect_and_request := (connect_and_request H E D modexp is_prime split).

Lemma request_plain hist f e : plain_only (fst (request hist f e)).
Proof.
  unfold Client.request. apply wbind_plain; [repeat constructor; now exists f|]. intros _.
  destruct (e (hist ++ [f])) as [[b| |]|]; try apply plain_nil.
  destruct (dec_reply b); apply plain_nil.
Qed.

Lemma request_go hist f e eff o h :
  request hist f e = (eff, Go (o, h)) ->
  eff = [SendPlain f] /\ h = hist ++ [f] /\ exists r, e (hist ++ [f]) = Some (Reply r) /\ dec_reply r = DObj o.
Proof.
  unfold Client.request, wbind, emit. destruct (e (hist ++ [f])) as [[r| |]|]; try discriminate.
  destruct (dec_reply r) as [o'| |] eqn:Hd; cbn.
  - intros [= <- <- <-]. eauto.
  - discriminate.
  - discriminate.
Qed.

Ltac plain_step :=
  first [ apply plain_nil | apply of_outcome_plain | apply of_checked_plain | apply guard_plain | apply request_plain
        | apply wbind_plain; [|intros ?] ].

Lemma stage1_plain pk dr e : plain_only (fst (stage1 pk dr e)).
Proof.
  unfold Client.stage1. repeat plain_step.
  destruct (fst a0); try apply plain_nil. repeat plain_step.
  destruct (split (of_be pq)) as [[p q]|]; [|apply plain_nil]. repeat plain_step.
Qed.

Lemma stage2_plain dr e s : plain_only (fst (stage2 dr e s)).
Proof.
  unfold Client.stage2. repeat plain_step.
  destruct (fst a); try apply plain_nil. repeat plain_step.
  destruct (dec_inner a2); [|apply plain_nil]. repeat plain_step.
Qed.

(* the last exchange: either it stops with plain sends only, or it saves exactly the negotiated secrets *)
Lemma stage3_spec e s eff r : stage3 e s = (eff, r) ->
  match r with
  | Halt _ => plain_only eff
  | Go f => exists kh n3 sv3 h3 r3,
      f = Success (s2_key s) kh (s2_salt s) /\
      eff = [SendPlain (s2_f3 s); Save (s2_key s) kh (s2_salt s)] /\
      e (s2_hist s ++ [s2_f3 s]) = Some (Reply r3) /\ dec_reply r3 = DObj (RGenOk n3 sv3 h3) /\
      s2_nonce s = n3 /\ s2_srv s = sv3 /\ s2_hash1 s = fixed_bytes 16 h3 /\
      auth_key_hash H (s2_key s) = Ok kh
  end.
Proof.
  intros Hs. destruct r as [f|st].
  - unfold Client.stage3 in Hs. apply wbind_go in Hs as (e1 & [o h] & e2 & Hr & Hs & ->).
    apply request_go in Hr as (-> & -> & r3 & He & Hd). cbn [fst] in Hs.
    destruct o; try discriminate.
    apply wbind_go in Hs as (e3 & [] & e4 & Hg1 & Hs & ->). apply guard_go in Hg1 as [Hg1 ->].
    apply wbind_go in Hs as (e5 & [] & e6 & Hg2 & Hs & ->). apply guard_go in Hg2 as [Hg2 ->].
    apply wbind_go in Hs as (e7 & [] & e8 & Hg3 & Hs & ->). apply guard_go in Hg3 as [Hg3 ->].
    apply wbind_go in Hs as (e9 & kh & e10 & Hk & Hs & ->). apply of_outcome_go in Hk as [Hk ->].
    cbv [wbind emit ret app] in Hs. apply pair_equal_spec in Hs as [<- Hs]. injection Hs as <-.
    exists kh, nonce, srv, hash, r3. apply N.eqb_eq in Hg1, Hg2. apply beq_eq in Hg3.
    repeat split; auto.
  - unfold Client.stage3 in Hs.
    apply wbind_halt in Hs as [Hr|(e1 & [o h] & e2 & Hr & Hs & ->)].
    { pose proof (request_plain (s2_hist s) (s2_f3 s) e) as Hp. rewrite Hr in Hp. exact Hp. }
    pose proof (request_plain (s2_hist s) (s2_f3 s) e) as Hp. rewrite Hr in Hp. cbn [fst] in Hp, Hs.
    apply plain_only_app; [exact Hp|].
    destruct o; try (cbv [halt] in Hs; apply pair_equal_spec in Hs as [<- _]; apply plain_nil).
    destruct (s2_nonce s =? nonce); cbv [guard wbind ret halt] in Hs; [|apply pair_equal_spec in Hs as [<- _]; apply plain_nil].
    destruct (s2_srv s =? srv); cbv [guard wbind ret halt] in Hs; [|apply pair_equal_spec in Hs as [<- _]; apply plain_nil].
    destruct (beq (s2_hash1 s) (fixed_bytes 16 hash)); cbv [guard wbind ret halt] in Hs; [|apply pair_equal_spec in Hs as [<- _]; apply plain_nil].
    destruct (auth_key_hash H (s2_key s)); cbv [of_outcome wbind ret halt emit] in Hs;
      apply pair_equal_spec in Hs as [<- Hs]; try discriminate; apply plain_nil.
Qed.


(* ---------------------------------------------------------------------------------------------- *)
(* inversion of the successful paths *)
Tactic Notation "wstep" hyp(Hs) ident(a) ident(Ha) :=
  let e1 := fresh "e" in let e2 := fresh "e" in
  apply wbind_go in Hs as (e1 & a & e2 & Ha & Hs & ->);
  first [apply of_outcome_go in Ha as [Ha ->] | apply of_checked_go in Ha as [Ha ->] | apply guard_go in Ha as [Ha ->]].

Lemma find_fp_true fps o : find_fp fps o = Ok true -> exists f, o = Ok f /\ In f fps.
Proof.
  induction fps as [|b r IH]; cbn [find_fp]; [discriminate|].
  destruct o as [f| |]; cbn [obind]; try discriminate.
  destruct (N.eqb_spec b f) as [->|Hn].
  - intros _. exists f. split; [reflexivity|now left].
  - intros Hr. destruct (IH Hr) as (f' & Hf & Hin). injection Hf as <-. exists f. split; [reflexivity|now right].
Qed.

Lemma stage1_go pk dr e eff s : stage1 pk dr e = (eff, Go s) ->
  exists f1 r1 pqb fps fp p q message encrypted,
    eff = [SendPlain f1] /\ enc_req_pq (of_be (d_nonce dr)) = Ok f1 /\
    e [f1] = Some (Reply r1) /\ dec_reply r1 = DObj (RResPQ (of_be (d_nonce dr)) (s1_srv s) pqb fps) /\
    fingerprint64 H pk = Ok fp /\ In fp fps /\
    (of_be pqb <=? 1) = false /\ (64 <? N.size (of_be pqb)) = false /\ is_prime (of_be pqb) = false /\
    split (of_be pqb) = Some (p, q) /\
    enc_pq_inner pqb (big_bytes p) (big_bytes q) (of_be (d_nonce dr)) (s1_srv s) (of_be (d_new_nonce dr)) = Ok message /\
    rsa_encrypt modexp (copy_into (zbuf 255) 0 (H message ++ message)) pk = Ok encrypted /\
    enc_req_dh (of_be (d_nonce dr)) (s1_srv s) (big_bytes p) (big_bytes q) fp encrypted = Ok (s1_f2 s) /\
    s1_nonce s = of_be (d_nonce dr) /\ s1_new s = of_be (d_new_nonce dr) /\ s1_hist s = [f1].
Proof.
  intros Hs. unfold Client.stage1 in Hs. wstep Hs f1 Hf1.
  apply wbind_go in Hs as (ea & [o h] & eb & Hr & Hs & ->).
  apply request_go in Hr as (-> & -> & r1 & He & Hd). cbn [fst snd app] in *.
  destruct o; try (cbv [halt] in Hs; discriminate).
  wstep Hs u1 Hn. apply N.eqb_eq in Hn. subst nonce.
  wstep Hs found Hfound. wstep Hs u2 Hf. subst found.
  destruct (find_fp_true _ _ Hfound) as (fp & Hfp & Hin).
  wstep Hs u3 Hpq.
  apply negb_true_iff in Hpq. apply orb_false_iff in Hpq as [Hpq Hp]. apply orb_false_iff in Hpq as [Hle Hsz].
  destruct (split (of_be pq)) as [[p q]|] eqn:Hsp; [|cbv [halt] in Hs; discriminate].
  wstep Hs message Hm. wstep Hs encrypted Henc. wstep Hs fp' Hfp'. wstep Hs f2 Hf2.
  cbv [ret] in Hs. apply pair_equal_spec in Hs as [<- Hs]. injection Hs as <-.
  cbn [s1_srv s1_f2 s1_nonce s1_new s1_hist].
  rewrite Hfp in Hfp'. injection Hfp' as <-.
  exists f1, r1, pq, fps, fp, p, q, message, encrypted. repeat split; auto.
Qed.

(* what TryDecryptMessageWithTempKeys accepting means: the decrypted string is SHA1(answer) ++ answer ++ (< 16 bytes) *)
Lemma try_cuts_e_ok hash m : forall fuel j ans, try_cuts_e H fuel j hash m = Ok ans ->
  exists i, (j <= i < j + fuel)%nat /\ (i <= length m)%nat /\ ans = firstn (length m - i) m /\ hash = H ans.
Proof.
  induction fuel as [|f IH]; intros j ans; cbn [try_cuts_e]; [discriminate|].
  destruct (Nat.ltb_spec (length m) j); [discriminate|].
  destruct (beq_spec hash (H (firstn (length m - j) m))) as [Heq|Hne].
  - intros [= <-]. exists j. repeat split; auto; lia.
  - intros Hr. destruct (IH _ _ Hr) as (i & Hi & Hl & Ha & Hh). exists i. repeat split; auto; lia.
Qed.

Lemma try_decrypt_ok enc n2 ns ans : try_decrypt_temp H D enc n2 ns = Ok ans ->
  exists k iv dec inp pad,
    generate_temp_keys H n2 ns = Ok (k, iv) /\
    do_decrypt D enc (zbuf (length enc)) k iv = (Done, dec, inp) /\
    dec = H ans ++ ans ++ pad /\ (length pad < 16)%nat.
Proof.
  unfold try_decrypt_temp. destruct (generate_temp_keys H n2 ns) as [[k iv]| |] eqn:Hk; cbn [obind fst snd]; try discriminate.
  destruct (do_decrypt D enc (zbuf (length enc)) k iv) as [[st dec] inp] eqn:Hd.
  destruct st; cbn [returned obind]; try discriminate.
  destruct (Nat.ltb_spec (length dec) 20); [discriminate|].
  rewrite !gslice_ok by lia. cbn [obind]. intros Hc.
  rewrite Nat.sub_0_r, skipn_O in Hc.
  rewrite (firstn_all2 (n := (length dec - 20)%nat) (skipn 20 dec)) in Hc by (rewrite skipn_length; lia).
  destruct (try_cuts_e_ok _ _ _ _ _ Hc) as (i & Hi & Hl & Ha & Hh).
  set (m := skipn 20 dec) in *.
  assert (Lm : length m = (length dec - 20)%nat) by (unfold m; apply skipn_length).
  assert (La : length ans = (length m - i)%nat) by (rewrite Ha, firstn_length; lia).
  exists k, iv, dec, inp, (skipn (length ans) m).
  split; [first [reflexivity|assumption]|]. split; [first [reflexivity|assumption]|].
  split.
  - rewrite <- Hh. rewrite <- (firstn_skipn 20 dec) at 1. fold m. f_equal.
    rewrite <- (firstn_skipn (length ans) m) at 1. f_equal. rewrite La. symmetry. exact Ha.
  - rewrite skipn_length. lia.
Qed.

Lemma stage2_go dr e s eff t : stage2 dr e s = (eff, Go t) ->
  exists r2 enc_answer answer dhi aux s8 v8 inner enc2,
    eff = [SendPlain (s1_f2 s)] /\ e (s1_hist s ++ [s1_f2 s]) = Some (Reply r2) /\
    dec_reply r2 = DObj (RDHOk (s1_nonce s) (s1_srv s) enc_answer) /\
    try_decrypt_temp H D enc_answer (s1_new s) (s1_srv s) = Ok answer /\
    dec_inner answer = Some dhi /\ i_nonce dhi = s1_nonce s /\ i_srv dhi = s1_srv s /\
    (of_be (i_ga dhi) <=? 1) = false /\ (Z.of_N (of_be (i_dh_prime dhi)) - 1 <=? Z.of_N (of_be (i_ga dhi)))%Z = false /\
    s2_key t = fixed_bytes 256 (zexp modexp (of_be (i_ga dhi)) (of_be (d_b dr)) (of_be (i_dh_prime dhi))) /\
    gslice (H (s2_key t)) 0 8 = Ok aux /\
    gslice (H (copy_into (copy_into (copy_into (zbuf 41) 0 (fixed_bytes 32 (s1_new s))) 32 [1]) 33 aux)) 4 20 = Ok (s2_hash1 t) /\
    gslice (fixed_bytes 32 (s1_new s)) 0 8 = Ok s8 /\ gslice (fixed_bytes 16 (s1_srv s)) 0 8 = Ok v8 /\
    s2_salt t = of_le (xorb (copy_into (zbuf 8) 0 s8) v8) /\
    enc_client_inner (s1_nonce s) (s1_srv s) 0
      (big_bytes (Z.to_N (modexp (to_i32 (i_g dhi)) (Z.of_N (of_be (d_b dr))) (Z.of_N (of_be (i_dh_prime dhi)))))) = Ok inner /\
    encrypt_temp H E (d_pad dr) inner (s1_new s) (s1_srv s) = Ok enc2 /\
    enc_set_client_dh (s1_nonce s) (s1_srv s) enc2 = Ok (s2_f3 t) /\
    s2_nonce t = s1_nonce s /\ s2_srv t = s1_srv s /\ s2_hist t = s1_hist s ++ [s1_f2 s].
Proof.
  intros Hs. unfold Client.stage2 in Hs.
  apply wbind_go in Hs as (ea & [o h] & eb & Hr & Hs & ->).
  apply request_go in Hr as (-> & -> & r2 & He & Hd). cbn [fst snd app] in *.
  destruct o; try (cbv [halt] in Hs; discriminate).
  wstep Hs u1 Hn. wstep Hs u2 Hsv. apply N.eqb_eq in Hn, Hsv. subst nonce srv.
  wstep Hs answer Hans.
  destruct (dec_inner answer) as [dhi|] eqn:Hdi; [|cbv [halt] in Hs; discriminate].
  wstep Hs u3 Hn2. wstep Hs u4 Hsv2. apply N.eqb_eq in Hn2, Hsv2.
  wstep Hs u5 Hrange. apply negb_true_iff in Hrange. apply orb_false_iff in Hrange as [Hlo Hhi].
  wstep Hs aux Haux. wstep Hs hash1 Hh1. wstep Hs s8 Hs8. wstep Hs v8 Hv8.
  wstep Hs inner Hin. wstep Hs enc2 Henc2. wstep Hs f3 Hf3.
  cbv [ret] in Hs. apply pair_equal_spec in Hs as [<- Hs]. injection Hs as <-.
  cbn [s2_key s2_hash1 s2_salt s2_f3 s2_nonce s2_srv s2_hist].
  exists r2, enc, answer, dhi, aux, s8, v8, inner, enc2. repeat split; auto.
Qed.

(* ---------------------------------------------------------------------------------------------- *)
(* abort is clean *)
Theorem handshake_effects pk dr e eff fin : outcome_of (handshake pk dr e) = (eff, fin) ->
  match fin with
  | Success key hash salt => exists plains, plain_only plains /\ eff = plains ++ [Save key hash salt]
  | Stopped _ => plain_only eff
  end.
Proof.
  unfold Client.handshake.
  pose proof (stage1_plain pk dr e) as P1. destruct (stage1 pk dr e) as [e1 [a|st]] eqn:H1; cbn [wbind fst] in *.
  2:{ cbn [outcome_of]. intros [= <- <-]. exact P1. }
  pose proof (stage2_plain dr e a) as P2. destruct (stage2 dr e a) as [e2 [b|st]] eqn:H2; cbn [wbind fst] in *.
  2:{ cbn [outcome_of]. intros [= <- <-]. now apply plain_only_app. }
  destruct (stage3 e b) as [e3 r3] eqn:H3. pose proof (stage3_spec e b e3 r3 H3) as P3.
  destruct r3 as [f|st]; cbn [outcome_of].
  - intros [= <- <-]. destruct P3 as (kh & n3 & sv3 & h3 & r3 & -> & -> & _).
    exists (e1 ++ e2 ++ [SendPlain (s2_f3 b)]). split.
    + apply plain_only_app; [exact P1|]. apply plain_only_app; [exact P2|]. repeat constructor. now eexists.
    + now rewrite <- !app_assoc.
  - intros [= <- <-]. apply plain_only_app; [exact P1|]. now apply plain_only_app.
Qed.

Theorem abort_is_clean pk dr e sid msgid seq ack body eff fin :
  connect_and_request pk dr e sid msgid seq ack body = (eff, fin) ->
  (forall key hash salt, fin <> Success key hash salt) ->
  forall x, In x eff -> exists b, x = SendPlain b.
Proof.
  unfold Client.connect_and_request. destruct (outcome_of (handshake pk dr e)) as [eff0 fin0] eqn:Ho.
  pose proof (handshake_effects pk dr e eff0 fin0 Ho) as Hh.
  destruct fin0 as [key hash salt|st].
  - destruct (seal_client H (ige_encrypt E) key salt sid msgid seq ack body); intros [= <- <-] Hn; exfalso; eapply Hn; reflexivity.
  - intros [= <- <-] _ x Hin. unfold plain_only in Hh. rewrite Forall_forall in Hh. exact (Hh x Hin).
Qed.

(* and the converse picture: on success exactly one Save, after the three plain messages; the encrypted request last *)
Theorem success_effects pk dr e sid msgid seq ack body eff key hash salt :
  connect_and_request pk dr e sid msgid seq ack body = (eff, Success key hash salt) ->
  exists plains tail, plain_only plains /\ eff = plains ++ [Save key hash salt] ++ tail /\
    (tail = [] \/ exists pkt, tail = [SendEncrypted pkt] /\
                              seal_client H (ige_encrypt E) key salt sid msgid seq ack body = Ok pkt).
Proof.
  unfold Client.connect_and_request. destruct (outcome_of (handshake pk dr e)) as [eff0 fin0] eqn:Ho.
  pose proof (handshake_effects pk dr e eff0 fin0 Ho) as Hh.
  destruct fin0 as [k h s|st]; [|discriminate].
  destruct Hh as (plains & Hp & ->).
  destruct (seal_client H (ige_encrypt E) k s sid msgid seq ack body) as [pkt| |] eqn:Hseal; intros [= <- <- <- <-].
  - exists plains, [SendEncrypted pkt]. split; [exact Hp|]. split; [now rewrite <- app_assoc|]. right. eauto.
  - exists plains, []. split; [exact Hp|]. split; [now rewrite app_nil_r|]. now left.
  - exists plains, []. split; [exact Hp|]. split; [now rewrite app_nil_r|]. now left.
Qed.


(* ---------------------------------------------------------------------------------------------- *)
(* success implies that every check held *)
Lemma handshake_go pk dr e eff key hash salt :
  outcome_of (handshake pk dr e) = (eff, Success key hash salt) ->
  exists a b e1 e2 e3, stage1 pk dr e = (e1, Go a) /\ stage2 dr e a = (e2, Go b) /\
    stage3 e b = (e3, Go (Success key hash salt)) /\ eff = e1 ++ e2 ++ e3.
Proof.
  unfold Client.handshake.
  destruct (stage1 pk dr e) as [e1 [a|st]] eqn:H1; cbn [wbind]; [|cbn [outcome_of]; discriminate].
  destruct (stage2 dr e a) as [e2 [b|st]] eqn:H2; cbn [wbind]; [|cbn [outcome_of]; discriminate].
  destruct (stage3 e b) as [e3 [f|st]] eqn:H3; cbn [outcome_of]; [|discriminate].
  intros [= <- ->]. exists a, b, e1, e2, e3. auto.
Qed.

Theorem success_implies_consistent pk dr e eff key hash salt :
  outcome_of (handshake pk dr e) = (eff, Success key hash salt) ->
  let nonce := of_be (d_nonce dr) in
  let new_nonce := of_be (d_new_nonce dr) in
  exists f1 f2 f3 r1 r2 r3 srv pqb fps enc_answer h3,
    eff = [SendPlain f1; SendPlain f2; SendPlain f3; Save key hash salt] /\
    e [f1] = Some (Reply r1) /\ e [f1; f2] = Some (Reply r2) /\ e [f1; f2; f3] = Some (Reply r3) /\
    dec_reply r1 = DObj (RResPQ nonce srv pqb fps) /\
    dec_reply r2 = DObj (RDHOk nonce srv enc_answer) /\
    dec_reply r3 = DObj (RGenOk nonce srv h3) /\
    (exists fp, fingerprint64 H pk = Ok fp /\ In fp fps) /\
    (exists k iv dec inp answer pad dhi aux,
       generate_temp_keys H new_nonce srv = Ok (k, iv) /\
       do_decrypt D enc_answer (zbuf (length enc_answer)) k iv = (Done, dec, inp) /\
       dec = H answer ++ answer ++ pad /\ (length pad < 16)%nat /\
       dec_inner answer = Some dhi /\ i_nonce dhi = nonce /\ i_srv dhi = srv /\
       key = fixed_bytes 256 (zexp modexp (of_be (i_ga dhi)) (of_be (d_b dr)) (of_be (i_dh_prime dhi))) /\
       gslice (H key) 0 8 = Ok aux /\
       gslice (H (copy_into (copy_into (copy_into (zbuf 41) 0 (fixed_bytes 32 new_nonce)) 32 [1]) 33 aux)) 4 20
         = Ok (fixed_bytes 16 h3)) /\
    auth_key_hash H key = Ok hash.
Proof.
  intros Hs nonce new_nonce. apply handshake_go in Hs as (a & b & e1 & e2 & e3 & H1 & H2 & H3 & ->).
  apply stage1_go in H1 as (f1 & r1 & pqb & fps & fp & p & q & message & encrypted & -> & Hf1 & He1 & Hd1 & Hfp & Hin &
                            _ & _ & _ & _ & _ & _ & _ & Hn & Hnn & Hh).
  apply stage2_go in H2 as (r2 & enc_answer & answer & dhi & aux & s8 & v8 & inner & enc2 & -> & He2 & Hd2 & Htd & Hdi &
                            Hin1 & Hin2 & _ & _ & Hkey & Haux & Hh1 & _ & _ & Hsalt & _ & _ & _ & Hn2 & Hs2 & Hh2).
  apply stage3_spec in H3 as (kh & n3 & sv3 & h3 & r3 & Hfin & -> & He3 & Hd3 & Hn3 & Hs3 & Hhash & Hkh).
  injection Hfin as -> -> ->.
  destruct (try_decrypt_ok _ _ _ _ Htd) as (k & iv & dec & inp & pad & Hgk & Hdd & Hdec & Hpad).
  rewrite Hh in He2, Hh2. rewrite Hh2 in He3. cbn [app] in He2, He3.
  rewrite Hn in *. rewrite Hnn in *. rewrite Hn2, Hs2 in *. subst n3 sv3.
  exists f1, (s1_f2 a), (s2_f3 b), r1, r2, r3, (s1_srv a), pqb, fps, enc_answer, h3.
  split; [reflexivity|]. split; [exact He1|]. split; [exact He2|]. split; [exact He3|].
  split; [exact Hd1|]. split; [exact Hd2|]. split; [exact Hd3|].
  split; [exists fp; split; assumption|].
  split; [|exact Hkh].
  exists k, iv, dec, inp, answer, pad, dhi, aux. rewrite <- Hhash, <- Hkey. repeat split; assumption.
Qed.

End Abort.

(* ---------------------------------------------------------------------------------------------- *)
(* the run continued: whatever the server sends unencrypted after makeAuthKey returned, and whatever the ordinary
   handlers would do with it (they never get to see it), nothing is added - in particular no Save after an abort *)
Lemma after_exchange_nil handlers f more : after_exchange handlers f more = [].
Proof.
  unfold after_exchange. induction more as [|a r IH]; [reflexivity|]. cbn [map concat]. rewrite IH.
  destruct a; cbn [receive_unencrypted]; [|reflexivity|reflexivity].
  destruct (c_service (state_after f)); [reflexivity|]. destruct (c_encrypted (state_after f)); reflexivity.
Qed.

Theorem abort_stays_clean (H : bytes -> bytes) (E D : bytes -> bytes -> bytes) (modexp : Z -> Z -> Z -> Z)
    (is_prime : N -> bool) (split : N -> option (N * N)) (handlers : bytes -> list effect)
    pk dr e sid msgid seq ack body eff fin more :
  connect_and_request H E D modexp is_prime split pk dr e sid msgid seq ack body = (eff, fin) ->
  (forall key hash salt, fin <> Success key hash salt) ->
  forall x, In x (eff ++ after_exchange handlers fin more) -> exists b, x = SendPlain b.
Proof.
  intros Hc Hn x Hin. rewrite after_exchange_nil, app_nil_r in Hin.
  exact (abort_is_clean H E D modexp is_prime split pk dr e sid msgid seq ack body eff fin Hc Hn x Hin).
Qed.
