(* internal/math/math.go SplitPQ: Pollard's rho (Brent's cycle detection) on a clock-seeded math/rand stream.

     for !(g > 1 && g < what) {
        q := ((rand & 15) + 17) mod what;  x := rand mod (what-1) + 1;  y := x;  lim := 1 << (i+18);  j := 1
        for j < lim && flag {  x = (q + x*x) mod what   (computed by a double-and-add loop on big.Int)
                               z = x - y mod what;  g = gcd(z, what);  if j&(j-1) == 0 { y = x };  j++
                               if g != 1 { flag = false } }
        i++ }
     p1 = g; p2 = what / g; swapped if p1 > p2

   The random stream is an argument ([rnd k] = the k-th 64-bit draw); the two loops run on fuel: [None] = the fuel
   ran out = "has not returned yet".  What is proved is PARTIAL correctness: whenever the function returns, it returns
   an ordered non-trivial factorisation.  Termination is probabilistic (and false for a prime argument: the caller
   excludes primes, 0 and 1) and is NOT proved.  The precondition what >= 2 (no division by zero in the two mod
   operations) is the caller's pq > 1 test. *)
From Coq Require Import ZArith NArith List Lia ZifyN ZifyNat ZifyBool Bool.
Import ListNotations.
Open Scope N_scope.
Ltac Zify.zify_post_hook ::= Z.div_mod_to_equations.

Fixpoint rho_inner (fuel : nat) (what q x y j lim g : N) : option N :=
  match fuel with
  | O => None
  | S f =>
      if j <? lim then
        let x' := (q + x * x) mod what in
        let z := if x' <? y then what + x' - y else x' - y in
        let g' := N.gcd z what in
        let y' := if N.land j (j - 1) =? 0 then x' else y in
        if g' =? 1 then rho_inner f what q x' y' (j + 1) lim g' else Some g'
      else Some g
  end.

Fixpoint rho_outer (fuel fuel_inner : nat) (rnd : nat -> N) (k : nat) (what i : N) : option N :=
  match fuel with
  | O => None
  | S f =>
      let q := (N.land (rnd k) 15 + 17) mod what in
      let x := rnd (S k) mod (what - 1) + 1 in
      match rho_inner fuel_inner what q x x 1 (2 ^ (i + 18)) 0 with
      | None => None
      | Some g => if (1 <? g) && (g <? what) then Some g else rho_outer f fuel_inner rnd (S (S k)) what (i + 1)
      end
  end.

Definition split_model (fuel fuel_inner : nat) (rnd : nat -> N) (pq : N) : option (N * N) :=
  match rho_outer fuel fuel_inner rnd 0 pq 0 with
  | None => None
  | Some g => let p1 := g in let p2 := pq / g in Some (if p2 <? p1 then (p2, p1) else (p1, p2))
  end.

Lemma rho_inner_divides fuel what : forall q x y j lim g0 g,
  rho_inner fuel what q x y j lim g0 = Some g -> g = g0 \/ (g | what).
Proof.
  induction fuel as [|f IH]; intros q x y j lim g0 g; cbn [rho_inner]; [discriminate|].
  destruct (j <? lim); [|intros [= <-]; now left].
  set (x' := (q + x * x) mod what). set (z := if x' <? y then what + x' - y else x' - y).
  destruct (N.eqb_spec (N.gcd z what) 1) as [He|Hne].
  - intros Hr. destruct (IH _ _ _ _ _ _ _ Hr) as [->|Hd]; [|now right].
    right. apply N.gcd_divide_r.
  - intros [= <-]. right. apply N.gcd_divide_r.
Qed.

Lemma rho_outer_divides fuel fi rnd what : forall k i g,
  rho_outer fuel fi rnd k what i = Some g -> 1 < g /\ g < what /\ (g | what).
Proof.
  induction fuel as [|f IH]; intros k i g; cbn [rho_outer]; [discriminate|].
  destruct (rho_inner fi what _ _ _ 1 _ 0) as [g1|] eqn:Hi; [|discriminate].
  destruct (N.ltb_spec 1 g1) as [H1|H1]; cbn [andb]; [|apply IH].
  destruct (N.ltb_spec g1 what) as [H2|H2]; [|apply IH].
  intros [= <-]. split; [exact H1|]. split; [exact H2|].
  destruct (rho_inner_divides _ _ _ _ _ _ _ _ _ Hi) as [->|Hd]; [lia|exact Hd].
Qed.

Theorem split_model_sound fuel fi rnd pq a b :
  split_model fuel fi rnd pq = Some (a, b) -> a * b = pq /\ 1 < a /\ a <= b.
Proof.
  unfold split_model. destruct (rho_outer fuel fi rnd 0 pq 0) as [g|] eqn:Ho; [|discriminate].
  destruct (rho_outer_divides _ _ _ _ _ _ _ Ho) as (H1 & H2 & [k Hk]).
  assert (Hq : pq / g = k) by (subst pq; apply N.div_mul; lia).
  rewrite Hq. assert (1 < k) by nia.
  destruct (N.ltb_spec k g); intros [= <- <-]; nia.
Qed.

(* the hypotheses are satisfiable and the model does factor: 15 and the repository's own test vector,
   with a fixed "random" stream *)
Example split_model_15 : split_model 5 2000 (fun k => 7 + 1000003 * N.of_nat k) 15 = Some (3, 5).
Proof. vm_compute. reflexivity. Qed.

Example split_model_repo_vector : split_model 5 2000 (fun k => 7 + 1000003 * N.of_nat k) 378221 = Some (613, 617).
Proof. vm_compute. reflexivity. Qed.
