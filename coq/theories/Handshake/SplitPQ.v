(* internal/math/math.go SplitPQ: Pollard's rho (Brent's cycle detection) on a clock-seeded math/rand stream.

     for !(g > 1 && g < what) {
        q := ((rand & 15) + 17) mod what;  x := rand mod (what-1) + 1;  y := x;  lim := 1 << (i+18);  j := 1
        for j < lim && flag {  x = (q + x*x) mod what   (computed by a double-and-add loop on big.Int)
                               z = x - y mod what;  g = gcd(z, what);  if j&(j-1) == 0 { y = x };  j++
                               if g != 1 { flag = false } }
        i++ }
     p1 = g; p2 = what / g; swapped if p1 > p2

   The random stream is an argument ([rnd k] = the k-th 64-bit draw); the two loops run on fuel: [None] = the fuel
   ran out = "has not returned yet".  What is proved is PARTIAL correctness: whenever the function returns, it returns
   an ordered non-trivial factorisation.  Termination is probabilistic (and false for a prime argument: the caller
   excludes primes, 0 and 1) and is NOT proved.  The precondition what >= 2 (no division by zero in the two mod
   operations) is the caller's pq > 1 test. *)
From Coq Require Import ZArith NArith List Lia ZifyN ZifyNat ZifyBool Bool.
Import ListNotations.
Open Scope N_scope.
Ltac Zify.zify_post_hook ::= Z.div_mod_to_equations.

Fixpoint rho_inner (fuel : nat) (what q x y j lim g : N) : option N :=
  match fuel with
  | O => None
  | S f =>
      if j <? lim then
        let x' := (q + x * x) mod what in
        let z := if x' <? y then what + x' - y else x' - y in
        let g' := N.gcd z what in
        let y' := if N.land j (j - 1) =? 0 then x' else y in
        if g' =? 1 then rho_inner f what q x' y' (j + 1) lim g' else Some g'
      else Some g
  end.

Fixpoint rho_outer (fuel fuel_inner : nat) (rnd : nat -> N) (k : nat) (what i : N) : option N :=
  match fuel with
  | O => None
  | S f =>
      let q := (N.land (rnd k) 15 + 17) mod what in
      let x := rnd (S k) mod (what - 1) + 1 in
      match rho_inner fuel_inner what q x x 1 (2 ^ (i + 18)) 0 with
      | None => None
      | Some g => if (1 <? g) && (g <? what) then Some g else rho_outer f fuel_inner rnd (S (S k)) what (i + 1)
      end
  end.

Definition split_model (fuel fuel_inner : nat) (rnd : nat -> N) (pq : N) : option (N * N) :=
  match rho_outer fuel fuel_inner rnd 0 pq 0 with
  | None => None
  | Some g => let p1 := g in let p2 := pq / g in Some (if p2 <? p1 then (p2, p1) else (p1, p2))
  end.

Lemma rho_inner_divides fuel what : forall q x y j lim g0 g,
  rho_inner fuel what q x y j lim g0 = Some g -> g = g0 \/ (g | what).
Proof.
  induction fuel as [|f IH]; intros q x y j lim g0 g; cbn [rho_inner]; [discriminate|].
  destruct (j <? lim); [|intros [= <-]; now left].
  set (x' := (q + x * x) mod what). set (z := if x' <? y then what + x' - y else x' - y).
  destruct (N.eqb_spec (N.gcd z what) 1) as [He|Hne].
  - intros Hr. destruct (IH _ _ _ _ _ _ _ Hr) as [->|Hd]; [|now right].
    right. apply N.gcd_divide_r.
  - intros [= <-]. right. apply N.gcd_divide_r.
Qed.

Lemma rho_outer_divides fuel fi rnd what : forall k i g,
  rho_outer fuel fi rnd k what i = Some g -> 1 < g /\ g < what /\ (g | what).
Proof.
  induction fuel as [|f IH]; intros k i g; cbn [rho_outer]; [discriminate|].
  destruct (rho_inner fi what _ _ _ 1 _ 0) as [g1|] eqn:Hi; [|discriminate].
  destruct (N.ltb_spec 1 g1) as [H1|H1]; cbn [andb]; [|apply IH].
  destruct (N.ltb_spec g1 what) as [H2|H2]; [|apply IH].
  intros [= <-]. split; [exact H1|]. split; [exact H2|].
  destruct (rho_inner_divides _ _ _ _ _ _ _ _ _ Hi) as [->|Hd]; [lia|exact Hd].
Qed.

Theorem split_model_sound fuel fi rnd pq a b :
  split_model fuel fi rnd pq = Some (a, b) -> a * b = pq /\ 1 < a /\ a <= b.
Proof.
  unfold split_model. destruct (rho_outer fuel fi rnd 0 pq 0) as [g|] eqn:Ho; [|discriminate].
  destruct (rho_outer_divides _ _ _ _ _ _ _ Ho) as (H1 & H2 & [k Hk]).
  assert (Hq : pq / g = k) by (subst pq; apply N.div_mul; lia).
  rewrite Hq. assert (1 < k) by nia.
  destruct (N.ltb_spec k g); intros [= <- <-]; nia.
Qed.

(* the hypotheses are satisfiable and the model does factor: 15 and the repository's own test vector,
   with a fixed "random" stream *)
Example split_model_15 : split_model 5 2000 (fun k => 7 + 1000003 * N.of_nat k) 15 = Some (3, 5).
Proof. vm_compute. reflexivity. Qed.

Example split_model_repo_vector : split_model 5 2000 (fun k => 7 + 1000003 * N.of_nat k) 378221 = Some (613, 617).
Proof. vm_compute. reflexivity. Qed.

(* Termination of ONE attempt: the inner loop runs at most lim - j more times (the `j < lim` guard of the Go loop), so
   it never needs more fuel than that - whatever the numbers are.  What remains unbounded in SplitPQ is only the NUMBER
   of attempts (the outer loop), which depends on the random stream. *)
Lemma rho_inner_terminates what : forall fuel q x y j lim g0,
  (N.to_nat (lim - j) < fuel)%nat -> rho_inner fuel what q x y j lim g0 <> None.
Proof.
  induction fuel as [|f IH]; intros q x y j lim g0 Hf; [lia|]. cbn [rho_inner].
  destruct (N.ltb_spec j lim) as [Hlt|Hge]; [|discriminate].
  destruct (N.gcd _ what =? 1); [|discriminate].
  apply IH. lia.
Qed.

(* ... and so the only way [rho_outer] can run out of fuel, given enough inner fuel for the largest bound it uses,
   is that every one of its [fuel] attempts came back without a proper factor *)
Lemma rho_outer_none_all_failed fi rnd what : forall fuel k i,
  (N.to_nat (2 ^ (i + N.of_nat fuel + 18)) < fi)%nat ->
  rho_outer fuel fi rnd k what i = None ->
  forall a, (a < fuel)%nat ->
    exists g, rho_inner fi what ((N.land (rnd (k + 2 * a)%nat) 15 + 17) mod what)
                (rnd (S (k + 2 * a)) mod (what - 1) + 1) (rnd (S (k + 2 * a)) mod (what - 1) + 1) 1
                (2 ^ (i + N.of_nat a + 18)) 0 = Some g /\ ((1 <? g) && (g <? what) = false).
Proof.
  induction fuel as [|f IH]; intros k i Hfi Hnone a Ha; [lia|].
  cbn [rho_outer] in Hnone.
  set (q := (N.land (rnd k) 15 + 17) mod what) in *.
  set (x := rnd (S k) mod (what - 1) + 1) in *.
  destruct (rho_inner fi what q x x 1 (2 ^ (i + 18)) 0) as [g|] eqn:Hi.
  2:{ exfalso. revert Hi. apply rho_inner_terminates.
      assert (2 ^ (i + 18) <= 2 ^ (i + N.of_nat (S f) + 18)) by (apply N.pow_le_mono_r; lia). lia. }
  destruct ((1 <? g) && (g <? what)) eqn:Hg; [discriminate|].
  destruct a as [|a].
  - exists g. rewrite Nat.mul_0_r, Nat.add_0_r, N.add_0_r. fold q x. split; [exact Hi|exact Hg].
  - assert (Hfi' : (N.to_nat (2 ^ (i + 1 + N.of_nat f + 18)) < fi)%nat).
    { replace (i + 1 + N.of_nat f + 18) with (i + N.of_nat (S f) + 18) by lia. exact Hfi. }
    destruct (IH (S (S k)) (i + 1) Hfi' Hnone a ltac:(lia)) as [g' [H1 H2]].
    exists g'. replace (k + 2 * S a)%nat with (S (S k) + 2 * a)%nat by lia.
    replace (i + N.of_nat (S a) + 18) with (i + 1 + N.of_nat a + 18) by lia. split; assumption.
Qed.
