(* Auxiliary facts for Handshake/Agreement.v: TL byte-string sizes, the factorisation of a product of two primes is
   unique, bit length, the fingerprint search, and TryDecryptMessageWithTempKeys agrees with DecryptMessageWithTempKeys
   wherever the latter succeeds. *)
From Coq Require Import ZArith NArith List Lia ZifyN ZifyNat ZifyBool Bool Znumtheory.
From MTV Require Import Base.Bytes Base.Outcome Prim.Xor Crypto.Ige Crypto.IgeMem Crypto.IgeProofs Crypto.TempKeys
  Crypto.TempKeysProofs TL.Types Handshake.Bytes Handshake.Objects Handshake.ObjectsProofs Handshake.Client.
Import ListNotations.
Open Scope N_scope.
Ltac Zify.zify_post_hook ::= Z.div_mod_to_equations.

(* ---- TL byte strings ---- *)
Lemma okb_zeros n : okb (zeros n).
Proof. apply okb_repeat0. Qed.

Lemma okb_cons x l : okb (x :: l) <-> x < 256 /\ okb l.
Proof.
  unfold okb. cbn [bytes_ok forallb]. rewrite andb_true_iff. unfold byte_ok. rewrite N.ltb_lt. reflexivity.
Qed.

Lemma put_bytes_okb b x : okb b -> put_bytes b = Some x -> okb x.
Proof.
  intros Hb. unfold put_bytes. destruct (N.ltb_spec (blen b) 254).
  - intros Hx. apply some_inj in Hx. subst x. cbn [app]. apply okb_cons. split; [lia|].
    apply okb_app. split; [exact Hb|apply okb_zeros].
  - destruct (N.ltb_spec (blen b) two24); [|discriminate].
    intros Hx. apply some_inj in Hx. subst x. cbn [app].
    repeat (apply okb_cons; split; [lia|]). apply okb_app. split; [exact Hb|apply okb_zeros].
Qed.

Lemma padlen_lt n : padlen n < 4.
Proof. unfold padlen. lia. Qed.

Lemma put_bytes_length_le b x : put_bytes b = Some x -> (length x <= length b + 7)%nat.
Proof.
  unfold put_bytes. destruct (N.ltb_spec (blen b) 254).
  - intros Hx. apply some_inj in Hx. subst x. cbn [app length]. rewrite app_length. unfold zeros. rewrite repeat_length.
    pose proof (padlen_lt (1 + blen b)). lia.
  - destruct (N.ltb_spec (blen b) two24); [|discriminate].
    intros Hx. apply some_inj in Hx. subst x. cbn [app length]. rewrite app_length. unfold zeros. rewrite repeat_length.
    pose proof (padlen_lt (blen b)). lia.
Qed.

Lemma put_bytes_short b : blen b < 16000000 -> exists x, put_bytes b = Some x.
Proof. intros Hl. apply tl_bytes_some. unfold two24. lia. Qed.

Lemma fixed_bytes_length_max w n : length (fixed_bytes w n) = Nat.max w (length (big_bytes n)).
Proof.
  unfold fixed_bytes. destruct (Nat.leb_spec w (length (big_bytes n))); [lia|].
  rewrite app_length, repeat_length. lia.
Qed.

Lemma le32_okb n : okb (le32 n).
Proof. apply le32_bytes_ok. Qed.

Lemma le64_okb n : okb (le64 n).
Proof. unfold le64. apply okb_app. split; apply le32_okb. Qed.

(* ---- bit length ---- *)
Lemma size_le_64 n : n < 2 ^ 64 -> (64 <? N.size n) = false.
Proof.
  intros Hn. apply N.ltb_ge. destruct (N.eq_dec n 0) as [->|Hz]; [cbn; lia|].
  rewrite N.size_log2 by exact Hz. assert (N.log2 n < 64) by (apply N.log2_lt_pow2; lia). lia.
Qed.

(* ---- the fingerprint search ---- *)
Lemma find_fp_in fps f : In f fps -> find_fp fps (Ok f) = Ok true.
Proof.
  induction fps as [|b r IH]; [intros []|]. cbn [find_fp obind]. intros [->|Hin].
  - now rewrite N.eqb_refl.
  - destruct (b =? f); [reflexivity|now apply IH].
Qed.

(* ---- unique factorisation of a product of two primes ---- *)
Lemma semiprime_unique (p q a b : Z) :
  prime p -> prime q -> (p < q)%Z -> (1 < a)%Z -> (a <= b)%Z -> (a * b = p * q)%Z -> a = p /\ b = q.
Proof.
  intros Pp Pq Hlt Ha Hab Heq.
  pose proof (prime_ge_2 _ Pp) as Hp1. pose proof (prime_ge_2 _ Pq) as Hq1.
  assert (Dp : (p | a * b)%Z) by (rewrite Heq; apply Z.divide_factor_l).
  assert (Dq : (q | a * b)%Z) by (rewrite Heq; apply Z.divide_factor_r).
  apply prime_mult in Dp; [|exact Pp]. apply prime_mult in Dq; [|exact Pq].
  assert (Hrel : rel_prime q p).
  { apply rel_prime_sym. apply prime_rel_prime; [exact Pp|]. intros Hd.
    destruct (prime_divisors _ Pq p Hd) as [?|[?|[?|?]]]; lia. }
  destruct Dp as [[k Hk]|[k Hk]]; destruct Dq as [[l Hl]|[l Hl]].
  - (* p | a and q | a: then pq | a since p, q are coprime; a >= pq, b <= 1 *)
    exfalso. assert (Hqk : (q | k)%Z) by (apply Gauss with (b := p); [exists l; lia|exact Hrel]).
    destruct Hqk as [m Hm]. subst k a. assert (0 < m)%Z by nia. nia.
  - (* p | a, q | b *)
    subst a b. assert (k * l = 1)%Z by nia. assert (0 < k)%Z by nia. assert (0 < l)%Z by nia.
    assert (k = 1)%Z by nia. assert (l = 1)%Z by nia. lia.
  - (* p | b, q | a: a = q*l >= q > p, b = p*k; kl = 1 => a = q > b = p contradiction with a <= b *)
    exfalso. subst a b. assert (k * l = 1)%Z by nia. assert (0 < k)%Z by nia. assert (0 < l)%Z by nia.
    assert (k = 1)%Z by nia. assert (l = 1)%Z by nia. lia.
  - exfalso. assert (Hqk : (q | k)%Z) by (apply Gauss with (b := p); [exists l; lia|exact Hrel]).
    destruct Hqk as [m Hm]. subst k b. assert (0 < m)%Z by nia. nia.
Qed.

Lemma product_not_prime (p q : Z) : (1 < p)%Z -> (1 < q)%Z -> ~ prime (p * q).
Proof.
  intros Hp Hq Hpr. destruct (prime_divisors _ Hpr p (Z.divide_factor_l p q)) as [H|[H|[H|H]]]; nia.
Qed.

(* ---- TryDecryptMessageWithTempKeys = DecryptMessageWithTempKeys on what the latter accepts ---- *)
Section Try.
Variable H : bytes -> bytes.
Variable D : bytes -> bytes -> bytes.

Lemma gslice_short (l : bytes) lo hi : (length l < hi)%nat -> gslice l lo hi = Panic.
Proof.
  intros Hl. unfold gslice. destruct (Nat.leb_spec hi (length l)); [lia|]. now rewrite andb_false_r.
Qed.

Lemma try_cuts_agree hash m : forall fuel j x, try_cuts H fuel j hash m = Ok x -> try_cuts_e H fuel j hash m = Ok x.
Proof.
  induction fuel as [|f IH]; intros j x; cbn [try_cuts try_cuts_e]; [discriminate|].
  destruct (length m <? j)%nat; [discriminate|].
  destruct (beq hash (H (firstn (length m - j) m))); [auto|apply IH].
Qed.

Lemma decrypt_ok_try_ok msg n2 ns x : decrypt_temp H D msg n2 ns = Ok x -> try_decrypt_temp H D msg n2 ns = Ok x.
Proof.
  unfold decrypt_temp, try_decrypt_temp.
  destruct (generate_temp_keys H n2 ns) as [[k iv]| |]; cbn [obind fst snd]; intros Hx; try congruence.
  destruct (do_decrypt D msg (zbuf (length msg)) k iv) as [[st dec] inp].
  destruct st; cbn [checked returned obind] in *; try congruence.
  destruct (Nat.ltb_spec (length dec) 20) as [Hl|Hl].
  - rewrite (gslice_short dec 0 20) in Hx by lia. cbn [obind] in Hx. discriminate Hx.
  - rewrite !gslice_ok in * by lia. cbn [obind] in *. now apply try_cuts_agree.
Qed.
End Try.
