(* The client side of the key exchange: handshake.go makeAuthKey (as called by CreateConnection for a client
   without a stored session), common_methods.go reqPQ / reqDHParams / setClientDHParams, internal/math/math.go
   DoRSAencrypt / MakeGAB / FixedBytes, internal/keys/keys.go RSAFingerprint, aes.go TryDecryptMessageWithTempKeys /
   EncryptMessageWithTempKeys - AFTER the repairs exported under /verif/patches/C06.  Executable; no proofs here.

   Parameters (Section variables; standard library or another property's subject):
     H                crypto/sha1
     E D              crypto/aes block encryption / decryption under a key
     modexp b e m     math/big Exp(b, e, m) for e >= 0, m > 0
     is_prime         math/big ProbablyPrime(20)
     split pq         math.SplitPQ (Pollard rho on a clock-seeded math/rand stream): Some (p1, p2), or None when the
                      loop never exits.  A model of the loop itself with the stream as an argument is Handshake/SplitPQ.v.
   A reply whose constructor is none of the six key-exchange answers either decodes to some other object (the request
   wrappers refuse its type) or does not decode (the read loop hands the error to the waiting request): an error both
   ways, so the generic decoder (property C15's subject) needs no model here.  rpc_error replies are outside the model.

   The three draws of the client are the bytes crypto/rand delivered: 16 (nonce), 32 (new_nonce), 256 (the DH exponent:
   crypto/rand.Int(2^2048) reads exactly 256 bytes and masks nothing); [d_pad n] are the n random padding bytes
   EncryptMessageWithTempKeys takes from math/rand.

   The server is an ENVIRONMENT: a function from the plain messages sent so far to what arrives next:
     Some (Reply body)      a transport frame holding an unencrypted envelope with this TL body (any bytes)
     Some TransportError    the 4-byte transport error frame (e.g. -404), or any frame that is no readable envelope
     Some Closed            the server closes the connection
     None                   the server stays silent for ever
   A script is the special case that ignores the history; a conformant server (Handshake/Server.v) is another instance.

   Outcome: the ordered effects and how makeAuthKey ended:
     Success key hash salt     returned nil (session saved)
     HFailed                    returned an error
     HPanicked                  a panic inside makeAuthKey
     HStalled                   makeAuthKey never returns: the server stays silent for ever (the client has no timeout), or
                               SplitPQ loops for ever.  NOTHING that arrives can cause it: a reply that cannot be read or
                               decoded, a transport error code and a closed connection all reach the waiting request as an
                               error (mtproto.go failKeyExchange, patch 0005).
   After a run that did not succeed the client holds no key and no salt (makeAuthKey clears what it set before the last
   checks, patch 0006): [Stopped] carries nothing. *)
From Coq Require Import ZArith NArith List Lia Bool.
From MTV Require Import Base.Bytes Base.Outcome Prim.Xor Crypto.Ige Crypto.IgeMem Crypto.TempKeys Crypto.Envelope
  TL.Types Handshake.Bytes Handshake.Objects.
Import ListNotations.
Open Scope N_scope.

Record draws := mkdraws { d_nonce : bytes; d_new_nonce : bytes; d_b : bytes; d_pad : nat -> bytes }.
Record pubkey := mkpub { k_n : N; k_e : N }.

Inductive effect :=
| SendPlain (body : bytes)
| Save (key hash : bytes) (salt : N)
| SendEncrypted (pkt : bytes).

Inductive stop := HFailed | HPanicked | HStalled.
Inductive final := Success (key hash : bytes) (salt : N) | Stopped (s : stop).

Inductive res (A : Type) := Go (a : A) | Halt (s : stop).
Arguments Go {A} a.
Arguments Halt {A} s.

(* writer of effects + early exit *)
Definition W (A : Type) : Type := (list effect * res A)%type.
Definition ret {A} (a : A) : W A := ([], Go a).
Definition halt {A} (s : stop) : W A := ([], Halt s).
Definition wbind {A B} (m : W A) (f : A -> W B) : W B :=
  match m with
  | (e, Go a) => let (e', r) := f a in (e ++ e', r)
  | (e, Halt s) => (e, Halt s)
  end.
Definition emit (x : effect) : W unit := ([x], Go tt).
Definition of_outcome {A} (o : outcome A) : W A :=
  match o with Ok a => ret a | Err => halt HFailed | Panic => halt HPanicked end.
(* err := f(); check(err) *)
Definition of_checked {A} (o : outcome A) : W A :=
  match o with Ok a => ret a | _ => halt HPanicked end.
Definition guard (b : bool) : W unit := if b then ret tt else halt HFailed.

Notation "'perform' x <- a ;; b" := (wbind a (fun x => b))
  (at level 200, x name, a at level 100, b at level 200, right associativity).

Inductive arrival := Reply (body : bytes) | TransportError | Closed.
Definition env : Type := list bytes -> option arrival.
Definition script_env (replies : list arrival) : env :=
  fun hist => nth_error replies (length hist - 1).

Section Client.
Variable H : bytes -> bytes.
Variables E D : bytes -> bytes -> bytes.
Variable modexp : Z -> Z -> Z -> Z.
Variable is_prime : N -> bool.
Variable split : N -> option (N * N).

(* ---- aes.go TryDecryptMessageWithTempKeys: DecryptMessageWithTempKeys with every refusal an error ---- *)
Fixpoint try_cuts_e (fuel j : nat) (hash m : bytes) : outcome bytes :=
  match fuel with
  | O => Err
  | S f =>
      if (length m <? j)%nat then Err
      else let cand := firstn (length m - j) m in
           if beq hash (H cand) then Ok cand else try_cuts_e f (S j) hash m
  end.

Definition try_decrypt_temp (msg : bytes) (n_second n_server : N) : outcome bytes :=
  do kv <- generate_temp_keys H n_second n_server;
  do dec <- returned (do_decrypt D msg (zbuf (length msg)) (fst kv) (snd kv));
  if (length dec <? 20)%nat then Err else
  do hash <- gslice dec 0 20;
  do m <- gslice dec 20 (length dec);
  try_cuts_e 16 0 hash m.

(* ---- keys.go RSAFingerprint + binary.LittleEndian.Uint64 ---- *)
Definition put_or_nothing (b : bytes) : bytes := match put_bytes b with Some x => x | None => [] end.
Definition fingerprint64 (pk : pubkey) : outcome N :=
  let h := H (put_or_nothing (big_bytes (k_n pk)) ++ put_or_nothing (big_bytes (k_e pk))) in
  do fp <- gslice h 12 (length h);
  if (length fp <? 8)%nat then Panic else Ok (of_le (firstn 8 fp)).

(* for _, b := range res.Fingerprints { if uint64(b) == Uint64(RSAFingerprint(key)) { found = true; break } } *)
Fixpoint find_fp (fps : list N) (fp : outcome N) : outcome bool :=
  match fps with
  | [] => Ok false
  | b :: r => do f <- fp; if b =? f then Ok true else find_fp r fp
  end.

(* ---- math.go DoRSAencrypt ---- *)
Definition zexp (b e m : N) : N := Z.to_N (modexp (Z.of_N b) (Z.of_N e) (Z.of_N m)).
Definition rsa_encrypt (block : bytes) (pk : pubkey) : outcome bytes :=
  if negb (length block =? 255)%nat then Panic
  else Ok (fixed_bytes 256 (zexp (of_be block) (k_e pk) (k_n pk))).

(* ---- sending a plain request and waiting for the service-mode reply ---- *)
Definition request (hist : list bytes) (frame : bytes) (e : env) : W (reply * list bytes) :=
  perform _ <- emit (SendPlain frame) ;;
  match e (hist ++ [frame]) with
  | None => halt HStalled
  | Some TransportError => halt HFailed
  | Some Closed => halt HFailed
  | Some (Reply r) =>
      match dec_reply r with
      | DObj o => ret (o, hist ++ [frame])
      | DForeign => halt HFailed     (* another object: wrong type for the wrapper; or undecodable: error handed over *)
      | DFail => halt HFailed        (* malformed body of a key-exchange constructor: error handed over *)
      end
  end.

Definition auth_key_hash (key : bytes) : outcome bytes := gslice (H key) 12 20.

(* state carried between the three exchanges *)
Record st1 := mkst1 { s1_nonce : N; s1_srv : N; s1_new : N; s1_hist : list bytes; s1_f2 : bytes }.
Record st2 := mkst2 { s2_nonce : N; s2_srv : N; s2_key : bytes; s2_hash1 : bytes; s2_salt : N;
                      s2_hist : list bytes; s2_f3 : bytes }.

(* req_pq -> resPQ -> checks, factorisation, RSA block, req_DH_params built *)
Definition stage1 (pk : pubkey) (dr : draws) (e : env) : W st1 :=
  let nonce := of_be (d_nonce dr) in
  perform f1 <- of_outcome (enc_req_pq nonce) ;;
  perform x1 <- request [] f1 e ;;
  match fst x1 with
  | RResPQ n1 srv pqb fps =>
    perform _ <- guard (nonce =? n1) ;;
    perform found <- of_outcome (find_fp fps (fingerprint64 pk)) ;;
    perform _ <- guard found ;;
    let pq := of_be pqb in
    perform _ <- guard (negb ((pq <=? 1) || (64 <? N.size pq) || is_prime pq)) ;;
    match split pq with
    | None => halt HStalled
    | Some (p, q) =>
      let new_nonce := of_be (d_new_nonce dr) in
      perform message <- of_checked (enc_pq_inner pqb (big_bytes p) (big_bytes q) nonce srv new_nonce) ;;
      let block := copy_into (zbuf 255) 0 (H message ++ message) in
      perform encrypted <- of_outcome (rsa_encrypt block pk) ;;
      perform fp <- of_outcome (fingerprint64 pk) ;;
      perform f2 <- of_outcome (enc_req_dh nonce srv (big_bytes p) (big_bytes q) fp encrypted) ;;
      ret (mkst1 nonce srv new_nonce (snd x1) f2)
    end
  | _ => halt HFailed
  end.

(* req_DH_params -> server_DH_params_ok -> decryption, checks, g_b, g^ab, salt, hash, set_client_DH_params built *)
Definition stage2 (dr : draws) (e : env) (s : st1) : W st2 :=
  let nonce := s1_nonce s in
  let srv := s1_srv s in
  let new_nonce := s1_new s in
  perform x2 <- request (s1_hist s) (s1_f2 s) e ;;
  match fst x2 with
  | RDHOk n2 sv2 enc_answer =>
    perform _ <- guard (nonce =? n2) ;;
    perform _ <- guard (srv =? sv2) ;;
    perform answer <- of_outcome (try_decrypt_temp enc_answer new_nonce srv) ;;
    match dec_inner answer with
    | None => halt HFailed
    | Some dhi =>
      perform _ <- guard (nonce =? i_nonce dhi) ;;
      perform _ <- guard (srv =? i_srv dhi) ;;
      let ga := of_be (i_ga dhi) in
      let dh_prime := of_be (i_dh_prime dhi) in
      (* gA.Cmp(1) <= 0 || gA.Cmp(dhPrime - 1) >= 0 *)
      perform _ <- guard (negb ((ga <=? 1) || (Z.of_N dh_prime - 1 <=? Z.of_N ga)%Z)) ;;
      let b := of_be (d_b dr) in
      let gb := Z.to_N (modexp (to_i32 (i_g dhi)) (Z.of_N b) (Z.of_N dh_prime)) in
      let gab := zexp ga b dh_prime in
      let auth_key := fixed_bytes 256 gab in
      let second := fixed_bytes 32 new_nonce in
      let server := fixed_bytes 16 srv in
      perform aux <- of_outcome (gslice (H auth_key) 0 8) ;;
      let t4 := copy_into (copy_into (copy_into (zbuf 41) 0 second) 32 [1]) 33 aux in
      perform hash1 <- of_outcome (gslice (H t4) 4 20) ;;
      perform s8 <- of_outcome (gslice second 0 8) ;;
      perform v8 <- of_outcome (gslice server 0 8) ;;
      let salt := of_le (xorb (copy_into (zbuf 8) 0 s8) v8) in
      perform inner <- of_checked (enc_client_inner nonce srv 0 (big_bytes gb)) ;;
      perform enc2 <- of_outcome (encrypt_temp H E (d_pad dr) inner new_nonce srv) ;;
      perform f3 <- of_outcome (enc_set_client_dh nonce srv enc2) ;;
      ret (mkst2 nonce srv auth_key hash1 salt (snd x2) f3)
    end
  | _ => halt HFailed
  end.

(* set_client_DH_params -> dh_gen_ok -> checks, session saved *)
Definition stage3 (e : env) (s : st2) : W final :=
  perform x3 <- request (s2_hist s) (s2_f3 s) e ;;
  match fst x3 with
  | RGenOk n3 sv3 h3 =>
    perform _ <- guard (s2_nonce s =? n3) ;;
    perform _ <- guard (s2_srv s =? sv3) ;;
    perform _ <- guard (beq (s2_hash1 s) (fixed_bytes 16 h3)) ;;
    perform kh <- of_outcome (auth_key_hash (s2_key s)) ;;
    perform _ <- emit (Save (s2_key s) kh (s2_salt s)) ;;
    ret (Success (s2_key s) kh (s2_salt s))
  | _ => halt HFailed
  end.

Definition handshake (pk : pubkey) (dr : draws) (e : env) : W final :=
  perform a <- stage1 pk dr e ;;
  perform b <- stage2 dr e a ;;
  stage3 e b.

Definition outcome_of (w : W final) : list effect * final :=
  match w with
  | (eff, Go f) => (eff, f)
  | (eff, Halt s) => (eff, Stopped s)
  end.

(* CreateConnection followed by the application's first request: sealed with the negotiated key and salt
   (Crypto/Envelope.v seal_client: property C03) when, and only when, the key exchange succeeded *)
Definition connect_and_request (pk : pubkey) (dr : draws) (e : env)
    (sid msgid seq : N) (ack : bool) (body : bytes) : list effect * final :=
  match outcome_of (handshake pk dr e) with
  | (eff, Success key hash salt) =>
      match seal_client H (ige_encrypt E) key salt sid msgid seq ack body with
      | Ok pkt => (eff ++ [SendEncrypted pkt], Success key hash salt)
      | _ => (eff, Success key hash salt)
      end
  | r => r
  end.

End Client.

(* ---- after makeAuthKey returned: the server speaks again, UNENCRYPTED, on the same connection ----
   mtproto.go readMsg.  While serviceModeActivated - it STAYS set after an abandoned exchange, only the success path of
   makeAuthKey clears it - a readable body is parked on serviceChannel for the next service request and an unreadable
   one is handed over as that request's error: no handler runs.  Outside service mode (after Success) an unencrypted
   message is refused ("unencrypted message outside of key exchange", patch 0007): the ordinary handlers - the only
   code besides makeAuthKey that calls SaveSession (new_session_created, bad_server_salt, also inside a container) - see
   messages authenticated by the auth key only; those are the subject of C09-C11, not of the key exchange.
   [handlers] is what handleResponse would do with a body: arbitrary, it may Save. *)
Record cstate := mkcstate { c_service : bool; c_encrypted : bool }.
Definition state_after (f : final) : cstate :=
  match f with
  | Success _ _ _ => mkcstate false true
  | Stopped _ => mkcstate true false
  end.

Definition receive_unencrypted (handlers : bytes -> list effect) (st : cstate) (a : arrival) : list effect :=
  match a with
  | Reply body =>
      if c_service st then []          (* parked for / handed to the next service request *)
      else if c_encrypted st then []   (* refused: unencrypted message outside of key exchange *)
      else []                          (* not reachable from state_after; refused all the same *)
  | TransportError => []               (* reported (Warnings) *)
  | Closed => []                       (* service mode: error for the next service request; otherwise Reconnect (C16) *)
  end.

Definition after_exchange (handlers : bytes -> list effect) (f : final) (more : list arrival) : list effect :=
  concat (map (receive_unencrypted handlers (state_after f)) more).
