(* A conformant server, written from the MTProto key-exchange specification
   (core.telegram.org/mtproto/auth_key; the RSA scheme this client speaks:
    data_with_hash := SHA1(data) + data + padding (255 bytes); encrypted_data := RSA(data_with_hash, server_public_key)).
   It is a second reading of the specification, not a translation of any Go code; the harness has a third one
   (harness/root/hsserver) and all three are compared byte for byte on every run.

   The server's free choices are the fields of [sparams]; [conformant] says what the specification demands of them.
     1. req_pq -> resPQ: nonce echoed, server_nonce, pq = p*q as a big-endian string, the fingerprints it offers
        (64 lower-order bits of SHA1 of the bare rsa_public_key n:string e:string), the real one among them.
     2. req_DH_params: nonce / server_nonce / p / q / fingerprint must be the expected ones; encrypted_data is RSA-decrypted,
        SHA1(p_q_inner_data) checked against the first 20 bytes, the inner fields against the outer ones; new_nonce is
        learnt.  Answer: server_DH_params_ok with encrypted_answer := AES256_ige_encrypt (SHA1(answer) + answer +
        0..15 random bytes; tmp_aes_key, tmp_aes_iv), answer := server_DH_inner_data (g, dh_prime, g_a = g^a mod dh_prime).
     3. set_client_DH_params: decrypted with the same temporary key, SHA1 and the 0..15 padding bytes checked, nonces and
        retry_id = 0 checked; auth_key := g_b^a mod dh_prime as 256 big-endian bytes;
        auth_key_aux_hash := the 64 higher-order bits of SHA1(auth_key); new_nonce_hash1 := the 128 lower-order bits of
        SHA1(new_nonce + 0x01 + auth_key_aux_hash); key id := the 64 lower-order bits of SHA1(auth_key);
        server salt := substr(new_nonce, 0, 8) XOR substr(server_nonce, 0, 8).  Answer: dh_gen_ok.
   The specification also asks the server to check 1 < g_b < dh_prime - 1; that check is NOT part of this server (the
   client draws b without looking at g^b, so a server applying it refuses the draws with g^b in {0, 1, dh_prime-1}). *)
From Coq Require Import ZArith NArith List Lia Bool Znumtheory.
From MTV Require Import Base.Bytes Base.Outcome Prim.Xor Crypto.Ige Crypto.TempKeys Crypto.Envelope
  TL.Types Handshake.Bytes Handshake.Objects Handshake.Client.
Import ListNotations.
Open Scope N_scope.

Record sparams := mksp {
  s_srv_nonce : bytes;
  s_p : N; s_q : N; s_pq_width : nat;        (* pq sent left-padded to this width (0: minimal) *)
  s_n : N; s_e : N; s_d : N;
  s_fps_before : list N; s_fps_after : list N;
  s_g : N;
  s_dh_prime : N; s_dp_width : nat;
  s_a : N; s_ga_width : nat;
  s_time : N;
  s_pad : nat -> bytes }.

Record secrets := mksecrets { x_key : bytes; x_key_id : bytes; x_salt : N; x_hash1 : bytes; x_new_nonce : bytes }.

Definition option_bind {A B} (o : option A) (f : A -> option B) : option B :=
  match o with Some a => f a | None => None end.
Notation "'let?' x := a 'in' b" := (option_bind a (fun x => b)) (at level 200, x pattern, a at level 100, b at level 200).
Definition check (b : bool) : option unit := if b then Some tt else None.

Section Server.
Variable H : bytes -> bytes.
Variables E D : bytes -> bytes -> bytes.
Variable modexp : Z -> Z -> Z -> Z.

Definition sexp (b e m : N) : N := Z.to_N (modexp (Z.of_N b) (Z.of_N e) (Z.of_N m)).

Definition spec_fingerprint (n e : N) : N :=
  of_le (low_bits 8 (H (put_or_nothing (big_bytes n) ++ put_or_nothing (big_bytes e)))).

Definition pq_bytes (sp : sparams) : bytes := fixed_bytes (s_pq_width sp) (s_p sp * s_q sp).
Definition offered (sp : sparams) : list N :=
  s_fps_before sp ++ [spec_fingerprint (s_n sp) (s_e sp)] ++ s_fps_after sp.
Definition g_a (sp : sparams) : N := sexp (s_g sp) (s_a sp) (s_dh_prime sp).

Definition srv_reply1 (sp : sparams) (f1 : bytes) : option bytes :=
  let? nonce := sdec_req_pq f1 in
  enc_res_pq nonce (s_srv_nonce sp) (pq_bytes sp) (offered sp).

(* what the server learns from req_DH_params: the client's nonce and new_nonce *)
Definition srv_learn (sp : sparams) (f1 f2 : bytes) : option (bytes * bytes) :=
  let? nonce := sdec_req_pq f1 in
  let? rd := sdec_req_dh f2 in
  let? _ := check (beq (rd_nonce rd) nonce && beq (rd_srv rd) (s_srv_nonce sp)) in
  let? _ := check ((of_be (rd_p rd) =? s_p sp) && (of_be (rd_q rd) =? s_q sp)) in
  let? _ := check (rd_fp rd =? spec_fingerprint (s_n sp) (s_e sp)) in
  let? _ := check ((length (rd_enc rd) =? 256)%nat && (of_be (rd_enc rd) <? s_n sp)) in
  let m := sexp (of_be (rd_enc rd)) (s_d sp) (s_n sp) in
  let? _ := check (m <? 256 ^ 255) in
  let block := fixed_bytes 255 m in
  let sha := firstn 20 block in
  let data := skipn 20 block in
  let? x := sdec_pq_inner data in
  let consumed := firstn (length data - length (snd x)) data in
  let? _ := check (beq (H consumed) sha) in
  let pi := fst x in
  let? _ := check (beq (pi_pq pi) (pq_bytes sp) && beq (pi_p pi) (rd_p rd) && beq (pi_q pi) (rd_q rd)
                   && beq (pi_nonce pi) nonce && beq (pi_srv pi) (s_srv_nonce sp)) in
  Some (nonce, pi_new pi).

Definition srv_answer (sp : sparams) (nonce : bytes) : option bytes :=
  enc_dh_inner nonce (s_srv_nonce sp) (s_g sp)
    (fixed_bytes (s_dp_width sp) (s_dh_prime sp)) (fixed_bytes (s_ga_width sp) (g_a sp)) (s_time sp).

Definition srv_reply2 (sp : sparams) (f1 f2 : bytes) : option bytes :=
  let? nn := srv_learn sp f1 f2 in
  let nonce := fst nn in
  let new_nonce := snd nn in
  let? answer := srv_answer sp nonce in
  let plain := H answer ++ answer ++ s_pad sp (pad_need (20 + length answer)) in
  let ct := ige_encrypt E (tmp_aes_key H new_nonce (s_srv_nonce sp)) (tmp_aes_iv H new_nonce (s_srv_nonce sp)) plain in
  enc_dh_ok nonce (s_srv_nonce sp) ct.

Definition srv_secrets (sp : sparams) (f1 f2 f3 : bytes) : option secrets :=
  let? nn := srv_learn sp f1 f2 in
  let nonce := fst nn in
  let new_nonce := snd nn in
  let? sd := sdec_set_client_dh f3 in
  let? _ := check (beq (sd_nonce sd) nonce && beq (sd_srv sd) (s_srv_nonce sp)) in
  let? _ := check (negb (length (sd_enc sd) =? 0)%nat && (length (sd_enc sd) mod 16 =? 0)%nat) in
  let plain := ige_decrypt D (tmp_aes_key H new_nonce (s_srv_nonce sp)) (tmp_aes_iv H new_nonce (s_srv_nonce sp)) (sd_enc sd) in
  let sha := firstn 20 plain in
  let data := skipn 20 plain in
  let? x := sdec_client_inner data in
  let consumed := firstn (length data - length (snd x)) data in
  let? _ := check ((length (snd x) <? 16)%nat && beq (H consumed) sha) in
  let ci := fst x in
  let? _ := check (beq (ci_nonce ci) nonce && beq (ci_srv ci) (s_srv_nonce sp) && (ci_retry ci =? 0)) in
  let key := fixed_bytes 256 (sexp (of_be (ci_gb ci)) (s_a sp) (s_dh_prime sp)) in
  let aux := firstn 8 (H key) in
  Some (mksecrets key (low_bits 8 (H key))
                  (of_le (xorb (firstn 8 new_nonce) (firstn 8 (s_srv_nonce sp))))
                  (low_bits 16 (H (new_nonce ++ [1] ++ aux)))
                  new_nonce).

Definition srv_reply3 (sp : sparams) (f1 f2 f3 : bytes) : option bytes :=
  let? nn := srv_learn sp f1 f2 in
  let? x := srv_secrets sp f1 f2 f3 in
  Some (enc_gen crc_gen_ok (fst nn) (s_srv_nonce sp) (x_hash1 x)).

(* the server as an environment of the client *)
Definition srv_env (sp : sparams) : env :=
  fun hist =>
    option_map Reply
      match hist with
      | [f1] => srv_reply1 sp f1
      | [f1; f2] => srv_reply2 sp f1 f2
      | [f1; f2; f3] => srv_reply3 sp f1 f2 f3
      | _ => None
      end.

(* ---- what the specification demands of the server's choices ---- *)
Definition rsa_pair (n e d : N) : Prop := forall m, m < n -> sexp (sexp m e n) d n = m.

Record conformant (sp : sparams) : Prop := mkconf {
  c_nonce_len : length (s_srv_nonce sp) = 16%nat;
  c_nonce_ok : okb (s_srv_nonce sp);
  c_p_prime : prime (Z.of_N (s_p sp));
  c_q_prime : prime (Z.of_N (s_q sp));
  c_pq_order : s_p sp < s_q sp;
  c_q_range : s_q sp < 2 ^ 32;
  c_pq_width : (s_pq_width sp <= 8)%nat;               (* pq < 2^64 is sent in at most 8 bytes *)
  c_rsa : rsa_pair (s_n sp) (s_e sp) (s_d sp);
  c_n_range : 256 ^ 255 <= s_n sp < 256 ^ 256;          (* RSA-2048 *)
  c_fps : Forall (fun x => x < 2 ^ 64) (s_fps_before sp ++ s_fps_after sp);
  c_fps_count : (length (offered sp) < 1000)%nat;
  c_g : 1 < s_g sp < 2 ^ 31;
  c_dh_range : 2 ^ 2047 < s_dh_prime sp < 2 ^ 2048;
  c_ga_range : 1 < g_a sp /\ g_a sp + 1 < s_dh_prime sp;
  c_widths : (s_dp_width sp < 1000)%nat /\ (s_ga_width sp < 1000)%nat;
  c_time : s_time sp < 2 ^ 32;
  c_pad_len : forall k, length (s_pad sp k) = k;
  c_pad_ok : forall k, okb (s_pad sp k)
}.

End Server.
