(* Go conversions used by the key exchange (handshake.go, internal/math/math.go, go-dry):

     big.Int.SetBytes                 -> of_be        (Base/Bytes.v)
     big.Int.Bytes                    -> big_bytes    (Crypto/TempKeys.v: minimal big-endian, [] for 0)
     math.FixedBytes / ige.fixedBytes -> fixed_bytes  (Crypto/TempKeys.v: left-pad to the width, longer values as is)
     dry.BigIntBytes(v, bits)         -> dry_big_int_bytes   (panics when the value does not fit)
     big.Int.BitLen                   -> N.size
     big.Int.Exp (for execution on small groups) -> modpow (square and multiply)

   plus the facts about them that the handshake proofs need.  The definitions of big_bytes, fixed_bytes,
   copy_into, gslice, zbuf are those verified under C05 and are imported, not repeated. *)
From Coq Require Import ZArith NArith List Lia ZifyN ZifyNat ZifyBool Bool.
From MTV Require Import Base.Bytes Base.Outcome Prim.Xor Prim.Sha1 Crypto.IgeProofs Crypto.TempKeys Crypto.TempKeysProofs.
Import ListNotations.
Open Scope nat_scope.
Ltac Zify.zify_post_hook ::= Z.div_mod_to_equations.

Definition okb (l : bytes) : Prop := bytes_ok l = true.

(* dry.BigIntBytes(v, 8*size): offset := size - len(v.Bytes()); panics when negative *)
Definition dry_big_int_bytes (size : nat) (n : N) : outcome bytes :=
  if size <? length (big_bytes n) then Panic else Ok (fixed_bytes size n).

(* ---- modular exponentiation, executable (used for small groups and in Examples) ---- *)
Fixpoint modpow_pos (b : Z) (e : positive) (m : Z) : Z :=
  match e with
  | xH => (b mod m)%Z
  | xO e' => let r := modpow_pos b e' m in ((r * r) mod m)%Z
  | xI e' => let r := modpow_pos b e' m in ((((r * r) mod m) * (b mod m)) mod m)%Z
  end.

(* big.Int.Exp(b, e, m) for e >= 0, m > 0 *)
Definition modpow (b e m : Z) : Z :=
  match e with
  | Z0 => (1 mod m)%Z
  | Zpos p => modpow_pos b p m
  | Zneg _ => (1 mod m)%Z
  end.

Lemma modpow_pos_spec b e m : (0 < m)%Z -> modpow_pos b e m = ((b ^ Zpos e) mod m)%Z.
Proof.
  intros Hm. induction e as [e IH|e IH|]; cbn [modpow_pos].
  - rewrite IH. rewrite Pos2Z.inj_xI.
    replace (2 * Z.pos e + 1)%Z with (Z.pos e + Z.pos e + 1)%Z by lia.
    rewrite !Z.pow_add_r by lia. rewrite Z.pow_1_r.
    set (X := (b ^ Z.pos e)%Z).
    rewrite <- (Z.mul_mod X X m) by lia. rewrite <- (Z.mul_mod (X * X) b m) by lia. reflexivity.
  - rewrite IH. rewrite Pos2Z.inj_xO.
    replace (2 * Z.pos e)%Z with (Z.pos e + Z.pos e)%Z by lia.
    rewrite Z.pow_add_r by lia. set (X := (b ^ Z.pos e)%Z). rewrite <- (Z.mul_mod X X m) by lia. reflexivity.
  - now rewrite Z.pow_1_r.
Qed.

Lemma modpow_spec b e m : (0 <= e)%Z -> (0 < m)%Z -> modpow b e m = ((b ^ e) mod m)%Z.
Proof.
  intros He Hm. destruct e as [|p|p]; [reflexivity|apply modpow_pos_spec, Hm|lia].
Qed.

(* ---- power-mod algebra (the Diffie-Hellman core) ---- *)
Lemma pow_mod_base (x : Z) (e m : Z) : (0 <= e)%Z -> (0 < m)%Z -> (((x mod m) ^ e) mod m = (x ^ e) mod m)%Z.
Proof.
  intros He Hm. pattern e. apply natlike_ind; [reflexivity| |exact He].
  intros k Hk IH. rewrite !Z.pow_succ_r by lia.
  rewrite Z.mul_mod by lia. rewrite IH. rewrite Z.mod_mod by lia. rewrite <- Z.mul_mod by lia. reflexivity.
Qed.

Theorem dh_agree (g a b p : Z) : (0 <= a)%Z -> (0 <= b)%Z -> (0 < p)%Z ->
  ((((g ^ a) mod p) ^ b) mod p = (((g ^ b) mod p) ^ a) mod p)%Z.
Proof.
  intros Ha Hb Hp. rewrite !pow_mod_base by lia. rewrite <- !Z.pow_mul_r by lia.
  now rewrite Z.mul_comm.
Qed.

(* ---- big.Int.Bytes / SetBytes ---- *)
Lemma of_be_rev l : of_be (rev l) = of_le l.
Proof.
  induction l as [|x l IH]; [reflexivity|]. cbn [rev of_le]. rewrite of_be_snoc, IH. lia.
Qed.

Lemma of_le_le_min f : forall n, (n < 256 ^ N.of_nat f)%N -> of_le (le_min f n) = n.
Proof.
  induction f as [|f IH]; intros n Hn.
  - cbn in Hn. cbn [le_min of_le]. lia.
  - cbn [le_min]. destruct (N.eqb_spec n 0) as [->|Hz]; [reflexivity|].
    cbn [of_le]. rewrite pow256_S in Hn. rewrite IH by (apply N.div_lt_upper_bound; lia). lia.
Qed.

Lemma of_be_big_bytes n : of_be (big_bytes n) = n.
Proof. unfold big_bytes. rewrite of_be_rev. apply of_le_le_min, size_bound. Qed.

Lemma le_min_ok f : forall n, okb (le_min f n).
Proof.
  unfold okb. induction f as [|f IH]; intros n; cbn [le_min]; [reflexivity|].
  destruct (n =? 0)%N; [reflexivity|]. cbn [bytes_ok forallb]. fold (bytes_ok (le_min f (n / 256))).
  rewrite IH, andb_true_r. unfold byte_ok. apply N.ltb_lt. lia.
Qed.

Lemma okb_rev l : okb l -> okb (rev l).
Proof.
  unfold okb. rewrite !bytes_ok_forall. intros Hf. apply Forall_rev, Hf.
Qed.

Lemma okb_app a b : okb (a ++ b) <-> okb a /\ okb b.
Proof. unfold okb. rewrite bytes_ok_app, andb_true_iff. reflexivity. Qed.

Lemma okb_repeat0 n : okb (repeat 0%N n).
Proof. unfold okb. induction n; [reflexivity|]. cbn [repeat bytes_ok forallb]. exact IHn. Qed.

Lemma okb_firstn n l : okb l -> okb (firstn n l).
Proof. apply ok_firstn. Qed.

Lemma okb_skipn n l : okb l -> okb (skipn n l).
Proof. apply ok_skipn. Qed.

Lemma big_bytes_ok n : okb (big_bytes n).
Proof. unfold big_bytes. apply okb_rev, le_min_ok. Qed.

Lemma fixed_bytes_ok size n : okb (fixed_bytes size n).
Proof.
  unfold fixed_bytes. destruct (size <=? length (big_bytes n)); [apply big_bytes_ok|].
  apply okb_app. split; [apply okb_repeat0|apply big_bytes_ok].
Qed.

Lemma of_be_acc_zeros k : forall acc l, of_be_acc acc (repeat 0%N k ++ l) = of_be_acc (256 ^ N.of_nat k * acc) l.
Proof.
  induction k as [|k IH]; intros acc l.
  - cbn [repeat app]. f_equal. change (N.of_nat 0) with 0%N. rewrite N.pow_0_r. lia.
  - cbn [repeat app of_be_acc]. rewrite IH. f_equal. rewrite pow256_S. lia.
Qed.

Lemma of_be_zeros_app k l : of_be (repeat 0%N k ++ l) = of_be l.
Proof. unfold of_be. rewrite of_be_acc_zeros. f_equal. lia. Qed.

(* the value never changes: padding adds leading zeros only *)
Lemma of_be_fixed_bytes size n : of_be (fixed_bytes size n) = n.
Proof.
  unfold fixed_bytes. destruct (size <=? length (big_bytes n)).
  - apply of_be_big_bytes.
  - rewrite of_be_zeros_app. apply of_be_big_bytes.
Qed.

Lemma big_bytes_length_le size n : (n < 256 ^ N.of_nat size)%N -> length (big_bytes n) <= size.
Proof.
  intros Hn. rewrite (big_bytes_fuel size n Hn), rev_length. apply le_min_length.
Qed.

Lemma fixed_bytes_length size n : (n < 256 ^ N.of_nat size)%N -> length (fixed_bytes size n) = size.
Proof. intros Hn. rewrite (fixed_bytes_fit size n Hn). apply be_fixed_length. Qed.

Lemma fixed_bytes_length_ge size n : size <= length (fixed_bytes size n).
Proof.
  unfold fixed_bytes. destruct (Nat.leb_spec size (length (big_bytes n))); [assumption|].
  rewrite app_length, repeat_length. lia.
Qed.

(* big-endian decoding is injective on byte strings of one length *)
Lemma of_be_inj a b : length a = length b -> okb a -> okb b -> of_be a = of_be b -> a = b.
Proof.
  intros Hl Ha Hb He. rewrite <- (fixed_bytes_of_be a Ha), <- (fixed_bytes_of_be b Hb), Hl, He. reflexivity.
Qed.

Lemma dry_big_int_bytes_fit size n : (n < 256 ^ N.of_nat size)%N -> dry_big_int_bytes size n = Ok (fixed_bytes size n).
Proof.
  intros Hn. unfold dry_big_int_bytes. pose proof (big_bytes_length_le size n Hn).
  destruct (Nat.ltb_spec size (length (big_bytes n))); [lia|reflexivity].
Qed.

Lemma dry_big_int_bytes_raw raw : okb raw -> dry_big_int_bytes (length raw) (of_be raw) = Ok raw.
Proof.
  intros Hr. rewrite dry_big_int_bytes_fit by (apply of_be_bound, Hr). now rewrite fixed_bytes_of_be.
Qed.

(* little-endian 64-bit word of 8 bytes *)
Lemma of_le_bound l : okb l -> (of_le l < 256 ^ N.of_nat (length l))%N.
Proof.
  unfold okb. induction l as [|x l IH]; intros Hok; [cbn; lia|].
  cbn [bytes_ok forallb] in Hok. apply andb_true_iff in Hok as [Hx Hl]. unfold byte_ok in Hx. apply N.ltb_lt in Hx.
  cbn [of_le length]. rewrite pow256_S. specialize (IH Hl). lia.
Qed.

(* xor of two byte strings (math.Xor on equal lengths) keeps bytes *)
Lemma xorb_okb a b : okb a -> okb b -> okb (xorb a b).
Proof. apply xorb_bytes_ok. Qed.

Lemma okb_zbuf n : okb (zbuf n).
Proof. apply okb_repeat0. Qed.

Lemma copy_into_ok dst off src : okb dst -> okb src -> okb (copy_into dst off src).
Proof.
  intros Hd Hs. unfold copy_into. apply okb_app. split; [apply okb_firstn, Hd|].
  apply okb_app. split; [apply okb_firstn, Hs|apply okb_skipn, Hd].
Qed.

Lemma copy_into_length dst off src : off <= length dst -> length (copy_into dst off src) = length dst.
Proof.
  intros Ho. unfold copy_into. rewrite !app_length, !firstn_length, skipn_length. lia.
Qed.
