(* C06: against a conformant server (Handshake/Server.v) the client (Handshake/Client.v) ends in Success with the
   server's 256-byte auth key, key id and salt, whatever the draws and whatever the server's choices.
   The whole exchange is computed symbolically: every message is a closed expression in the draws and parameters. *)
From Coq Require Import ZArith NArith List Lia ZifyN ZifyNat ZifyBool Bool Znumtheory.
From MTV Require Import Base.Bytes Base.Outcome Prim.Xor Crypto.Ige Crypto.IgeMem Crypto.IgeProofs Crypto.TempKeys
  Crypto.TempKeysProofs Crypto.Envelope Crypto.EnvelopeProofs TL.Types
  Handshake.Bytes Handshake.Objects Handshake.ObjectsProofs Handshake.Client Handshake.Server Handshake.Abort Handshake.AgreeLemmas.
Import ListNotations.
Open Scope N_scope.
Ltac Zify.zify_post_hook ::= Z.div_mod_to_equations.

Definition draws_ok (dr : draws) : Prop :=
  length (d_nonce dr) = 16%nat /\ okb (d_nonce dr) /\
  length (d_new_nonce dr) = 32%nat /\ okb (d_new_nonce dr) /\
  length (d_b dr) = 256%nat /\ okb (d_b dr) /\
  (forall n, length (d_pad dr n) = n) /\ (forall n, okb (d_pad dr n)).

(* TL serialisation of a byte string known to be short enough *)
Definition tl (b : bytes) : bytes := put_or_nothing b.

Lemma tl_put b : blen b < 16000000 -> put_bytes b = Some (tl b).
Proof. intros Hb. destruct (put_bytes_short b Hb) as [x Hx]. unfold tl, put_or_nothing. now rewrite Hx. Qed.

Lemma tl_length_le b : blen b < 16000000 -> (length (tl b) <= length b + 7)%nat.
Proof. intros Hb. apply put_bytes_length_le, tl_put, Hb. Qed.

Lemma tl_okb b : blen b < 16000000 -> okb b -> okb (tl b).
Proof. intros Hb Ho. eapply put_bytes_okb; [exact Ho|apply tl_put, Hb]. Qed.

Section Agreement.
Variable H : bytes -> bytes.
Variables E D : bytes -> bytes -> bytes.
Variable modexp : Z -> Z -> Z -> Z.
Variable is_prime : N -> bool.
Variable split : N -> option (N * N).

Hypothesis H_len : forall m, length (H m) = 20%nat.
Hypothesis H_ok : forall m, okb (H m).
Hypothesis E_len : forall k b, length (E k b) = 16%nat.
Hypothesis D_len : forall k b, length (D k b) = 16%nat.
Hypothesis E_ok : forall k b, okb k -> okb b -> okb (E k b).
Hypothesis DE : forall k b, length k = 32%nat -> okb k -> length b = 16%nat -> okb b -> D k (E k b) = b.
(* math/big Exp *)
Hypothesis modexp_spec : forall b e m, (0 <= e)%Z -> (0 < m)%Z -> modexp b e m = ((b ^ e) mod m)%Z.
(* math/big ProbablyPrime(20) has no false positives below 2^64 *)
Hypothesis is_prime_sound : forall n, n < 2 ^ 64 -> is_prime n = true -> prime (Z.of_N n).
(* math.SplitPQ: whatever it returns is an ordered factorisation (C06_splitpq_partial) *)
Hypothesis split_sound : forall n a b, split n = Some (a, b) -> a * b = n /\ 1 < a /\ a <= b.

Variable sp : sparams.
Hypothesis CF : conformant H modexp sp.
Variable dr : draws.
Hypothesis DR : draws_ok dr.
(* the factorisation loop exits on this pq (probabilistic termination is not proved) *)
Hypothesis split_exits : split (s_p sp * s_q sp) <> None.

Let pk := mkpub (s_n sp) (s_e sp).
Let nonce := d_nonce dr.
Let nn := d_new_nonce dr.
Let srvn := s_srv_nonce sp.
Let pqb := pq_bytes sp.
Let fp := spec_fingerprint H (s_n sp) (s_e sp).
Let bp := big_bytes (s_p sp).
Let bq := big_bytes (s_q sp).
Let f1 := le32 crc_req_pq ++ nonce.
Let message := le32 crc_pq_inner ++ tl pqb ++ tl bp ++ tl bq ++ nonce ++ srvn ++ nn.
Let zeros_tail := zbuf (255 - (20 + length message)).
Let block := (H message ++ message) ++ zeros_tail.
Let cnum := zexp modexp (of_be block) (s_e sp) (s_n sp).
Let encrypted := fixed_bytes 256 cnum.
Let f2 := le32 crc_req_dh ++ nonce ++ srvn ++ tl bp ++ tl bq ++ le64 fp ++ tl encrypted.
Let r1 := le32 crc_res_pq ++ nonce ++ srvn ++ tl pqb ++ le32 crc_vector
          ++ le32 (N.of_nat (length (offered H sp))) ++ concat (map le64 (offered H sp)).

Let Ln : length nonce = 16%nat := proj1 DR.
Let On : okb nonce := proj1 (proj2 DR).
Let Lnn : length nn = 32%nat := proj1 (proj2 (proj2 DR)).
Let Onn : okb nn := proj1 (proj2 (proj2 (proj2 DR))).
Let Ls : length srvn = 16%nat := c_nonce_len _ _ _ CF.
Let Os : okb srvn := c_nonce_ok _ _ _ CF.

Lemma p_range : 1 < s_p sp /\ s_p sp < 2 ^ 32 /\ 1 < s_q sp /\ s_q sp < 2 ^ 32.
Proof.
  pose proof (prime_ge_2 _ (c_p_prime _ _ _ CF)). pose proof (prime_ge_2 _ (c_q_prime _ _ _ CF)).
  pose proof (c_pq_order _ _ _ CF). pose proof (c_q_range _ _ _ CF). lia.
Qed.

Lemma pq_lt : s_p sp * s_q sp < 2 ^ 64.
Proof. destruct p_range as (? & ? & ? & ?). change (2 ^ 64) with (2 ^ 32 * 2 ^ 32). nia. Qed.

Lemma big_bytes_le n k : n < 256 ^ N.of_nat k -> blen (big_bytes n) <= N.of_nat k.
Proof. intros Hn. pose proof (big_bytes_length_le k n Hn). unfold blen. lia. Qed.

Lemma blen_bp : blen bp <= 4.
Proof. apply (big_bytes_le _ 4). destruct p_range as (? & ? & ? & ?). change (256 ^ N.of_nat 4) with (2 ^ 32). lia. Qed.
Lemma blen_bq : blen bq <= 4.
Proof. apply (big_bytes_le _ 4). destruct p_range as (? & ? & ? & ?). change (256 ^ N.of_nat 4) with (2 ^ 32). lia. Qed.

Lemma blen_pqb : blen pqb <= 8.
Proof.
  unfold pqb, pq_bytes, blen. rewrite fixed_bytes_length_max.
  pose proof (c_pq_width _ _ _ CF). pose proof (big_bytes_length_le 8 _ pq_lt). lia.
Qed.

Lemma of_be_pqb : of_be pqb = s_p sp * s_q sp.
Proof. apply of_be_fixed_bytes. Qed.

Lemma okb_pqb : okb pqb.
Proof. apply fixed_bytes_ok. Qed.

Lemma fp_lt : fp < 2 ^ 64.
Proof.
  unfold fp, spec_fingerprint. set (h := H _).
  assert (Hl : length (low_bits 8 h) = 8%nat) by (unfold low_bits; rewrite skipn_length; unfold h; rewrite H_len; reflexivity).
  pose proof (of_le_bound (low_bits 8 h)) as Hb. rewrite Hl in Hb.
  change (256 ^ N.of_nat 8) with (2 ^ 64) in Hb. apply Hb. unfold low_bits. apply okb_skipn, H_ok.
Qed.

Lemma offered_ok : Forall (fun x => x < 2 ^ 64) (offered H sp) /\ N.of_nat (length (offered H sp)) < 2 ^ 32.
Proof.
  split.
  - pose proof (c_fps _ _ _ CF) as Hf. apply Forall_app in Hf as [Hb Ha]. unfold offered.
    apply Forall_app. split; [exact Hb|]. apply Forall_app. split; [|exact Ha]. constructor; [apply fp_lt|constructor].
  - pose proof (c_fps_count _ _ _ CF). lia.
Qed.

(* the client's fingerprint is the specification's *)
Lemma fingerprint_is_spec : fingerprint64 H pk = Ok fp.
Proof.
  unfold fingerprint64, fp, spec_fingerprint. cbn [k_n k_e pk]. set (h := H _).
  assert (Lh : length h = 20%nat) by apply H_len. rewrite Lh.
  rewrite gslice_ok by lia. cbn [obind]. change (20 - 12)%nat with 8%nat.
  assert (Lf : length (firstn 8 (skipn 12 h)) = 8%nat) by (rewrite firstn_length, skipn_length; lia).
  rewrite Lf. cbn [Nat.ltb Nat.leb]. unfold low_bits. rewrite Lh. change (20 - 8)%nat with 12%nat.
  rewrite (firstn_all2 (n := 8) (firstn 8 (skipn 12 h))) by lia.
  rewrite (firstn_all2 (n := 8) (skipn 12 h)) by (rewrite skipn_length; lia). reflexivity.
Qed.

Lemma r1_is : srv_reply1 H sp f1 = Some r1.
Proof.
  unfold srv_reply1, f1. rewrite sdec_req_pq_ok by exact Ln. cbn [option_bind].
  unfold enc_res_pq. fold pqb srvn. rewrite (tl_put pqb) by (pose proof blen_pqb; lia). reflexivity.
Qed.

Lemma r1_dec : dec_reply r1 = DObj (RResPQ (of_be nonce) (of_be srvn) pqb (offered H sp)).
Proof.
  destruct offered_ok as [Hf Hn].
  apply (dec_reply_res_pq nonce srvn pqb (offered H sp) r1 Ln Ls Hf Hn).
  unfold enc_res_pq. rewrite (tl_put pqb) by (pose proof blen_pqb; lia). reflexivity.
Qed.

Lemma split_is : split (s_p sp * s_q sp) = Some (s_p sp, s_q sp).
Proof.
  destruct (split (s_p sp * s_q sp)) as [[a b]|] eqn:Hs; [|contradiction].
  destruct (split_sound _ _ _ Hs) as (Hm & Ha & Hab).
  destruct (semiprime_unique (Z.of_N (s_p sp)) (Z.of_N (s_q sp)) (Z.of_N a) (Z.of_N b)
              (c_p_prime _ _ _ CF) (c_q_prime _ _ _ CF)) as [Hx Hy]; try lia.
  - pose proof (c_pq_order _ _ _ CF). lia.
  - f_equal. f_equal; lia.
Qed.

Lemma message_length : (length message <= 110)%nat.
Proof.
  unfold message. rewrite !app_length, le32_length, Ln, Ls, Lnn.
  pose proof (tl_length_le pqb ltac:(pose proof blen_pqb; lia)).
  pose proof (tl_length_le bp ltac:(pose proof blen_bp; lia)).
  pose proof (tl_length_le bq ltac:(pose proof blen_bq; lia)).
  pose proof blen_pqb. pose proof blen_bp. pose proof blen_bq. unfold blen in *. lia.
Qed.

Lemma message_is : enc_pq_inner pqb bp bq (of_be nonce) (of_be srvn) (of_be nn) = Ok message.
Proof.
  apply enc_pq_inner_raw; auto; apply tl_put.
  - pose proof blen_pqb; lia.
  - pose proof blen_bp; lia.
  - pose proof blen_bq; lia.
Qed.

Lemma block_is : copy_into (zbuf 255) 0 (H message ++ message) = block.
Proof.
  pose proof message_length as Hm. unfold block, zeros_tail.
  replace 255%nat with ((20 + length message) + (255 - (20 + length message)))%nat at 1 by lia.
  rewrite zbuf_app. apply copy_into_head. rewrite zbuf_length, app_length, H_len. reflexivity.
Qed.

Lemma block_length : length block = 255%nat.
Proof.
  pose proof message_length. unfold block, zeros_tail. rewrite !app_length, H_len, zbuf_length. lia.
Qed.

Lemma okb_message : okb message.
Proof.
  unfold message. repeat (apply okb_app; split); auto using le32_okb.
  - apply tl_okb; [pose proof blen_pqb; lia|apply okb_pqb].
  - apply tl_okb; [pose proof blen_bp; lia|apply big_bytes_ok].
  - apply tl_okb; [pose proof blen_bq; lia|apply big_bytes_ok].
Qed.

Lemma okb_block : okb block.
Proof.
  unfold block, zeros_tail. apply okb_app. split; [|apply okb_zbuf]. apply okb_app. split; [apply H_ok|apply okb_message].
Qed.

Lemma n_pos : 0 < s_n sp.
Proof. pose proof (c_n_range _ _ _ CF) as [Hn _]. pose proof (N.pow_nonzero 256 255 ltac:(lia)). lia. Qed.

Lemma zexp_lt b e m : 0 < m -> zexp modexp b e m < m.
Proof.
  intros Hm. unfold zexp. rewrite modexp_spec by lia.
  pose proof (Z.mod_pos_bound (Z.of_N b ^ Z.of_N e) (Z.of_N m) ltac:(lia)). lia.
Qed.

Lemma cnum_lt : cnum < s_n sp.
Proof. apply zexp_lt, n_pos. Qed.

Lemma encrypted_length : length encrypted = 256%nat.
Proof.
  apply fixed_bytes_length. pose proof cnum_lt. pose proof (c_n_range _ _ _ CF) as [_ Hn].
  change (256 ^ N.of_nat 256) with (256 ^ 256). lia.
Qed.

Lemma f2_is : enc_req_dh (of_be nonce) (of_be srvn) bp bq fp encrypted = Ok f2.
Proof.
  apply enc_req_dh_raw; auto; apply tl_put.
  - pose proof blen_bp; lia.
  - pose proof blen_bq; lia.
  - unfold blen. rewrite encrypted_length. lia.
Qed.

Notation env0 := (srv_env H E D modexp sp).

Lemma request1 : request [] f1 env0
  = ([SendPlain f1], Go (RResPQ (of_be nonce) (of_be srvn) pqb (offered H sp), [f1])).
Proof.
  unfold request. cbn [app wbind emit]. unfold srv_env. cbv beta iota. rewrite r1_is. cbn [option_map]. rewrite r1_dec. reflexivity.
Qed.

Lemma pq_guard : negb ((of_be pqb <=? 1) || (64 <? N.size (of_be pqb)) || is_prime (of_be pqb)) = true.
Proof.
  rewrite of_be_pqb. destruct p_range as (Hp & _ & Hq & _).
  destruct (N.leb_spec (s_p sp * s_q sp) 1); [nia|]. rewrite (size_le_64 _ pq_lt). cbn [orb].
  destruct (is_prime (s_p sp * s_q sp)) eqn:Hpr; [|reflexivity].
  exfalso. apply is_prime_sound in Hpr; [|apply pq_lt].
  apply (product_not_prime (Z.of_N (s_p sp)) (Z.of_N (s_q sp))); try lia.
  now rewrite <- N2Z.inj_mul.
Qed.

Lemma stage1_is : stage1 H modexp is_prime split pk dr env0
  = ([SendPlain f1], Go (mkst1 (of_be nonce) (of_be srvn) (of_be nn) [f1] f2)).
Proof.
  unfold stage1. fold nonce nn. rewrite (enc_req_pq_raw nonce Ln On). fold f1.
  cbn [of_outcome wbind ret app]. rewrite request1. cbn [wbind fst snd].
  rewrite N.eqb_refl. cbn [guard wbind ret app].
  rewrite fingerprint_is_spec. rewrite (find_fp_in (offered H sp) fp) by (unfold offered, fp; apply in_or_app; right; now left).
  cbn [of_outcome wbind ret guard app]. rewrite pq_guard. cbn [guard wbind ret app].
  rewrite of_be_pqb, split_is. fold bp bq.
  rewrite message_is. cbn [of_checked wbind ret app]. rewrite block_is.
  unfold rsa_encrypt. rewrite block_length. cbn [Nat.eqb negb]. fold cnum encrypted.
  cbn [of_outcome wbind ret app k_e k_n pk]. fold cnum encrypted.
  rewrite f2_is. reflexivity.
Qed.

(* ---------------------------------------------------------------------------------------------- *)
(* the server reads req_DH_params *)
Lemma block_num_lt : of_be block < 256 ^ 255.
Proof. pose proof (of_be_bound block okb_block) as Hb. rewrite block_length in Hb. exact Hb. Qed.

Lemma rsa_roundtrip : sexp modexp (of_be encrypted) (s_d sp) (s_n sp) = of_be block.
Proof.
  unfold encrypted. rewrite of_be_fixed_bytes. unfold cnum. apply (c_rsa _ _ _ CF).
  pose proof block_num_lt. pose proof (c_n_range _ _ _ CF). lia.
Qed.

Lemma learn_is : srv_learn H modexp sp f1 f2 = Some (nonce, nn).
Proof.
  unfold srv_learn. unfold f1 at 1. rewrite sdec_req_pq_ok by exact Ln. cbn [option_bind].
  unfold f2. rewrite (sdec_req_dh_ok nonce srvn bp bq fp encrypted (tl bp) (tl bq) (tl encrypted) Ln Ls fp_lt)
    by (apply tl_put; first [pose proof blen_bp; pose proof blen_bq; lia | unfold blen; rewrite encrypted_length; lia]).
  cbn [option_bind rd_nonce rd_srv rd_p rd_q rd_fp rd_enc]. fold srvn.
  rewrite !beq_refl. cbn [andb check option_bind].
  unfold bp, bq. rewrite !of_be_big_bytes, !N.eqb_refl. cbn [andb check option_bind]. fold fp.
  rewrite encrypted_length. cbn [Nat.eqb andb].
  assert (Hc : of_be encrypted <? s_n sp = true).
  { apply N.ltb_lt. unfold encrypted. rewrite of_be_fixed_bytes. apply cnum_lt. }
  rewrite Hc. cbn [check option_bind]. rewrite rsa_roundtrip.
  assert (Hm : of_be block <? 256 ^ 255 = true) by (apply N.ltb_lt, block_num_lt).
  rewrite Hm. cbn [check option_bind].
  assert (Hfb : fixed_bytes 255 (of_be block) = block) by (rewrite <- block_length; apply fixed_bytes_of_be, okb_block).
  rewrite Hfb.
  assert (H20 : firstn 20 block = H message).
  { unfold block. rewrite <- !app_assoc. apply firstn_app_exact, H_len. }
  assert (S20 : skipn 20 block = message ++ zeros_tail).
  { unfold block. rewrite <- !app_assoc. apply skipn_app_exact, H_len. }
  rewrite H20, S20.
  unfold message at 1.
  rewrite (sdec_pq_inner_ok pqb bp bq nonce srvn nn (tl pqb) (tl bp) (tl bq) zeros_tail Ln Ls Lnn)
    by (apply tl_put; pose proof blen_pqb; pose proof blen_bp; pose proof blen_bq; lia).
  cbn [option_bind fst snd]. fold message.
  rewrite app_length. replace (length message + length zeros_tail - length zeros_tail)%nat with (length message) by lia.
  rewrite firstn_app_exact by reflexivity. rewrite beq_refl. cbn [check option_bind].
  cbn [pi_pq pi_p pi_q pi_nonce pi_srv pi_new]. fold pqb srvn. rewrite !beq_refl. reflexivity.
Qed.

(* ---------------------------------------------------------------------------------------------- *)
(* server_DH_params_ok *)
Let g := s_g sp.
Let p := s_dh_prime sp.
Let gan := g_a modexp sp.
Let dpb := fixed_bytes (s_dp_width sp) p.
Let gab := fixed_bytes (s_ga_width sp) gan.
Let answer := le32 crc_dh_inner ++ nonce ++ srvn ++ le32 g ++ tl dpb ++ tl gab ++ le32 (s_time sp).
Let spad := s_pad sp (pad_need (20 + length answer)).
Let key := tmp_aes_key H nn srvn.
Let iv := tmp_aes_iv H nn srvn.
Let ct := ige_encrypt E key iv (H answer ++ answer ++ spad).
Let r2 := le32 crc_dh_ok ++ nonce ++ srvn ++ tl ct.

(* SHA-1 does not collide between the server's answer and the answer extended by a non-empty prefix of its
   (at most 15) padding bytes - the strings the client's trim loop tries before the right one *)
Hypothesis NC_answer : forall i, (0 < i <= length spad)%nat -> H (answer ++ firstn i spad) <> H answer.

Lemma p_bounds : 2 ^ 2047 < p /\ p < 256 ^ 256.
Proof. pose proof (c_dh_range _ _ _ CF) as [Ha Hb]. fold p in Ha, Hb. change (256 ^ 256) with (2 ^ 2048). lia. Qed.

Lemma p_pos : 0 < p.
Proof. destruct p_bounds as [Ha _]. pose proof (N.pow_nonzero 2 2047 ltac:(lia)). lia. Qed.

Lemma gan_lt : gan < p.
Proof. unfold gan, g_a. apply (zexp_lt (s_g sp) (s_a sp) (s_dh_prime sp)), p_pos. Qed.

Lemma blen_dpb : blen dpb <= 1000.
Proof.
  unfold dpb, blen. rewrite fixed_bytes_length_max. destruct (c_widths _ _ _ CF) as [Hw _].
  pose proof (big_bytes_length_le 256 p (proj2 p_bounds)). lia.
Qed.

Lemma blen_gab : blen gab <= 1000.
Proof.
  unfold gab, blen. rewrite fixed_bytes_length_max. destruct (c_widths _ _ _ CF) as [_ Hw].
  assert (gan < 256 ^ N.of_nat 256) by (pose proof gan_lt; pose proof (proj2 p_bounds); change (256 ^ N.of_nat 256) with (256 ^ 256); lia).
  pose proof (big_bytes_length_le 256 gan ltac:(assumption)). lia.
Qed.

Lemma answer_is : srv_answer modexp sp nonce = Some answer.
Proof.
  unfold srv_answer, enc_dh_inner. fold p gan dpb gab srvn g.
  rewrite (tl_put dpb) by (pose proof blen_dpb; lia). rewrite (tl_put gab) by (pose proof blen_gab; lia). reflexivity.
Qed.

Lemma answer_length : (length answer <= 2100)%nat.
Proof.
  unfold answer. rewrite !app_length, !le32_length, Ln, Ls.
  pose proof (tl_length_le dpb ltac:(pose proof blen_dpb; lia)).
  pose proof (tl_length_le gab ltac:(pose proof blen_gab; lia)).
  pose proof blen_dpb. pose proof blen_gab. unfold blen in *. lia.
Qed.

Lemma okb_answer : okb answer.
Proof.
  unfold answer. repeat (apply okb_app; split); auto using le32_okb.
  - apply tl_okb; [pose proof blen_dpb; lia|apply fixed_bytes_ok].
  - apply tl_okb; [pose proof blen_gab; lia|apply fixed_bytes_ok].
Qed.

Lemma spad_facts : (length spad < 16)%nat /\ okb spad /\ Nat.modulo (20 + length answer + length spad) 16 = 0%nat.
Proof.
  unfold spad. rewrite (c_pad_len _ _ _ CF). split; [apply pad_need_lt|]. split; [apply (c_pad_ok _ _ _ CF)|apply pad_need_aligned].
Qed.

Lemma key_iv_facts : length key = 32%nat /\ okb key /\ length iv = 32%nat /\ okb iv.
Proof.
  split; [apply tmp_aes_key_length, H_len|]. split; [apply (tmp_aes_key_ok H H_ok)|].
  split; [apply tmp_aes_iv_length; [apply H_len|exact Lnn]|apply (tmp_aes_iv_ok H H_ok), Onn].
Qed.

Lemma ct_length : length ct = (20 + length answer + length spad)%nat.
Proof.
  destruct spad_facts as (_ & _ & Hal). destruct key_iv_facts as (_ & _ & Liv & _).
  unfold ct. rewrite (ige_encrypt_length E E_len key iv _ (Nat.div (20 + length answer + length spad) 16) Liv).
  - rewrite !app_length, H_len. lia.
  - rewrite !app_length, H_len. rewrite <- Nat.add_assoc. apply aligned_blocks. rewrite Nat.add_assoc. exact Hal.
Qed.

Lemma blen_ct : blen ct < 16000000.
Proof. unfold blen. rewrite ct_length. pose proof answer_length. destruct spad_facts as (? & _). lia. Qed.

Lemma r2_is : srv_reply2 H E modexp sp f1 f2 = Some r2.
Proof.
  unfold srv_reply2. rewrite learn_is. cbn [option_bind fst snd]. rewrite answer_is. cbn [option_bind].
  fold spad srvn key iv ct. unfold enc_dh_ok. rewrite (tl_put ct blen_ct). reflexivity.
Qed.

Lemma r2_dec : dec_reply r2 = DObj (RDHOk (of_be nonce) (of_be srvn) ct).
Proof.
  apply (dec_reply_dh_ok nonce srvn ct r2 Ln Ls). unfold enc_dh_ok. rewrite (tl_put ct blen_ct). reflexivity.
Qed.

Lemma request2 : request [f1] f2 env0 = ([SendPlain f2], Go (RDHOk (of_be nonce) (of_be srvn) ct, [f1; f2])).
Proof.
  unfold request. cbn [app wbind emit]. unfold srv_env. cbv beta iota. rewrite r2_is. cbn [option_map]. rewrite r2_dec. reflexivity.
Qed.

Lemma client_decrypts : try_decrypt_temp H D ct (of_be nn) (of_be srvn) = Ok answer.
Proof.
  apply decrypt_ok_try_ok. destruct spad_facts as (Lp & Op & Hal).
  apply (decrypt_temp_peer H E D H_len H_ok E_len D_len E_ok DE nn srvn answer spad Lnn Onn Ls Os okb_answer Op);
    [lia|exact Hal|exact NC_answer].
Qed.

Lemma answer_dec : dec_inner answer = Some (mkinner (of_be nonce) (of_be srvn) g dpb gab (s_time sp)).
Proof.
  rewrite <- (app_nil_r answer).
  apply (dec_inner_ok nonce srvn g dpb gab (s_time sp) answer [] Ln Ls).
  - pose proof (c_g _ _ _ CF) as Hg. unfold g. lia.
  - apply (c_time _ _ _ CF).
  - unfold enc_dh_inner. rewrite (tl_put dpb) by (pose proof blen_dpb; lia). rewrite (tl_put gab) by (pose proof blen_gab; lia). reflexivity.
Qed.

(* ---------------------------------------------------------------------------------------------- *)
(* the client's second stage *)
Let b := of_be (d_b dr).
Let gbn := Z.to_N (modexp (Z.of_N g) (Z.of_N b) (Z.of_N p)).
Let gabn := zexp modexp gan b p.
Let akey := fixed_bytes 256 gabn.
Let aux := firstn 8 (H akey).
Let hash1 := firstn 16 (skipn 4 (H (nn ++ [1] ++ aux))).
Let salt := of_le (xorb (firstn 8 nn) (firstn 8 srvn)).
Let inner := le32 crc_client_inner ++ nonce ++ srvn ++ le64 0 ++ tl (big_bytes gbn).
Let cpad := d_pad dr (pad_need (20 + length inner)).
Let enc2 := ige_encrypt E key iv (H inner ++ inner ++ cpad).
Let f3 := le32 crc_set_client_dh ++ nonce ++ srvn ++ tl enc2.
Let kh := firstn 8 (skipn 12 (H akey)).
Let r3 := enc_gen crc_gen_ok nonce srvn hash1.

Lemma copy_into_full (src : bytes) n : length src = n -> copy_into (zbuf n) 0 src = src.
Proof.
  intros Hl. pose proof (copy_into_head (zbuf n) [] src) as Hc. rewrite !app_nil_r in Hc. apply Hc.
  now rewrite zbuf_length.
Qed.

Lemma gbn_lt : gbn < p.
Proof.
  unfold gbn. rewrite modexp_spec by (pose proof p_pos; lia).
  pose proof (Z.mod_pos_bound (Z.of_N g ^ Z.of_N b) (Z.of_N p) ltac:(pose proof p_pos; lia)). lia.
Qed.

Lemma blen_gb : blen (big_bytes gbn) <= 256.
Proof.
  apply (big_bytes_le _ 256). pose proof gbn_lt. pose proof (proj2 p_bounds).
  change (256 ^ N.of_nat 256) with (256 ^ 256). lia.
Qed.

Lemma inner_is : enc_client_inner (of_be nonce) (of_be srvn) 0 (big_bytes gbn) = Ok inner.
Proof. apply enc_client_inner_raw; auto. apply tl_put. pose proof blen_gb. lia. Qed.

Lemma inner_length : (length inner <= 400)%nat.
Proof.
  unfold inner. rewrite !app_length, le32_length, le64_length, Ln, Ls.
  pose proof (tl_length_le (big_bytes gbn) ltac:(pose proof blen_gb; lia)). pose proof blen_gb. unfold blen in *. lia.
Qed.

Lemma okb_inner : okb inner.
Proof.
  unfold inner. repeat (apply okb_app; split); auto using le32_okb, le64_okb.
  apply tl_okb; [pose proof blen_gb; lia|apply big_bytes_ok].
Qed.

Lemma cpad_facts : (length cpad < 16)%nat /\ okb cpad /\ Nat.modulo (20 + length inner + length cpad) 16 = 0%nat.
Proof.
  pose proof DR as (_ & _ & _ & _ & _ & _ & Lp & Op). unfold cpad. rewrite Lp.
  split; [apply pad_need_lt|]. split; [apply Op|apply pad_need_aligned].
Qed.

Lemma enc2_is : encrypt_temp H E (d_pad dr) inner (of_be nn) (of_be srvn) = Ok enc2.
Proof.
  pose proof DR as (_ & _ & _ & _ & _ & _ & Lp & Op).
  apply (encrypt_temp_spec H E H_len E_len (d_pad dr) nn srvn inner Lp Lnn Onn Ls Os).
Qed.

Lemma enc2_length : length enc2 = (20 + length inner + length cpad)%nat.
Proof.
  destruct cpad_facts as (_ & _ & Hal). destruct key_iv_facts as (_ & _ & Liv & _).
  unfold enc2. rewrite (ige_encrypt_length E E_len key iv _ (Nat.div (20 + length inner + length cpad) 16) Liv).
  - rewrite !app_length, H_len. lia.
  - rewrite !app_length, H_len. rewrite <- Nat.add_assoc. apply aligned_blocks. rewrite Nat.add_assoc. exact Hal.
Qed.

Lemma blen_enc2 : blen enc2 < 16000000.
Proof. unfold blen. rewrite enc2_length. pose proof inner_length. destruct cpad_facts as (? & _). lia. Qed.

Lemma f3_is : enc_set_client_dh (of_be nonce) (of_be srvn) enc2 = Ok f3.
Proof. apply enc_set_client_dh_raw; auto. apply tl_put, blen_enc2. Qed.

Lemma F32 : fixed_bytes 32 (of_be nn) = nn.
Proof. rewrite <- Lnn. apply fixed_bytes_of_be, Onn. Qed.
Lemma F16 : fixed_bytes 16 (of_be srvn) = srvn.
Proof. rewrite <- Ls. apply fixed_bytes_of_be, Os. Qed.

Lemma of_be_dpb : of_be dpb = p.
Proof. apply of_be_fixed_bytes. Qed.
Lemma of_be_gab : of_be gab = gan.
Proof. apply of_be_fixed_bytes. Qed.

Lemma range_guard : negb ((of_be gab <=? 1) || (Z.of_N (of_be dpb) - 1 <=? Z.of_N (of_be gab))%Z) = true.
Proof.
  unfold gab, dpb. rewrite !of_be_fixed_bytes. destruct (c_ga_range _ _ _ CF) as [Hlo Hhi]. fold gan p in Hlo, Hhi.
  destruct (N.leb_spec gan 1); [lia|]. destruct (Z.leb_spec (Z.of_N p - 1) (Z.of_N gan)); [lia|]. reflexivity.
Qed.

Lemma g_signed : to_i32 g = Z.of_N g.
Proof. unfold to_i32. pose proof (c_g _ _ _ CF) as Hg. fold g in Hg. destruct (N.ltb_spec g 2147483648); [reflexivity|lia]. Qed.

Lemma stage2_is :
  stage2 H E D modexp dr env0 (mkst1 (of_be nonce) (of_be srvn) (of_be nn) [f1] f2)
  = ([SendPlain f2], Go (mkst2 (of_be nonce) (of_be srvn) akey hash1 salt [f1; f2] f3)).
Proof.
  unfold stage2. cbn [s1_nonce s1_srv s1_new s1_hist s1_f2]. rewrite request2. cbn [wbind fst snd].
  rewrite !N.eqb_refl. cbn [guard wbind ret app]. rewrite client_decrypts. cbn [of_outcome wbind ret app].
  rewrite answer_dec. cbn [i_nonce i_srv i_g i_dh_prime i_ga]. rewrite !N.eqb_refl. cbn [guard wbind ret app].
  rewrite range_guard. cbn [guard wbind ret app].
  rewrite g_signed. rewrite !of_be_dpb, !of_be_gab. fold b gbn gabn akey.
  rewrite F32, F16.
  rewrite (gslice_ok (H akey) 0 8) by (rewrite ?H_len; lia). cbn [of_outcome wbind ret app].
  change (8 - 0)%nat with 8%nat. rewrite skipn_O. fold aux.
  assert (La : length aux = 8%nat) by (unfold aux; rewrite firstn_length, H_len; reflexivity).
  rewrite (copy3 nn [1] aux 32 1 8 Lnn eq_refl La
           : copy_into (copy_into (copy_into (zbuf 41) 0 nn) 32 [1]) 33 aux = _).
  rewrite (gslice_ok (H (nn ++ [1] ++ aux)) 4 20) by (rewrite ?H_len; lia). cbn [of_outcome wbind ret app].
  change (20 - 4)%nat with 16%nat. fold hash1.
  rewrite (gslice_ok nn 0 8) by lia. rewrite (gslice_ok srvn 0 8) by lia. cbn [of_outcome wbind ret app].
  rewrite !skipn_O. change (8 - 0)%nat with 8%nat.
  rewrite (copy_into_full (firstn 8 nn) 8) by (rewrite firstn_length; lia). fold salt.
  rewrite inner_is. cbn [of_checked wbind ret app]. rewrite enc2_is. cbn [of_outcome wbind ret app].
  rewrite f3_is. reflexivity.
Qed.

(* ---------------------------------------------------------------------------------------------- *)
(* the server reads set_client_DH_params and derives the same secrets *)
Lemma keys_agree : sexp modexp gbn (s_a sp) p = gabn.
Proof.
  unfold sexp, gabn, zexp, gbn, gan, g_a, sexp. fold g p.
  pose proof p_pos as Hp.
  rewrite !modexp_spec by lia.
  rewrite !Z2N.id by (apply Z.mod_pos_bound; lia).
  f_equal. symmetry. apply dh_agree; lia.
Qed.

Lemma server_decrypts : ige_decrypt D key iv enc2 = H inner ++ inner ++ cpad.
Proof.
  destruct cpad_facts as (Lc & Oc & Hal). destruct key_iv_facts as (Lk & Ok & Liv & Oiv).
  set (pt := H inner ++ inner ++ cpad).
  assert (Lpt : length pt = (20 + length inner + length cpad)%nat) by (unfold pt; rewrite !app_length, H_len; lia).
  assert (Hn : length pt = (16 * Nat.div (length pt) 16)%nat) by (apply aligned_blocks; rewrite Lpt; exact Hal).
  assert (Opt : okb pt) by (unfold pt; apply okb_app; split; [apply H_ok|apply okb_app; split; [exact okb_inner|exact Oc]]).
  unfold enc2. fold pt.
  apply (ige_decrypt_encrypt_ok E D E_len key iv pt (Nat.div (length pt) 16)
           (fun blk Hb => E_ok key blk Ok Hb) (fun blk Hb Ob => DE key blk Lk Ok Hb Ob) Liv Hn Oiv Opt).
Qed.

Lemma kh_is : low_bits 8 (H akey) = kh.
Proof.
  unfold low_bits, kh. rewrite H_len. change (20 - 8)%nat with 12%nat.
  symmetry. apply firstn_all2. rewrite skipn_length, H_len. lia.
Qed.

Lemma hash1_is : low_bits 16 (H (nn ++ [1] ++ firstn 8 (H akey))) = hash1.
Proof.
  unfold low_bits, hash1, aux. rewrite H_len. change (20 - 16)%nat with 4%nat.
  symmetry. apply firstn_all2. rewrite skipn_length, H_len. lia.
Qed.

Lemma secrets_is : srv_secrets H D modexp sp f1 f2 f3 = Some (mksecrets akey kh salt hash1 nn).
Proof.
  destruct cpad_facts as (Lc & Oc & Hal).
  unfold srv_secrets. rewrite learn_is. cbn [option_bind fst snd].
  unfold f3. rewrite (sdec_set_client_dh_ok nonce srvn enc2 (tl enc2) Ln Ls (tl_put enc2 blen_enc2)).
  cbn [option_bind sd_nonce sd_srv sd_enc]. fold srvn. rewrite !beq_refl. cbn [andb check option_bind].
  assert (Hlen : (negb (length enc2 =? 0)%nat && (length enc2 mod 16 =? 0)%nat) = true).
  { rewrite enc2_length. apply andb_true_iff. split.
    - apply negb_true_iff. apply Nat.eqb_neq. lia.
    - apply Nat.eqb_eq. exact Hal. }
  rewrite Hlen. cbn [check option_bind]. fold key iv. rewrite server_decrypts.
  rewrite (firstn_app_exact (H inner) (inner ++ cpad) 20 (H_len _)).
  rewrite (skipn_app_exact (H inner) (inner ++ cpad) 20 (H_len _)).
  unfold inner at 1.
  rewrite (sdec_client_inner_ok nonce srvn (big_bytes gbn) (tl (big_bytes gbn)) cpad Ln Ls)
    by (apply tl_put; pose proof blen_gb; lia).
  cbn [option_bind fst snd]. fold inner.
  assert (Hc16 : (length cpad <? 16)%nat = true) by (apply Nat.ltb_lt; exact Lc). rewrite Hc16.
  rewrite app_length. replace (length inner + length cpad - length cpad)%nat with (length inner) by lia.
  rewrite firstn_app_exact by reflexivity. rewrite beq_refl. cbn [andb check option_bind].
  cbn [ci_nonce ci_srv ci_retry ci_gb]. rewrite !beq_refl, N.eqb_refl. cbn [andb check option_bind].
  rewrite of_be_big_bytes. fold p. rewrite keys_agree. fold akey. rewrite kh_is, hash1_is. reflexivity.
Qed.

Lemma r3_is : srv_reply3 H D modexp sp f1 f2 f3 = Some r3.
Proof. unfold srv_reply3. rewrite learn_is, secrets_is. reflexivity. Qed.

Lemma hash1_facts : length hash1 = 16%nat /\ okb hash1.
Proof.
  unfold hash1. split; [rewrite firstn_length, skipn_length, H_len; reflexivity|apply okb_firstn, okb_skipn, H_ok].
Qed.

Lemma stage3_is :
  stage3 H env0 (mkst2 (of_be nonce) (of_be srvn) akey hash1 salt [f1; f2] f3)
  = ([SendPlain f3; Save akey kh salt], Go (Success akey kh salt)).
Proof.
  destruct hash1_facts as [Lh Oh].
  unfold stage3. cbn [s2_nonce s2_srv s2_key s2_hash1 s2_salt s2_hist s2_f3].
  unfold request. cbn [app wbind emit]. unfold srv_env. cbv beta iota. rewrite r3_is. cbn [option_map].
  unfold r3. rewrite (dec_reply_gen_ok nonce srvn hash1 Ln Ls Lh). cbn [ret wbind fst snd app].
  rewrite !N.eqb_refl. cbn [guard wbind ret app].
  assert (F : fixed_bytes 16 (of_be hash1) = hash1) by (rewrite <- Lh; apply fixed_bytes_of_be, Oh).
  rewrite F, beq_refl. cbn [guard wbind ret app].
  unfold auth_key_hash. rewrite gslice_ok by (rewrite ?H_len; lia). change (20 - 12)%nat with 8%nat. fold kh.
  reflexivity.
Qed.

Lemma akey_length : length akey = 256%nat.
Proof.
  apply fixed_bytes_length. unfold gabn. pose proof (zexp_lt gan b p p_pos). pose proof (proj2 p_bounds).
  change (256 ^ N.of_nat 256) with (256 ^ 256). lia.
Qed.

Lemma salt_lt : salt < 2 ^ 64.
Proof.
  unfold salt. set (x := xorb (firstn 8 nn) (firstn 8 srvn)).
  assert (Lx : length x = 8%nat) by (unfold x; apply xorb_length_eq; rewrite firstn_length; lia).
  pose proof (of_le_bound x) as Hb. rewrite Lx in Hb. change (256 ^ N.of_nat 8) with (2 ^ 64) in Hb.
  apply Hb. unfold x. apply xorb_okb; apply okb_firstn; assumption.
Qed.

(* ---------------------------------------------------------------------------------------------- *)
Theorem agreement :
  handshake H E D modexp is_prime split pk dr env0
    = ([SendPlain f1; SendPlain f2; SendPlain f3; Save akey kh salt], Go (Success akey kh salt)) /\
  srv_secrets H D modexp sp f1 f2 f3 = Some (mksecrets akey kh salt hash1 nn) /\
  length akey = 256%nat /\ salt < 2 ^ 64.
Proof.
  split; [|split; [apply secrets_is|split; [apply akey_length|apply salt_lt]]].
  unfold handshake. rewrite stage1_is. cbn [wbind]. rewrite stage2_is. cbn [wbind]. rewrite stage3_is. reflexivity.
Qed.

End Agreement.

(* ---------------------------------------------------------------------------------------------- *)
(* the same, with the messages and secrets existentially quantified and the SHA-1 hypothesis stated on the
   server's answer as the server computes it; plus the first encrypted request (Crypto/EnvelopeProofs.v: C03) *)
Theorem agreement_full (H : bytes -> bytes) (E D : bytes -> bytes -> bytes) (modexp : Z -> Z -> Z -> Z)
    (is_prime : N -> bool) (split : N -> option (N * N)) :
  (forall m, length (H m) = 20%nat) -> (forall m, okb (H m)) ->
  (forall k b, length (E k b) = 16%nat) -> (forall k b, length (D k b) = 16%nat) ->
  (forall k b, okb k -> okb b -> okb (E k b)) ->
  (forall k b, length k = 32%nat -> okb k -> length b = 16%nat -> okb b -> D k (E k b) = b) ->
  (forall b e m, (0 <= e)%Z -> (0 < m)%Z -> modexp b e m = ((b ^ e) mod m)%Z) ->
  (forall n, n < 2 ^ 64 -> is_prime n = true -> prime (Z.of_N n)) ->
  (forall n a b, split n = Some (a, b) -> a * b = n /\ 1 < a /\ a <= b) ->
  forall sp, conformant H modexp sp ->
  forall dr, draws_ok dr ->
  split (s_p sp * s_q sp) <> None ->
  (forall answer, srv_answer modexp sp (d_nonce dr) = Some answer ->
     forall i, (0 < i <= pad_need (20 + length answer))%nat ->
       H (answer ++ firstn i (s_pad sp (pad_need (20 + length answer)))) <> H answer) ->
  exists f1 f2 f3 key kid salt hash1,
    outcome_of (handshake H E D modexp is_prime split (mkpub (s_n sp) (s_e sp)) dr (srv_env H E D modexp sp))
      = ([SendPlain f1; SendPlain f2; SendPlain f3; Save key kid salt], Success key kid salt) /\
    srv_secrets H D modexp sp f1 f2 f3 = Some (mksecrets key kid salt hash1 (d_new_nonce dr)) /\
    length key = 256%nat /\
    ((forall k iv d, length iv = 32%nat -> (length d mod 16 = 0)%nat -> length (ige_encrypt E k iv d) = length d) ->
     (forall k iv d, length k = 32%nat -> length iv = 32%nat -> (length d mod 16 = 0)%nat ->
                     ige_decrypt D k iv (ige_encrypt E k iv d) = d) ->
     forall sid msgid seq ack body,
       sid < 2 ^ 64 -> msgid < 2 ^ 64 -> seq < 2 ^ 32 -> N.of_nat (length body) < 2 ^ 31 ->
       exists pkt,
         connect_and_request H E D modexp is_prime split (mkpub (s_n sp) (s_e sp)) dr
             (srv_env H E D modexp sp) sid msgid seq ack body
           = ([SendPlain f1; SendPlain f2; SendPlain f3; Save key kid salt; SendEncrypted pkt], Success key kid salt) /\
         open_server H (ige_decrypt D) key pkt = Some (salt, sid, msgid, EnvelopeProofs.seq_ack seq ack, body)).
Proof.
  intros HL HO EL DL EO DE ME PS SS sp CF dr DR SX NC.
  pose proof (answer_is H E D modexp is_prime split HL HO EL DL EO DE ME PS SS sp CF dr DR) as Ha.
  specialize (NC _ Ha).
  destruct (agreement H E D modexp is_prime split HL HO EL DL EO DE ME PS SS sp CF dr DR SX) as (A & B & C & S).
  { intros i Hi. apply NC. rewrite (c_pad_len _ _ _ CF) in Hi. exact Hi. }
  do 7 eexists. split; [rewrite A; reflexivity|]. split; [exact B|]. split; [exact C|].
  intros IL II sid msgid seq ack body Hsid Hmsg Hseq Hbody.
  match type of C with length ?k = _ => set (key := k) in * end.
  match type of S with ?s < _ => set (salt := s) in * end.
  destruct (EnvelopeProofs.server_opens_client H HL (ige_encrypt E) (ige_decrypt D) IL II key salt sid msgid seq ack body)
    as (pkt & Hseal & Hopen & _); try lia.
  exists pkt. split; [|exact Hopen].
  unfold connect_and_request. rewrite A. cbn [outcome_of]. rewrite Hseal. reflexivity.
Qed.
