(* Round trips of the key-exchange object layouts (Handshake/Objects.v): what one side writes the other side reads
   back to the same fields, with any bytes following (the padding of the RSA block / of the encrypted blocks). *)
From Coq Require Import ZArith NArith List Lia ZifyN ZifyNat ZifyBool Bool.
From MTV Require Import Base.Bytes Base.Outcome Crypto.IgeProofs Crypto.TempKeys Crypto.TempKeysProofs TL.Types
  Handshake.Bytes Handshake.Objects.
Import ListNotations.
Open Scope N_scope.
Ltac Zify.zify_post_hook ::= Z.div_mod_to_equations.

Lemma some_inj {A} (a b : A) : Some a = Some b -> a = b.
Proof. now intros [= ->]. Qed.

Lemma take_n_app (a r : bytes) n : length a = n -> take_n n (a ++ r) = Some (a, r).
Proof.
  intros Ha. unfold take_n. rewrite app_length.
  destruct (Nat.ltb_spec (length a + length r) n); [lia|].
  now rewrite firstn_app_exact, skipn_app_exact.
Qed.

Lemma take_n_nil (a : bytes) n : length a = n -> take_n n a = Some (a, []).
Proof. intros Ha. rewrite <- (app_nil_r a) at 1. now apply take_n_app. Qed.

Lemma take_n_inv n l a r : take_n n l = Some (a, r) -> l = a ++ r /\ length a = n.
Proof.
  unfold take_n. destruct (Nat.ltb_spec (length l) n); [discriminate|].
  intros [= <- <-]. split; [now rewrite firstn_skipn|]. rewrite firstn_length. lia.
Qed.

Lemma pop_big_app (raw r : bytes) w : length raw = w -> pop_big w (raw ++ r) = Some (of_be raw, r).
Proof. intros Hl. unfold pop_big. now rewrite take_n_app. Qed.

Lemma pop32_app c r : c < 2 ^ 32 -> pop32 (le32 c ++ r) = Some (c, r).
Proof. intros Hc. apply pop32_le32. exact Hc. Qed.

Lemma pop64_app c r : c < 2 ^ 64 -> pop64 (le64 c ++ r) = Some (c, r).
Proof. intros Hc. apply pop64_le64. unfold two32. lia. Qed.

Lemma le64_length x : length (le64 x) = 8%nat.
Proof. reflexivity. Qed.

Lemma tl_bytes_some b : blen b < two24 -> exists x, put_bytes b = Some x.
Proof.
  intros Hb. unfold put_bytes. destruct (blen b <? 254); [eauto|].
  destruct (N.ltb_spec (blen b) two24); [eauto|lia].
Qed.

Lemma tl_bytes_ok b x : put_bytes b = Some x -> tl_bytes b = Ok x.
Proof. unfold tl_bytes. now intros ->. Qed.

Lemma pop_longs_app fps r : Forall (fun x => x < 2 ^ 64) fps ->
  pop_longs (length fps) (concat (map le64 fps) ++ r) = Some (fps, r).
Proof.
  induction 1 as [|x l Hx Hl IH]; [reflexivity|].
  cbn [length map concat pop_longs]. rewrite <- app_assoc, pop64_app by exact Hx. now rewrite IH.
Qed.

Lemma concat_le64_length fps : length (concat (map le64 fps)) = (8 * length fps)%nat.
Proof. induction fps as [|x l IH]; [reflexivity|]. cbn [map concat length]. rewrite app_length, IH, le64_length. lia. Qed.

Lemma pop_vec_long_ok fps : Forall (fun x => x < 2 ^ 64) fps -> N.of_nat (length fps) < 2 ^ 32 ->
  pop_vec_long (le32 crc_vector ++ le32 (N.of_nat (length fps)) ++ concat (map le64 fps)) = Some (fps, []).
Proof.
  intros Hf Hn. unfold pop_vec_long. rewrite pop32_app by (unfold crc_vector; lia).
  rewrite N.eqb_refl. cbn [negb]. rewrite pop32_app by exact Hn.
  rewrite concat_le64_length.
  destruct (N.ltb_spec (N.of_nat (8 * length fps / 4)) (N.of_nat (length fps))) as [Hlt|_].
  - exfalso. assert ((8 * length fps / 4 = 2 * length fps)%nat) by (rewrite (Nat.mul_comm 8); replace 8%nat with (2 * 4)%nat by reflexivity; rewrite Nat.mul_assoc, Nat.div_mul; lia). lia.
  - rewrite Nat2N.id. rewrite <- (app_nil_r (concat (map le64 fps))). now apply pop_longs_app.
Qed.

(* ---- crc comparisons between the distinct constructor ids: by computation ---- *)
Ltac crc_cases :=
  repeat match goal with
  | |- context [?a =? ?a] => rewrite (N.eqb_refl a)
  | |- context [crc_res_pq =? _] => unfold crc_res_pq
  end.

Lemma int128_raw raw : length raw = 16%nat -> okb raw -> int128_m (of_be raw) = Ok raw.
Proof. intros Hl Ho. unfold int128_m. rewrite <- Hl. now apply dry_big_int_bytes_raw. Qed.

Lemma int256_raw raw : length raw = 32%nat -> okb raw -> int256_m (of_be raw) = Ok raw.
Proof. intros Hl Ho. unfold int256_m. rewrite <- Hl. now apply dry_big_int_bytes_raw. Qed.

(* ---- client -> server ---- *)
Lemma enc_req_pq_raw raw : length raw = 16%nat -> okb raw ->
  enc_req_pq (of_be raw) = Ok (le32 crc_req_pq ++ raw).
Proof.
  intros Hl Ho. unfold enc_req_pq. now rewrite int128_raw.
Qed.

Lemma sdec_req_pq_ok raw : length raw = 16%nat -> sdec_req_pq (le32 crc_req_pq ++ raw) = Some raw.
Proof.
  intros Hl. unfold sdec_req_pq. rewrite pop32_app by (unfold crc_req_pq; lia).
  rewrite N.eqb_refl. cbn [negb]. now rewrite take_n_nil.
Qed.

Lemma enc_req_dh_raw nonce srv p q fp enc tp tq te :
  length nonce = 16%nat -> okb nonce -> length srv = 16%nat -> okb srv ->
  put_bytes p = Some tp -> put_bytes q = Some tq -> put_bytes enc = Some te ->
  enc_req_dh (of_be nonce) (of_be srv) p q fp enc
  = Ok (le32 crc_req_dh ++ nonce ++ srv ++ tp ++ tq ++ le64 fp ++ te).
Proof.
  intros L1 O1 L2 O2 Hp Hq He. unfold enc_req_dh.
  rewrite (int128_raw _ L1 O1).
  rewrite (int128_raw _ L2 O2).
  cbn [obind]. rewrite (tl_bytes_ok _ _ Hp), (tl_bytes_ok _ _ Hq), (tl_bytes_ok _ _ He). reflexivity.
Qed.

Lemma sdec_req_dh_ok nonce srv p q fp enc tp tq te :
  length nonce = 16%nat -> length srv = 16%nat -> fp < 2 ^ 64 ->
  put_bytes p = Some tp -> put_bytes q = Some tq -> put_bytes enc = Some te ->
  sdec_req_dh (le32 crc_req_dh ++ nonce ++ srv ++ tp ++ tq ++ le64 fp ++ te)
  = Some (mkreqdh nonce srv p q fp enc).
Proof.
  intros L1 L2 Hfp Hp Hq He. unfold sdec_req_dh. rewrite pop32_app by (unfold crc_req_dh; lia).
  rewrite N.eqb_refl. cbn [negb]. rewrite take_n_app by exact L1. rewrite take_n_app by exact L2.
  rewrite (pop_put _ _ _ Hp), (pop_put _ _ _ Hq), pop64_app by exact Hfp.
  rewrite <- (app_nil_r te), (pop_put _ _ _ He). reflexivity.
Qed.

Lemma enc_pq_inner_raw pq p q nonce srv nn tpq tp tq :
  length nonce = 16%nat -> okb nonce -> length srv = 16%nat -> okb srv -> length nn = 32%nat -> okb nn ->
  put_bytes pq = Some tpq -> put_bytes p = Some tp -> put_bytes q = Some tq ->
  enc_pq_inner pq p q (of_be nonce) (of_be srv) (of_be nn)
  = Ok (le32 crc_pq_inner ++ tpq ++ tp ++ tq ++ nonce ++ srv ++ nn).
Proof.
  intros L1 O1 L2 O2 L3 O3 Hpq Hp Hq. unfold enc_pq_inner.
  rewrite (tl_bytes_ok _ _ Hpq), (tl_bytes_ok _ _ Hp), (tl_bytes_ok _ _ Hq). cbn [obind].
  rewrite (int128_raw _ L1 O1).
  rewrite (int128_raw _ L2 O2).
  rewrite (int256_raw _ L3 O3). reflexivity.
Qed.

Lemma sdec_pq_inner_ok pq p q nonce srv nn tpq tp tq rest :
  length nonce = 16%nat -> length srv = 16%nat -> length nn = 32%nat ->
  put_bytes pq = Some tpq -> put_bytes p = Some tp -> put_bytes q = Some tq ->
  sdec_pq_inner ((le32 crc_pq_inner ++ tpq ++ tp ++ tq ++ nonce ++ srv ++ nn) ++ rest)
  = Some (mkpqi pq p q nonce srv nn, rest).
Proof.
  intros L1 L2 L3 Hpq Hp Hq. unfold sdec_pq_inner. rewrite <- !app_assoc.
  rewrite pop32_app by (unfold crc_pq_inner; lia). rewrite N.eqb_refl. cbn [negb].
  rewrite (pop_put _ _ _ Hpq), (pop_put _ _ _ Hp), (pop_put _ _ _ Hq).
  rewrite take_n_app by exact L1. rewrite take_n_app by exact L2. rewrite take_n_app by exact L3. reflexivity.
Qed.

Lemma enc_client_inner_raw nonce srv gb tgb :
  length nonce = 16%nat -> okb nonce -> length srv = 16%nat -> okb srv -> put_bytes gb = Some tgb ->
  enc_client_inner (of_be nonce) (of_be srv) 0 gb = Ok (le32 crc_client_inner ++ nonce ++ srv ++ le64 0 ++ tgb).
Proof.
  intros L1 O1 L2 O2 Hg. unfold enc_client_inner.
  rewrite (int128_raw _ L1 O1).
  rewrite (int128_raw _ L2 O2).
  cbn [obind]. rewrite (tl_bytes_ok _ _ Hg). reflexivity.
Qed.

Lemma sdec_client_inner_ok nonce srv gb tgb rest :
  length nonce = 16%nat -> length srv = 16%nat -> put_bytes gb = Some tgb ->
  sdec_client_inner ((le32 crc_client_inner ++ nonce ++ srv ++ le64 0 ++ tgb) ++ rest)
  = Some (mkci nonce srv 0 gb, rest).
Proof.
  intros L1 L2 Hg. unfold sdec_client_inner. rewrite <- !app_assoc.
  rewrite pop32_app by (unfold crc_client_inner; lia). rewrite N.eqb_refl. cbn [negb].
  rewrite take_n_app by exact L1. rewrite take_n_app by exact L2.
  rewrite pop64_app by lia. rewrite (pop_put _ _ _ Hg). reflexivity.
Qed.

Lemma enc_set_client_dh_raw nonce srv enc te :
  length nonce = 16%nat -> okb nonce -> length srv = 16%nat -> okb srv -> put_bytes enc = Some te ->
  enc_set_client_dh (of_be nonce) (of_be srv) enc = Ok (le32 crc_set_client_dh ++ nonce ++ srv ++ te).
Proof.
  intros L1 O1 L2 O2 He. unfold enc_set_client_dh.
  rewrite (int128_raw _ L1 O1).
  rewrite (int128_raw _ L2 O2).
  cbn [obind]. rewrite (tl_bytes_ok _ _ He). reflexivity.
Qed.

Lemma sdec_set_client_dh_ok nonce srv enc te :
  length nonce = 16%nat -> length srv = 16%nat -> put_bytes enc = Some te ->
  sdec_set_client_dh (le32 crc_set_client_dh ++ nonce ++ srv ++ te) = Some (mksetdh nonce srv enc).
Proof.
  intros L1 L2 He. unfold sdec_set_client_dh.
  rewrite pop32_app by (unfold crc_set_client_dh; lia). rewrite N.eqb_refl. cbn [negb].
  rewrite take_n_app by exact L1. rewrite take_n_app by exact L2.
  rewrite <- (app_nil_r te), (pop_put _ _ _ He). reflexivity.
Qed.

(* ---- server -> client ---- *)
Lemma dec_reply_res_pq nonce srv pqb fps bs :
  length nonce = 16%nat -> length srv = 16%nat ->
  Forall (fun x => x < 2 ^ 64) fps -> N.of_nat (length fps) < 2 ^ 32 ->
  enc_res_pq nonce srv pqb fps = Some bs ->
  dec_reply bs = DObj (RResPQ (of_be nonce) (of_be srv) pqb fps).
Proof.
  intros L1 L2 Hf Hn. unfold enc_res_pq. destruct (put_bytes pqb) as [a|] eqn:Hp; [|discriminate].
  intros Hx. apply some_inj in Hx. subst bs. unfold dec_reply. rewrite pop32_app by (unfold crc_res_pq; lia). rewrite N.eqb_refl.
  rewrite pop_big_app by exact L1. rewrite pop_big_app by exact L2.
  rewrite (pop_put _ _ _ Hp). now rewrite pop_vec_long_ok.
Qed.

Lemma dec_reply_dh_ok nonce srv enc bs :
  length nonce = 16%nat -> length srv = 16%nat -> enc_dh_ok nonce srv enc = Some bs ->
  dec_reply bs = DObj (RDHOk (of_be nonce) (of_be srv) enc).
Proof.
  intros L1 L2. unfold enc_dh_ok. destruct (put_bytes enc) as [a|] eqn:Hp; [|discriminate].
  intros Hx. apply some_inj in Hx. subst bs. unfold dec_reply. rewrite pop32_app by (unfold crc_dh_ok; lia).
  change (crc_dh_ok =? crc_res_pq) with false. cbv iota. rewrite N.eqb_refl.
  rewrite pop_big_app by exact L1. rewrite pop_big_app by exact L2.
  rewrite <- (app_nil_r a), (pop_put _ _ _ Hp). reflexivity.
Qed.

Lemma dec_reply_gen_ok nonce srv hash :
  length nonce = 16%nat -> length srv = 16%nat -> length hash = 16%nat ->
  dec_reply (enc_gen crc_gen_ok nonce srv hash) = DObj (RGenOk (of_be nonce) (of_be srv) (of_be hash)).
Proof.
  intros L1 L2 L3. unfold enc_gen, dec_reply. rewrite pop32_app by (unfold crc_gen_ok; lia).
  change (crc_gen_ok =? crc_res_pq) with false. change (crc_gen_ok =? crc_dh_ok) with false.
  change (crc_gen_ok =? crc_dh_fail) with false. cbv iota. rewrite N.eqb_refl.
  unfold three_big. rewrite pop_big_app by exact L1. rewrite pop_big_app by exact L2.
  rewrite <- (app_nil_r hash) at 1. rewrite pop_big_app by exact L3. reflexivity.
Qed.

Lemma dec_inner_ok nonce srv g dp ga time bs rest :
  length nonce = 16%nat -> length srv = 16%nat -> g < 2 ^ 32 -> time < 2 ^ 32 ->
  enc_dh_inner nonce srv g dp ga time = Some bs ->
  dec_inner (bs ++ rest) = Some (mkinner (of_be nonce) (of_be srv) g dp ga time).
Proof.
  intros L1 L2 Hg Ht. unfold enc_dh_inner.
  destruct (put_bytes dp) as [a|] eqn:Ha; [|discriminate]. destruct (put_bytes ga) as [b|] eqn:Hb; [|discriminate].
  intros Hx. apply some_inj in Hx. subst bs. unfold dec_inner. rewrite <- !app_assoc. rewrite pop32_app by (unfold crc_dh_inner; lia).
  rewrite N.eqb_refl. cbn [negb]. rewrite pop_big_app by exact L1. rewrite pop_big_app by exact L2.
  rewrite pop32_app by exact Hg. rewrite (pop_put _ _ _ Ha), (pop_put _ _ _ Hb).
  rewrite pop32_app by exact Ht. reflexivity.
Qed.

