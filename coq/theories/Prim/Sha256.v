(* SHA-256 (FIPS 180-4) over byte lists, executable.  Words are N below 2^32.
   This is the *execution instance* of crypto/sha256 for the models: the theorems of the
   properties take the hash as a Section variable with exactly the facts they need (output
   length 32, bytes below 256 - both proved here unconditionally); that this function is
   SHA-256 is validated by the FIPS known answers below and by every correspondence run
   (the Go side calls crypto/sha256).
   Self-contained on purpose (does not import Prim/Sha1.v; names carry the prefix s256_). *)
From Coq Require Import String.
From Coq Require Import ZArith NArith List Lia ZifyN ZifyNat ZifyBool Bool.
From MTV Require Import Base.Bytes Base.Str Prim.Hex.
Import ListNotations.
Open Scope N_scope.
Ltac Zify.zify_post_hook ::= Z.div_mod_to_equations.

Definition s256_mask : N := 4294967295.
Definition s256_add (a b : N) : N := N.land (a + b) s256_mask.
Definition s256_rotr (n x : N) : N :=
  N.land (N.lor (N.shiftr x n) (N.shiftl x (32 - n))) s256_mask.
Definition s256_xor3 (a b c : N) : N := N.lxor (N.lxor a b) c.

Definition s256_ch (x y z : N) : N := N.lxor (N.land x y) (N.ldiff z x).
Definition s256_maj (x y z : N) : N := s256_xor3 (N.land x y) (N.land x z) (N.land y z).
Definition s256_bsig0 (x : N) : N := s256_xor3 (s256_rotr 2 x) (s256_rotr 13 x) (s256_rotr 22 x).
Definition s256_bsig1 (x : N) : N := s256_xor3 (s256_rotr 6 x) (s256_rotr 11 x) (s256_rotr 25 x).
Definition s256_ssig0 (x : N) : N := s256_xor3 (s256_rotr 7 x) (s256_rotr 18 x) (N.shiftr x 3).
Definition s256_ssig1 (x : N) : N := s256_xor3 (s256_rotr 17 x) (s256_rotr 19 x) (N.shiftr x 10).

Definition s256_K : list N :=
  [1116352408; 1899447441; 3049323471; 3921009573; 961987163; 1508970993; 2453635748; 2870763221;
   3624381080; 310598401; 607225278; 1426881987; 1925078388; 2162078206; 2614888103; 3248222580;
   3835390401; 4022224774; 264347078; 604807628; 770255983; 1249150122; 1555081692; 1996064986;
   2554220882; 2821834349; 2952996808; 3210313671; 3336571891; 3584528711; 113926993; 338241895;
   666307205; 773529912; 1294757372; 1396182291; 1695183700; 1986661051; 2177026350; 2456956037;
   2730485921; 2820302411; 3259730800; 3345764771; 3516065817; 3600352804; 4094571909; 275423344;
   430227734; 506948616; 659060556; 883997877; 958139571; 1322822218; 1537002063; 1747873779;
   1955562222; 2024104815; 2227730452; 2361852424; 2428436474; 2756734187; 3204031479; 3329325298].

(* big-endian 32-bit word <-> 4 bytes *)
Definition s256_be32 (w : N) : bytes :=
  [(w / 16777216) mod 256; (w / 65536) mod 256; (w / 256) mod 256; w mod 256].
Definition s256_word (a b c d : N) : N := ((a * 256 + b) * 256 + c) * 256 + d.

Fixpoint s256_words (l : bytes) : list N :=
  match l with
  | a :: b :: c :: d :: r => s256_word a b c d :: s256_words r
  | _ => []
  end.

Definition s256_be64 (n : N) : bytes :=
  s256_be32 ((n / 4294967296) mod 4294967296) ++ s256_be32 (n mod 4294967296).

(* message ++ 0x80 ++ zeros ++ 64-bit big-endian bit length; total length = 0 mod 64 *)
Definition s256_pad_len (len : N) : N := (64 - ((len + 9) mod 64)) mod 64.
Definition s256_pad (m : bytes) : bytes :=
  let len := blen m in
  m ++ 128 :: zeros (s256_pad_len len) ++ s256_be64 (8 * len).

Definition st8 : Type := (N * N * N * N * N * N * N * N)%type.

Definition s256_init : st8 :=
  (1779033703, 3144134277, 1013904242, 2773480762, 1359893119, 2600822924, 528734635, 1541459225).

(* sliding window of the 16 most recent schedule words, oldest first:
   W[t+16] = ssig1 W[t+14] + W[t+9] + ssig0 W[t+1] + W[t] *)
Definition s256_next (w : list N) : list N :=
  match w with
  | w0 :: w1 :: w2 :: w3 :: w4 :: w5 :: w6 :: w7 :: w8 :: w9 :: w10 :: w11 :: w12 :: w13 :: w14 :: w15 :: _ =>
      [w1; w2; w3; w4; w5; w6; w7; w8; w9; w10; w11; w12; w13; w14; w15;
       s256_add (s256_add (s256_ssig1 w14) w9) (s256_add (s256_ssig0 w1) w0)]
  | _ => w
  end.

Definition s256_round (s : st8) (k w : N) : st8 :=
  let '(a, b, c, d, e, f, g, h) := s in
  let t1 := s256_add (s256_add (s256_add h (s256_bsig1 e)) (s256_add (s256_ch e f g) k)) w in
  let t2 := s256_add (s256_bsig0 a) (s256_maj a b c) in
  (s256_add t1 t2, a, b, c, s256_add d t1, e, f, g).

Fixpoint s256_rounds (ks : list N) (w : list N) (s : st8) : st8 :=
  match ks with
  | [] => s
  | k :: ks' => s256_rounds ks' (s256_next w) (s256_round s k (hd 0 w))
  end.

Definition s256_block (h : st8) (blk : list N) : st8 :=
  let '(a, b, c, d, e, f, g, i) := s256_rounds s256_K blk h in
  let '(h0, h1, h2, h3, h4, h5, h6, h7) := h in
  (s256_add h0 a, s256_add h1 b, s256_add h2 c, s256_add h3 d,
   s256_add h4 e, s256_add h5 f, s256_add h6 g, s256_add h7 i).

Fixpoint s256_blocks (ws : list N) (h : st8) : st8 :=
  match ws with
  | w0 :: w1 :: w2 :: w3 :: w4 :: w5 :: w6 :: w7 :: w8 :: w9 :: w10 :: w11 :: w12 :: w13 :: w14 :: w15 :: r =>
      s256_blocks r (s256_block h [w0; w1; w2; w3; w4; w5; w6; w7; w8; w9; w10; w11; w12; w13; w14; w15])
  | _ => h
  end.

Definition sha256 (m : bytes) : bytes :=
  let '(h0, h1, h2, h3, h4, h5, h6, h7) := s256_blocks (s256_words (s256_pad m)) s256_init in
  s256_be32 h0 ++ s256_be32 h1 ++ s256_be32 h2 ++ s256_be32 h3 ++
  s256_be32 h4 ++ s256_be32 h5 ++ s256_be32 h6 ++ s256_be32 h7.

(* ---- facts every user needs (unconditional) ---- *)

Lemma s256_be32_bytes_ok w : bytes_ok (s256_be32 w) = true.
Proof.
  unfold bytes_ok, s256_be32, byte_ok. cbn [forallb].
  repeat (rewrite andb_true_iff; split); try reflexivity; apply N.ltb_lt; lia.
Qed.

Lemma s256_bytes_ok_app a b : bytes_ok (a ++ b) = bytes_ok a && bytes_ok b.
Proof. unfold bytes_ok. apply forallb_app. Qed.

Lemma sha256_length m : length (sha256 m) = 32%nat.
Proof.
  unfold sha256. destruct (s256_blocks _ _) as [[[[[[[h0 h1] h2] h3] h4] h5] h6] h7]. reflexivity.
Qed.

Lemma sha256_bytes_ok m : bytes_ok (sha256 m) = true.
Proof.
  unfold sha256. destruct (s256_blocks _ _) as [[[[[[[h0 h1] h2] h3] h4] h5] h6] h7].
  rewrite !s256_bytes_ok_app, !s256_be32_bytes_ok. reflexivity.
Qed.

Lemma s256_pad_length m : (length (s256_pad m) mod 64 = 0)%nat.
Proof.
  unfold s256_pad. rewrite app_length. cbn [length]. rewrite app_length.
  unfold zeros. rewrite repeat_length. unfold s256_be64. rewrite app_length. cbn [s256_be32 length].
  unfold s256_pad_len, blen. set (n := length m).
  assert (H : N.to_nat ((64 - (N.of_nat n + 9) mod 64) mod 64) = ((64 - (n + 9) mod 64) mod 64)%nat) by lia.
  rewrite H. lia.
Qed.

(* ---- FIPS 180 known answers ---- *)

Example sha256_kat_empty :
  sha256 [] = hex "e3b0c44298fc1c149afbf4c8996fb92427ae41e4649b934ca495991b7852b855".
Proof. vm_compute. reflexivity. Qed.

Example sha256_kat_abc :
  sha256 (lit "abc") = hex "ba7816bf8f01cfea414140de5dae2223b00361a396177a9cb410ff61f20015ad".
Proof. vm_compute. reflexivity. Qed.

Example sha256_kat_448 :
  sha256 (lit "abcdbcdecdefdefgefghfghighijhijkijkljklmklmnlmnomnopnopq")
  = hex "248d6a61d20638b8e5c026930c3e6039a33ce45964ff2167f6ecedd419db06c1".
Proof. vm_compute. reflexivity. Qed.

Example sha256_kat_896 :
  sha256 (lit "abcdefghbcdefghicdefghijdefghijkefghijklfghijklmghijklmnhijklmnoijklmnopjklmnopqklmnopqrlmnopqrsmnopqrstnopqrstu")
  = hex "cf5b16a778af8380036ce59e7b0492370b249b11e8f07a51afac45037afee9d1".
Proof. vm_compute. reflexivity. Qed.

(* exactly one block of data, so the padding fills a second block (reference value from crypto/sha256) *)
Example sha256_kat_64 :
  sha256 (repeat 97 64) = hex "ffe054fe7ae0cb6dc65c3af9b61d5209f439851db43d0ba5997337df154668eb".
Proof. vm_compute. reflexivity. Qed.

(* 55 and 56 bytes: the two sides of the padding boundary *)
Example sha256_kat_55 :
  sha256 (repeat 97 55) = hex "9f4390f8d30c2dd92ec9f095b65e2b9ae9b0a925a5258e241c9f1e910f734318".
Proof. vm_compute. reflexivity. Qed.

Example sha256_kat_56 :
  sha256 (repeat 97 56) = hex "b35439a4ac6f0948b6d6f9e3c6af0f5f590ce20f1bde7090ef7970686ec6738a".
Proof. vm_compute. reflexivity. Qed.
