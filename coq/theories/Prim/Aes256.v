(* AES (FIPS-197) single-block encryption and decryption with key expansion, executable.
   Generic in the key length (16/24/32 bytes = AES-128/192/256, as Go's aes.NewCipher selects by
   len(key)); the MTProto code paths use 32-byte keys (AES-256), the repository's own IGE test
   vectors also use 16-byte keys.  Blocks and keys are byte lists.

   This is the *execution instance* of crypto/aes for the models.  The theorems of the properties
   take the block cipher as Section variables  E D : key -> block -> block  with the hypotheses
     length (E k b) = 16, length (D k b) = 16          (proved here, unconditionally: aes_enc_length ...)
     D k (E k b) = b  for 16-byte b                    (AES is a permutation per key)
   The first two are proved in this file, the third in Prim/Aes256Inv.v (aes_dec_enc: for every key of
   16/24/32 bytes and every 16-byte block, both made of values below 256), byte ranges in
   Prim/Aes256Facts.v, which also checks the S-box tables against their definition (inverse in GF(2^8) +
   affine map).  What remains an assumption is only that this Gallina function IS crypto/aes; it is
   validated by the FIPS-197 known answers below (both directions) and by every correspondence run. *)
From Coq Require Import String.
From Coq Require Import ZArith NArith List Lia ZifyN ZifyNat ZifyBool Bool.
From MTV Require Import Base.Bytes Prim.Hex Prim.Xor.
Import ListNotations.
Open Scope N_scope.

Definition sbox_tab (x : N) : N :=
  match x with
  | 0 => 99 | 1 => 124 | 2 => 119 | 3 => 123 | 4 => 242 | 5 => 107 | 6 => 111 | 7 => 197
  | 8 => 48 | 9 => 1 | 10 => 103 | 11 => 43 | 12 => 254 | 13 => 215 | 14 => 171 | 15 => 118
  | 16 => 202 | 17 => 130 | 18 => 201 | 19 => 125 | 20 => 250 | 21 => 89 | 22 => 71 | 23 => 240
  | 24 => 173 | 25 => 212 | 26 => 162 | 27 => 175 | 28 => 156 | 29 => 164 | 30 => 114 | 31 => 192
  | 32 => 183 | 33 => 253 | 34 => 147 | 35 => 38 | 36 => 54 | 37 => 63 | 38 => 247 | 39 => 204
  | 40 => 52 | 41 => 165 | 42 => 229 | 43 => 241 | 44 => 113 | 45 => 216 | 46 => 49 | 47 => 21
  | 48 => 4 | 49 => 199 | 50 => 35 | 51 => 195 | 52 => 24 | 53 => 150 | 54 => 5 | 55 => 154
  | 56 => 7 | 57 => 18 | 58 => 128 | 59 => 226 | 60 => 235 | 61 => 39 | 62 => 178 | 63 => 117
  | 64 => 9 | 65 => 131 | 66 => 44 | 67 => 26 | 68 => 27 | 69 => 110 | 70 => 90 | 71 => 160
  | 72 => 82 | 73 => 59 | 74 => 214 | 75 => 179 | 76 => 41 | 77 => 227 | 78 => 47 | 79 => 132
  | 80 => 83 | 81 => 209 | 82 => 0 | 83 => 237 | 84 => 32 | 85 => 252 | 86 => 177 | 87 => 91
  | 88 => 106 | 89 => 203 | 90 => 190 | 91 => 57 | 92 => 74 | 93 => 76 | 94 => 88 | 95 => 207
  | 96 => 208 | 97 => 239 | 98 => 170 | 99 => 251 | 100 => 67 | 101 => 77 | 102 => 51 | 103 => 133
  | 104 => 69 | 105 => 249 | 106 => 2 | 107 => 127 | 108 => 80 | 109 => 60 | 110 => 159 | 111 => 168
  | 112 => 81 | 113 => 163 | 114 => 64 | 115 => 143 | 116 => 146 | 117 => 157 | 118 => 56 | 119 => 245
  | 120 => 188 | 121 => 182 | 122 => 218 | 123 => 33 | 124 => 16 | 125 => 255 | 126 => 243 | 127 => 210
  | 128 => 205 | 129 => 12 | 130 => 19 | 131 => 236 | 132 => 95 | 133 => 151 | 134 => 68 | 135 => 23
  | 136 => 196 | 137 => 167 | 138 => 126 | 139 => 61 | 140 => 100 | 141 => 93 | 142 => 25 | 143 => 115
  | 144 => 96 | 145 => 129 | 146 => 79 | 147 => 220 | 148 => 34 | 149 => 42 | 150 => 144 | 151 => 136
  | 152 => 70 | 153 => 238 | 154 => 184 | 155 => 20 | 156 => 222 | 157 => 94 | 158 => 11 | 159 => 219
  | 160 => 224 | 161 => 50 | 162 => 58 | 163 => 10 | 164 => 73 | 165 => 6 | 166 => 36 | 167 => 92
  | 168 => 194 | 169 => 211 | 170 => 172 | 171 => 98 | 172 => 145 | 173 => 149 | 174 => 228 | 175 => 121
  | 176 => 231 | 177 => 200 | 178 => 55 | 179 => 109 | 180 => 141 | 181 => 213 | 182 => 78 | 183 => 169
  | 184 => 108 | 185 => 86 | 186 => 244 | 187 => 234 | 188 => 101 | 189 => 122 | 190 => 174 | 191 => 8
  | 192 => 186 | 193 => 120 | 194 => 37 | 195 => 46 | 196 => 28 | 197 => 166 | 198 => 180 | 199 => 198
  | 200 => 232 | 201 => 221 | 202 => 116 | 203 => 31 | 204 => 75 | 205 => 189 | 206 => 139 | 207 => 138
  | 208 => 112 | 209 => 62 | 210 => 181 | 211 => 102 | 212 => 72 | 213 => 3 | 214 => 246 | 215 => 14
  | 216 => 97 | 217 => 53 | 218 => 87 | 219 => 185 | 220 => 134 | 221 => 193 | 222 => 29 | 223 => 158
  | 224 => 225 | 225 => 248 | 226 => 152 | 227 => 17 | 228 => 105 | 229 => 217 | 230 => 142 | 231 => 148
  | 232 => 155 | 233 => 30 | 234 => 135 | 235 => 233 | 236 => 206 | 237 => 85 | 238 => 40 | 239 => 223
  | 240 => 140 | 241 => 161 | 242 => 137 | 243 => 13 | 244 => 191 | 245 => 230 | 246 => 66 | 247 => 104
  | 248 => 65 | 249 => 153 | 250 => 45 | 251 => 15 | 252 => 176 | 253 => 84 | 254 => 187 | 255 => 22
  | _ => 0
  end.

Definition isbox_tab (x : N) : N :=
  match x with
  | 0 => 82 | 1 => 9 | 2 => 106 | 3 => 213 | 4 => 48 | 5 => 54 | 6 => 165 | 7 => 56
  | 8 => 191 | 9 => 64 | 10 => 163 | 11 => 158 | 12 => 129 | 13 => 243 | 14 => 215 | 15 => 251
  | 16 => 124 | 17 => 227 | 18 => 57 | 19 => 130 | 20 => 155 | 21 => 47 | 22 => 255 | 23 => 135
  | 24 => 52 | 25 => 142 | 26 => 67 | 27 => 68 | 28 => 196 | 29 => 222 | 30 => 233 | 31 => 203
  | 32 => 84 | 33 => 123 | 34 => 148 | 35 => 50 | 36 => 166 | 37 => 194 | 38 => 35 | 39 => 61
  | 40 => 238 | 41 => 76 | 42 => 149 | 43 => 11 | 44 => 66 | 45 => 250 | 46 => 195 | 47 => 78
  | 48 => 8 | 49 => 46 | 50 => 161 | 51 => 102 | 52 => 40 | 53 => 217 | 54 => 36 | 55 => 178
  | 56 => 118 | 57 => 91 | 58 => 162 | 59 => 73 | 60 => 109 | 61 => 139 | 62 => 209 | 63 => 37
  | 64 => 114 | 65 => 248 | 66 => 246 | 67 => 100 | 68 => 134 | 69 => 104 | 70 => 152 | 71 => 22
  | 72 => 212 | 73 => 164 | 74 => 92 | 75 => 204 | 76 => 93 | 77 => 101 | 78 => 182 | 79 => 146
  | 80 => 108 | 81 => 112 | 82 => 72 | 83 => 80 | 84 => 253 | 85 => 237 | 86 => 185 | 87 => 218
  | 88 => 94 | 89 => 21 | 90 => 70 | 91 => 87 | 92 => 167 | 93 => 141 | 94 => 157 | 95 => 132
  | 96 => 144 | 97 => 216 | 98 => 171 | 99 => 0 | 100 => 140 | 101 => 188 | 102 => 211 | 103 => 10
  | 104 => 247 | 105 => 228 | 106 => 88 | 107 => 5 | 108 => 184 | 109 => 179 | 110 => 69 | 111 => 6
  | 112 => 208 | 113 => 44 | 114 => 30 | 115 => 143 | 116 => 202 | 117 => 63 | 118 => 15 | 119 => 2
  | 120 => 193 | 121 => 175 | 122 => 189 | 123 => 3 | 124 => 1 | 125 => 19 | 126 => 138 | 127 => 107
  | 128 => 58 | 129 => 145 | 130 => 17 | 131 => 65 | 132 => 79 | 133 => 103 | 134 => 220 | 135 => 234
  | 136 => 151 | 137 => 242 | 138 => 207 | 139 => 206 | 140 => 240 | 141 => 180 | 142 => 230 | 143 => 115
  | 144 => 150 | 145 => 172 | 146 => 116 | 147 => 34 | 148 => 231 | 149 => 173 | 150 => 53 | 151 => 133
  | 152 => 226 | 153 => 249 | 154 => 55 | 155 => 232 | 156 => 28 | 157 => 117 | 158 => 223 | 159 => 110
  | 160 => 71 | 161 => 241 | 162 => 26 | 163 => 113 | 164 => 29 | 165 => 41 | 166 => 197 | 167 => 137
  | 168 => 111 | 169 => 183 | 170 => 98 | 171 => 14 | 172 => 170 | 173 => 24 | 174 => 190 | 175 => 27
  | 176 => 252 | 177 => 86 | 178 => 62 | 179 => 75 | 180 => 198 | 181 => 210 | 182 => 121 | 183 => 32
  | 184 => 154 | 185 => 219 | 186 => 192 | 187 => 254 | 188 => 120 | 189 => 205 | 190 => 90 | 191 => 244
  | 192 => 31 | 193 => 221 | 194 => 168 | 195 => 51 | 196 => 136 | 197 => 7 | 198 => 199 | 199 => 49
  | 200 => 177 | 201 => 18 | 202 => 16 | 203 => 89 | 204 => 39 | 205 => 128 | 206 => 236 | 207 => 95
  | 208 => 96 | 209 => 81 | 210 => 127 | 211 => 169 | 212 => 25 | 213 => 181 | 214 => 74 | 215 => 13
  | 216 => 45 | 217 => 229 | 218 => 122 | 219 => 159 | 220 => 147 | 221 => 201 | 222 => 156 | 223 => 239
  | 224 => 160 | 225 => 224 | 226 => 59 | 227 => 77 | 228 => 174 | 229 => 42 | 230 => 245 | 231 => 176
  | 232 => 200 | 233 => 235 | 234 => 187 | 235 => 60 | 236 => 131 | 237 => 83 | 238 => 153 | 239 => 97
  | 240 => 23 | 241 => 43 | 242 => 4 | 243 => 126 | 244 => 186 | 245 => 119 | 246 => 214 | 247 => 38
  | 248 => 225 | 249 => 105 | 250 => 20 | 251 => 99 | 252 => 85 | 253 => 33 | 254 => 12 | 255 => 125
  | _ => 0
  end.

Definition sbox (x : N) : N := if x <? 256 then sbox_tab x else 0.
Definition isbox (x : N) : N := if x <? 256 then isbox_tab x else 0.

(* multiplication by x in GF(2^8) = GF(2)[x]/(x^8+x^4+x^3+x+1) *)
Definition xtime (x : N) : N := let y := 2 * x in if y <? 256 then y else N.lxor y 283.

Definition mul2 := xtime.
Definition mul3 (x : N) := N.lxor (xtime x) x.
Definition mul9 (x : N) := N.lxor (xtime (xtime (xtime x))) x.
Definition mul11 (x : N) := N.lxor (N.lxor (xtime (xtime (xtime x))) (xtime x)) x.
Definition mul13 (x : N) := N.lxor (N.lxor (xtime (xtime (xtime x))) (xtime (xtime x))) x.
Definition mul14 (x : N) := N.lxor (N.lxor (xtime (xtime (xtime x))) (xtime (xtime x))) (xtime x).

Definition x4 (a b c d : N) : N := N.lxor (N.lxor a b) (N.lxor c d).

(* the state is the 16 input bytes in order, i.e. column-major: s[r][c] = b[r + 4c] *)
Definition sub_bytes (s : bytes) : bytes := map sbox s.
Definition inv_sub_bytes (s : bytes) : bytes := map isbox s.

Definition shift_rows (s : bytes) : bytes :=
  match s with
  | [b0; b1; b2; b3; b4; b5; b6; b7; b8; b9; b10; b11; b12; b13; b14; b15] =>
    [b0; b5; b10; b15; b4; b9; b14; b3; b8; b13; b2; b7; b12; b1; b6; b11]
  | _ => s
  end.

Definition inv_shift_rows (s : bytes) : bytes :=
  match s with
  | [b0; b1; b2; b3; b4; b5; b6; b7; b8; b9; b10; b11; b12; b13; b14; b15] =>
    [b0; b13; b10; b7; b4; b1; b14; b11; b8; b5; b2; b15; b12; b9; b6; b3]
  | _ => s
  end.

Fixpoint mix_columns (s : bytes) : bytes :=
  match s with
  | a :: b :: c :: d :: r =>
      x4 (mul2 a) (mul3 b) c d :: x4 a (mul2 b) (mul3 c) d ::
      x4 a b (mul2 c) (mul3 d) :: x4 (mul3 a) b c (mul2 d) :: mix_columns r
  | _ => s
  end.

Fixpoint inv_mix_columns (s : bytes) : bytes :=
  match s with
  | a :: b :: c :: d :: r =>
      x4 (mul14 a) (mul11 b) (mul13 c) (mul9 d) :: x4 (mul9 a) (mul14 b) (mul11 c) (mul13 d) ::
      x4 (mul13 a) (mul9 b) (mul14 c) (mul11 d) :: x4 (mul11 a) (mul13 b) (mul9 c) (mul14 d) ::
      inv_mix_columns r
  | _ => s
  end.

Definition add_round_key (s k : bytes) : bytes := xor_into s k.

(* ---- key expansion (FIPS-197 5.2); words are 4-byte lists, the list is kept reversed ---- *)
Definition rot_word (w : bytes) : bytes :=
  match w with [a; b; c; d] => [b; c; d; a] | _ => w end.
Definition sub_word (w : bytes) : bytes := map sbox w.

Fixpoint expand_key (n nk i : nat) (rc : N) (rw : list bytes) : list bytes :=
  match n with
  | O => rw
  | S n' =>
      let prev := nth 0 rw [] in
      let old := nth (nk - 1) rw [] in
      let r := Nat.modulo i nk in
      let temp :=
        if Nat.eqb r 0 then xor_into (sub_word (rot_word prev)) [rc]
        else if Nat.ltb 6 nk && Nat.eqb r 4 then sub_word prev
        else prev in
      let rc' := if Nat.eqb r 0 then xtime rc else rc in
      expand_key n' nk (S i) rc' (xor_into old temp :: rw)
  end.

Fixpoint words4 (k : bytes) : list bytes :=
  match k with
  | a :: b :: c :: d :: r => [a; b; c; d] :: words4 r
  | _ => []
  end.

Fixpoint group_keys (ws : list bytes) : list bytes :=
  match ws with
  | w0 :: w1 :: w2 :: w3 :: r => (w0 ++ w1 ++ w2 ++ w3) :: group_keys r
  | _ => []
  end.

(* aes.NewCipher: key length 16, 24 or 32, anything else is KeySizeError *)
Definition key_len_ok (key : bytes) : bool :=
  let n := length key in Nat.eqb n 16 || Nat.eqb n 24 || Nat.eqb n 32.

(* Nr + 1 round keys of 16 bytes; [] for an unsupported key length *)
Definition round_keys (key : bytes) : list bytes :=
  if key_len_ok key then
    let nk := Nat.div (length key) 4 in
    let kw := words4 key in
    group_keys (rev (expand_key (4 * (nk + 7) - nk) nk nk 1 (rev kw)))
  else [].

(* rounds 1 .. Nr-1 then the final round; [rks] = round keys 1 .. Nr *)
Fixpoint enc_rounds (s : bytes) (rks : list bytes) : bytes :=
  match rks with
  | [] => s
  | [k] => add_round_key (shift_rows (sub_bytes s)) k
  | k :: r => enc_rounds (add_round_key (mix_columns (shift_rows (sub_bytes s))) k) r
  end.

(* inverse cipher (FIPS-197 5.3), [rks] = round keys Nr-1 .. 0 *)
Fixpoint dec_rounds (s : bytes) (rks : list bytes) : bytes :=
  match rks with
  | [] => s
  | [k] => add_round_key (inv_sub_bytes (inv_shift_rows s)) k
  | k :: r => dec_rounds (inv_mix_columns (add_round_key (inv_sub_bytes (inv_shift_rows s)) k)) r
  end.

Definition zero_block : bytes := repeat 0 16%nat.

Definition cipher_enc (rk : list bytes) (blk : bytes) : bytes :=
  match rk with
  | k0 :: rks => enc_rounds (add_round_key blk k0) rks
  | [] => blk
  end.

Definition cipher_dec (rk : list bytes) (blk : bytes) : bytes :=
  match rev rk with
  | kn :: rks => dec_rounds (add_round_key blk kn) rks
  | [] => blk
  end.

(* cipher.Block.Encrypt / Decrypt for one block.  A block that is not 16 bytes, or a key of an
   unsupported length, yields the zero block: the callers in the models test both conditions
   first (Go panics / returns an error there), so this branch is never an observable result. *)
Definition aes_enc (key blk : bytes) : bytes :=
  if Nat.eqb (length blk) 16 && key_len_ok key then cipher_enc (round_keys key) blk else zero_block.

Definition aes_dec (key blk : bytes) : bytes :=
  if Nat.eqb (length blk) 16 && key_len_ok key then cipher_dec (round_keys key) blk else zero_block.

(* ---- lengths (unconditional) ---- *)

Lemma shift_rows_length s : length (shift_rows s) = length s.
Proof. do 17 (destruct s as [|? s]; try reflexivity). Qed.
Lemma inv_shift_rows_length s : length (inv_shift_rows s) = length s.
Proof. do 17 (destruct s as [|? s]; try reflexivity). Qed.

Lemma mix_columns_length : forall n s, (length s <= n)%nat -> length (mix_columns s) = length s.
Proof.
  induction n as [|n IH]; intros s H.
  - destruct s; [reflexivity|cbn [length] in H; lia].
  - destruct s as [|a [|b [|c [|d r]]]]; try reflexivity.
    cbn [mix_columns length] in *. rewrite IH by lia. reflexivity.
Qed.
Lemma inv_mix_columns_length : forall n s, (length s <= n)%nat -> length (inv_mix_columns s) = length s.
Proof.
  induction n as [|n IH]; intros s H.
  - destruct s; [reflexivity|cbn [length] in H; lia].
  - destruct s as [|a [|b [|c [|d r]]]]; try reflexivity.
    cbn [inv_mix_columns length] in *. rewrite IH by lia. reflexivity.
Qed.

Lemma enc_rounds_length rks : forall s, length (enc_rounds s rks) = length s.
Proof.
  induction rks as [|k r IH]; intros s; [reflexivity|].
  destruct r as [|k' r'].
  - cbn [enc_rounds]. unfold add_round_key, sub_bytes.
    now rewrite xor_into_length, shift_rows_length, map_length.
  - change (enc_rounds s (k :: k' :: r')) with
      (enc_rounds (add_round_key (mix_columns (shift_rows (sub_bytes s))) k) (k' :: r')).
    rewrite IH. unfold add_round_key, sub_bytes.
    rewrite xor_into_length, (mix_columns_length _ _ (le_n _)), shift_rows_length, map_length. reflexivity.
Qed.

Lemma dec_rounds_length rks : forall s, length (dec_rounds s rks) = length s.
Proof.
  induction rks as [|k r IH]; intros s; [reflexivity|].
  destruct r as [|k' r'].
  - cbn [dec_rounds]. unfold add_round_key, inv_sub_bytes.
    now rewrite xor_into_length, map_length, inv_shift_rows_length.
  - change (dec_rounds s (k :: k' :: r')) with
      (dec_rounds (inv_mix_columns (add_round_key (inv_sub_bytes (inv_shift_rows s)) k)) (k' :: r')).
    rewrite IH. unfold add_round_key, inv_sub_bytes.
    rewrite (inv_mix_columns_length _ _ (le_n _)), xor_into_length, map_length, inv_shift_rows_length. reflexivity.
Qed.

Lemma aes_enc_length key blk : length (aes_enc key blk) = 16%nat.
Proof.
  unfold aes_enc. destruct (Nat.eqb (length blk) 16) eqn:E; cbn [andb]; [|reflexivity].
  destruct (key_len_ok key); [|reflexivity].
  apply Nat.eqb_eq in E. unfold cipher_enc. destruct (round_keys key) as [|k0 rks]; [exact E|].
  rewrite enc_rounds_length. unfold add_round_key. now rewrite xor_into_length.
Qed.

Lemma aes_dec_length key blk : length (aes_dec key blk) = 16%nat.
Proof.
  unfold aes_dec. destruct (Nat.eqb (length blk) 16) eqn:E; cbn [andb]; [|reflexivity].
  destruct (key_len_ok key); [|reflexivity].
  apply Nat.eqb_eq in E. unfold cipher_dec. destruct (rev (round_keys key)) as [|k0 rks]; [exact E|].
  rewrite dec_rounds_length. unfold add_round_key. now rewrite xor_into_length.
Qed.

(* ---- FIPS-197 known answers (appendix C.1, C.2, C.3; appendix A.3 first/last round key) ---- *)
Definition kat_pt := hex "00112233445566778899aabbccddeeff".
Definition kat_k128 := hex "000102030405060708090a0b0c0d0e0f".
Definition kat_k192 := hex "000102030405060708090a0b0c0d0e0f1011121314151617".
Definition kat_k256 := hex "000102030405060708090a0b0c0d0e0f101112131415161718191a1b1c1d1e1f".

Example aes256_kat_enc : aes_enc kat_k256 kat_pt = hex "8ea2b7ca516745bfeafc49904b496089".
Proof. vm_compute. reflexivity. Qed.
Example aes256_kat_dec : aes_dec kat_k256 (hex "8ea2b7ca516745bfeafc49904b496089") = kat_pt.
Proof. vm_compute. reflexivity. Qed.
Example aes192_kat_enc : aes_enc kat_k192 kat_pt = hex "dda97ca4864cdfe06eaf70a0ec0d7191".
Proof. vm_compute. reflexivity. Qed.
Example aes192_kat_dec : aes_dec kat_k192 (hex "dda97ca4864cdfe06eaf70a0ec0d7191") = kat_pt.
Proof. vm_compute. reflexivity. Qed.
Example aes128_kat_enc : aes_enc kat_k128 kat_pt = hex "69c4e0d86a7b0430d8cdb78070b4c55a".
Proof. vm_compute. reflexivity. Qed.
Example aes128_kat_dec : aes_dec kat_k128 (hex "69c4e0d86a7b0430d8cdb78070b4c55a") = kat_pt.
Proof. vm_compute. reflexivity. Qed.

(* FIPS-197 A.3: AES-256 key 603deb10...: w[4..7] is the second half of the key, last round key w[56..59] *)
Example aes256_kat_keyexp :
  nth 14 (round_keys (hex "603deb1015ca71be2b73aef0857d77811f352c073b6108d72d9810a30914dff4")) []
  = hex "fe4890d1e6188d0b046df344706c631e".
Proof. vm_compute. reflexivity. Qed.
Example aes256_round_key_count : length (round_keys kat_k256) = 15%nat.
Proof. vm_compute. reflexivity. Qed.

(* FIPS-197 appendix B (AES-128 example) *)
Example aes128_kat_B :
  aes_enc (hex "2b7e151628aed2a6abf7158809cf4f3c") (hex "3243f6a8885a308d313198a2e0370734")
  = hex "3925841d02dc09fbdc118597196a0b32".
Proof. vm_compute. reflexivity. Qed.

(* the inverse S-box inverts the S-box on every byte *)
Example isbox_sbox_all : forallb (fun x => isbox (sbox x) =? x) all_bytes = true.
Proof. vm_compute. reflexivity. Qed.
Example sbox_isbox_all : forallb (fun x => sbox (isbox x) =? x) all_bytes = true.
Proof. vm_compute. reflexivity. Qed.

Lemma isbox_sbox x : x < 256 -> isbox (sbox x) = x.
Proof. intros H. apply N.eqb_eq. exact (forall_byte _ isbox_sbox_all x H). Qed.
Lemma sbox_isbox x : x < 256 -> sbox (isbox x) = x.
Proof. intros H. apply N.eqb_eq. exact (forall_byte _ sbox_isbox_all x H). Qed.
