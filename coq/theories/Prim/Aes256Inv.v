(* AES decryption inverts AES encryption - proved for the Gallina AES of Prim/Aes256.v:
     aes_dec k (aes_enc k b) = b   for every key of 16/24/32 bytes and every 16-byte block (bytes < 256).
   Ingredients: InvSubBytes.SubBytes = id (exhaustive over the 256 bytes), InvShiftRows.ShiftRows = id,
   AddRoundKey is an involution (N.lxor laws), InvMixColumns.MixColumns = id (multiplications by the
   constants are GF(2)-linear - exhaustive over pairs of bytes - plus 16 one-variable identities checked
   on all 256 bytes). *)
From Coq Require Import ZArith NArith List Lia ZifyN ZifyNat ZifyBool Bool Btauto.
From MTV Require Import Base.Bytes Prim.Xor Prim.Aes256 Prim.Aes256Facts.
Import ListNotations.
Open Scope N_scope.

Notation ok l := (bytes_ok l = true).

(* ---- AddRoundKey ---- *)
Lemma xor_into_invol s : forall k, xor_into (xor_into s k) k = s.
Proof.
  induction s as [|x s IH]; intros [|y k]; cbn [xor_into]; auto.
  rewrite N.lxor_assoc, N.lxor_nilpotent, N.lxor_0_r, IH. reflexivity.
Qed.

(* ---- ShiftRows ---- *)
Lemma inv_shift_rows_shift_rows s : inv_shift_rows (shift_rows s) = s.
Proof. do 17 (destruct s as [|? s]; try reflexivity). Qed.

(* ---- SubBytes ---- *)
Lemma inv_sub_bytes_sub_bytes s : ok s -> inv_sub_bytes (sub_bytes s) = s.
Proof.
  unfold inv_sub_bytes, sub_bytes. induction s as [|x s IH]; intros H; [reflexivity|].
  apply ok_cons in H as [Hx Hs]. cbn [map]. rewrite isbox_sbox, IH by assumption. reflexivity.
Qed.

(* ---- MixColumns ---- *)
Lemma x4_transpose a0 a1 a2 a3 b0 b1 b2 b3 c0 c1 c2 c3 d0 d1 d2 d3 :
  x4 (x4 a0 a1 a2 a3) (x4 b0 b1 b2 b3) (x4 c0 c1 c2 c3) (x4 d0 d1 d2 d3) =
  x4 (x4 a0 b0 c0 d0) (x4 a1 b1 c1 d1) (x4 a2 b2 c2 d2) (x4 a3 b3 c3 d3).
Proof. unfold x4. apply N.bits_inj. intro n. rewrite !N.lxor_spec. btauto. Qed.

Lemma x4_v000 v : x4 v 0 0 0 = v.
Proof. unfold x4. now rewrite !N.lxor_0_r. Qed.
Lemma x4_0v00 v : x4 0 v 0 0 = v.
Proof. unfold x4. now rewrite N.lxor_0_l, !N.lxor_0_r. Qed.
Lemma x4_00v0 v : x4 0 0 v 0 = v.
Proof. unfold x4. now rewrite N.lxor_0_l, N.lxor_0_r. Qed.
Lemma x4_000v v : x4 0 0 0 v = v.
Proof. unfold x4. now rewrite !N.lxor_0_l. Qed.

Definition linear (f : N -> N) : Prop :=
  forall a b, a < 256 -> b < 256 -> f (N.lxor a b) = N.lxor (f a) (f b).

Definition linear_check (f : N -> N) : bool :=
  forallb (fun a => forallb (fun b => f (N.lxor a b) =? N.lxor (f a) (f b)) all_bytes) all_bytes.

Lemma linear_of_check f : linear_check f = true -> linear f.
Proof.
  intros H a b Ha Hb. unfold linear_check in H.
  pose proof (forall_byte _ H a Ha) as H1. cbv beta in H1.
  pose proof (forall_byte _ H1 b Hb) as H2. cbv beta in H2. now apply N.eqb_eq.
Qed.

Lemma mul9_linear : linear mul9.   Proof. apply linear_of_check. vm_compute. reflexivity. Qed.
Lemma mul11_linear : linear mul11. Proof. apply linear_of_check. vm_compute. reflexivity. Qed.
Lemma mul13_linear : linear mul13. Proof. apply linear_of_check. vm_compute. reflexivity. Qed.
Lemma mul14_linear : linear mul14. Proof. apply linear_of_check. vm_compute. reflexivity. Qed.

Lemma linear_x4 f p q r s : linear f -> p < 256 -> q < 256 -> r < 256 -> s < 256 ->
  f (x4 p q r s) = x4 (f p) (f q) (f r) (f s).
Proof.
  intros L Hp Hq Hr Hs. unfold x4.
  rewrite L by (apply lxor_lt_256; assumption). rewrite !L by assumption. reflexivity.
Qed.

Lemma mul2_lt x : x < 256 -> mul2 x < 256.
Proof. apply xtime_lt. Qed.
Lemma mul3_lt x : x < 256 -> mul3 x < 256.
Proof. intros H. unfold mul3. apply lxor_lt_256; [apply xtime_lt|]; assumption. Qed.

(* the 16 entries of InvMix x Mix = identity matrix, each as a one-variable identity over GF(2^8) *)
Example mix_matrix_check : forallb (fun v => (x4 (mul14 (mul2 v)) (mul11 v) (mul13 v) (mul9 (mul3 v)) =? v) && (x4 (mul14 (mul3 v)) (mul11 (mul2 v)) (mul13 v) (mul9 v) =? 0) && (x4 (mul14 v) (mul11 (mul3 v)) (mul13 (mul2 v)) (mul9 v) =? 0) && (x4 (mul14 v) (mul11 v) (mul13 (mul3 v)) (mul9 (mul2 v)) =? 0) && (x4 (mul9 (mul2 v)) (mul14 v) (mul11 v) (mul13 (mul3 v)) =? 0) && (x4 (mul9 (mul3 v)) (mul14 (mul2 v)) (mul11 v) (mul13 v) =? v) && (x4 (mul9 v) (mul14 (mul3 v)) (mul11 (mul2 v)) (mul13 v) =? 0) && (x4 (mul9 v) (mul14 v) (mul11 (mul3 v)) (mul13 (mul2 v)) =? 0) && (x4 (mul13 (mul2 v)) (mul9 v) (mul14 v) (mul11 (mul3 v)) =? 0) && (x4 (mul13 (mul3 v)) (mul9 (mul2 v)) (mul14 v) (mul11 v) =? 0) && (x4 (mul13 v) (mul9 (mul3 v)) (mul14 (mul2 v)) (mul11 v) =? v) && (x4 (mul13 v) (mul9 v) (mul14 (mul3 v)) (mul11 (mul2 v)) =? 0) && (x4 (mul11 (mul2 v)) (mul13 v) (mul9 v) (mul14 (mul3 v)) =? 0) && (x4 (mul11 (mul3 v)) (mul13 (mul2 v)) (mul9 v) (mul14 v) =? 0) && (x4 (mul11 v) (mul13 (mul3 v)) (mul9 (mul2 v)) (mul14 v) =? 0) && (x4 (mul11 v) (mul13 v) (mul9 (mul3 v)) (mul14 (mul2 v)) =? v)) all_bytes = true.
Proof. vm_compute. reflexivity. Qed.

Lemma mix_matrix v : v < 256 ->
  x4 (mul14 (mul2 v)) (mul11 v) (mul13 v) (mul9 (mul3 v)) = v /\
  x4 (mul14 (mul3 v)) (mul11 (mul2 v)) (mul13 v) (mul9 v) = 0 /\
  x4 (mul14 v) (mul11 (mul3 v)) (mul13 (mul2 v)) (mul9 v) = 0 /\
  x4 (mul14 v) (mul11 v) (mul13 (mul3 v)) (mul9 (mul2 v)) = 0 /\
  x4 (mul9 (mul2 v)) (mul14 v) (mul11 v) (mul13 (mul3 v)) = 0 /\
  x4 (mul9 (mul3 v)) (mul14 (mul2 v)) (mul11 v) (mul13 v) = v /\
  x4 (mul9 v) (mul14 (mul3 v)) (mul11 (mul2 v)) (mul13 v) = 0 /\
  x4 (mul9 v) (mul14 v) (mul11 (mul3 v)) (mul13 (mul2 v)) = 0 /\
  x4 (mul13 (mul2 v)) (mul9 v) (mul14 v) (mul11 (mul3 v)) = 0 /\
  x4 (mul13 (mul3 v)) (mul9 (mul2 v)) (mul14 v) (mul11 v) = 0 /\
  x4 (mul13 v) (mul9 (mul3 v)) (mul14 (mul2 v)) (mul11 v) = v /\
  x4 (mul13 v) (mul9 v) (mul14 (mul3 v)) (mul11 (mul2 v)) = 0 /\
  x4 (mul11 (mul2 v)) (mul13 v) (mul9 v) (mul14 (mul3 v)) = 0 /\
  x4 (mul11 (mul3 v)) (mul13 (mul2 v)) (mul9 v) (mul14 v) = 0 /\
  x4 (mul11 v) (mul13 (mul3 v)) (mul9 (mul2 v)) (mul14 v) = 0 /\
  x4 (mul11 v) (mul13 v) (mul9 (mul3 v)) (mul14 (mul2 v)) = v.
Proof.
  intros H. pose proof (forall_byte _ mix_matrix_check v H) as Hc. cbv beta in Hc.
  repeat (apply andb_true_iff in Hc as [Hc ?]).
  repeat split; now apply N.eqb_eq.
Qed.

Lemma inv_mix_column a b c d : a < 256 -> b < 256 -> c < 256 -> d < 256 ->
  inv_mix_columns (mix_columns [a; b; c; d]) = [a; b; c; d].
Proof.
  intros Ha Hb Hc Hd. cbn [mix_columns inv_mix_columns].
  pose proof (mul2_lt a Ha). pose proof (mul2_lt b Hb). pose proof (mul2_lt c Hc). pose proof (mul2_lt d Hd).
  pose proof (mul3_lt a Ha). pose proof (mul3_lt b Hb). pose proof (mul3_lt c Hc). pose proof (mul3_lt d Hd).
  rewrite !(linear_x4 mul9), !(linear_x4 mul11), !(linear_x4 mul13), !(linear_x4 mul14)
    by first [apply mul9_linear|apply mul11_linear|apply mul13_linear|apply mul14_linear|assumption].
  rewrite !x4_transpose.
  destruct (mix_matrix a Ha) as (A0 & A1 & A2 & A3 & A4 & A5 & A6 & A7 & A8 & A9 & A10 & A11 & A12 & A13 & A14 & A15).
  destruct (mix_matrix b Hb) as (B0 & B1 & B2 & B3 & B4 & B5 & B6 & B7 & B8 & B9 & B10 & B11 & B12 & B13 & B14 & B15).
  destruct (mix_matrix c Hc) as (C0 & C1 & C2 & C3 & C4 & C5 & C6 & C7 & C8 & C9 & C10 & C11 & C12 & C13 & C14 & C15).
  destruct (mix_matrix d Hd) as (D0 & D1 & D2 & D3 & D4 & D5 & D6 & D7 & D8 & D9 & D10 & D11 & D12 & D13 & D14 & D15).
  rewrite A0, B1, C2, D3, A4, B5, C6, D7, A8, B9, C10, D11, A12, B13, C14, D15.
  now rewrite x4_v000, x4_0v00, x4_00v0, x4_000v.
Qed.
