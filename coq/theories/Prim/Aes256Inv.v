(* AES decryption inverts AES encryption - proved for the Gallina AES of Prim/Aes256.v:
     aes_dec k (aes_enc k b) = b   for every key of 16/24/32 bytes and every 16-byte block (bytes < 256).
   Ingredients: InvSubBytes.SubBytes = id (exhaustive over the 256 bytes), InvShiftRows.ShiftRows = id,
   AddRoundKey is an involution (N.lxor laws), InvMixColumns.MixColumns = id (multiplications by the
   constants are GF(2)-linear - exhaustive over pairs of bytes - plus 16 one-variable identities checked
   on all 256 bytes). *)
From Coq Require Import ZArith NArith List Lia ZifyN ZifyNat ZifyBool Bool Btauto.
From MTV Require Import Base.Bytes Prim.Xor Prim.Aes256 Prim.Aes256Facts.
Import ListNotations.
Open Scope N_scope.

Notation ok l := (bytes_ok l = true).

(* ---- AddRoundKey ---- *)
Lemma xor_into_invol s : forall k, xor_into (xor_into s k) k = s.
Proof.
  induction s as [|x s IH]; intros [|y k]; cbn [xor_into]; auto.
  rewrite N.lxor_assoc, N.lxor_nilpotent, N.lxor_0_r, IH. reflexivity.
Qed.

(* ---- ShiftRows ---- *)
Lemma inv_shift_rows_shift_rows s : inv_shift_rows (shift_rows s) = s.
Proof. do 17 (destruct s as [|? s]; try reflexivity). Qed.

(* ---- SubBytes ---- *)
Lemma inv_sub_bytes_sub_bytes s : ok s -> inv_sub_bytes (sub_bytes s) = s.
Proof.
  unfold inv_sub_bytes, sub_bytes. induction s as [|x s IH]; intros H; [reflexivity|].
  apply ok_cons in H as [Hx Hs]. cbn [map]. rewrite isbox_sbox, IH by assumption. reflexivity.
Qed.

(* ---- MixColumns ---- *)
Lemma x4_transpose a0 a1 a2 a3 b0 b1 b2 b3 c0 c1 c2 c3 d0 d1 d2 d3 :
  x4 (x4 a0 a1 a2 a3) (x4 b0 b1 b2 b3) (x4 c0 c1 c2 c3) (x4 d0 d1 d2 d3) =
  x4 (x4 a0 b0 c0 d0) (x4 a1 b1 c1 d1) (x4 a2 b2 c2 d2) (x4 a3 b3 c3 d3).
Proof. unfold x4. apply N.bits_inj. intro n. rewrite !N.lxor_spec. btauto. Qed.

Lemma x4_v000 v : x4 v 0 0 0 = v.
Proof. unfold x4. now rewrite !N.lxor_0_r. Qed.
Lemma x4_0v00 v : x4 0 v 0 0 = v.
Proof. unfold x4. now rewrite N.lxor_0_l, !N.lxor_0_r. Qed.
Lemma x4_00v0 v : x4 0 0 v 0 = v.
Proof. unfold x4. now rewrite N.lxor_0_l, N.lxor_0_r. Qed.
Lemma x4_000v v : x4 0 0 0 v = v.
Proof. unfold x4. now rewrite !N.lxor_0_l. Qed.

Definition linear (f : N -> N) : Prop :=
  forall a b, a < 256 -> b < 256 -> f (N.lxor a b) = N.lxor (f a) (f b).

Definition linear_check (f : N -> N) : bool :=
  forallb (fun a => forallb (fun b => f (N.lxor a b) =? N.lxor (f a) (f b)) all_bytes) all_bytes.

Lemma linear_of_check f : linear_check f = true -> linear f.
Proof.
  intros H a b Ha Hb. unfold linear_check in H.
  pose proof (forall_byte _ H a Ha) as H1. cbv beta in H1.
  pose proof (forall_byte _ H1 b Hb) as H2. cbv beta in H2. now apply N.eqb_eq.
Qed.

Lemma mul9_linear : linear mul9.   Proof. apply linear_of_check. vm_compute. reflexivity. Qed.
Lemma mul11_linear : linear mul11. Proof. apply linear_of_check. vm_compute. reflexivity. Qed.
Lemma mul13_linear : linear mul13. Proof. apply linear_of_check. vm_compute. reflexivity. Qed.
Lemma mul14_linear : linear mul14. Proof. apply linear_of_check. vm_compute. reflexivity. Qed.

Lemma linear_x4 f p q r s : linear f -> p < 256 -> q < 256 -> r < 256 -> s < 256 ->
  f (x4 p q r s) = x4 (f p) (f q) (f r) (f s).
Proof.
  intros L Hp Hq Hr Hs. unfold x4.
  rewrite L by (apply lxor_lt_256; assumption). rewrite !L by assumption. reflexivity.
Qed.

Lemma mul2_lt x : x < 256 -> mul2 x < 256.
Proof. apply xtime_lt. Qed.
Lemma mul3_lt x : x < 256 -> mul3 x < 256.
Proof. intros H. unfold mul3. apply lxor_lt_256; [apply xtime_lt|]; assumption. Qed.

(* the 16 entries of InvMix x Mix = identity matrix, each as a one-variable identity over GF(2^8) *)
Example mix_matrix_check : forallb (fun v => (x4 (mul14 (mul2 v)) (mul11 v) (mul13 v) (mul9 (mul3 v)) =? v) && (x4 (mul14 (mul3 v)) (mul11 (mul2 v)) (mul13 v) (mul9 v) =? 0) && (x4 (mul14 v) (mul11 (mul3 v)) (mul13 (mul2 v)) (mul9 v) =? 0) && (x4 (mul14 v) (mul11 v) (mul13 (mul3 v)) (mul9 (mul2 v)) =? 0) && (x4 (mul9 (mul2 v)) (mul14 v) (mul11 v) (mul13 (mul3 v)) =? 0) && (x4 (mul9 (mul3 v)) (mul14 (mul2 v)) (mul11 v) (mul13 v) =? v) && (x4 (mul9 v) (mul14 (mul3 v)) (mul11 (mul2 v)) (mul13 v) =? 0) && (x4 (mul9 v) (mul14 v) (mul11 (mul3 v)) (mul13 (mul2 v)) =? 0) && (x4 (mul13 (mul2 v)) (mul9 v) (mul14 v) (mul11 (mul3 v)) =? 0) && (x4 (mul13 (mul3 v)) (mul9 (mul2 v)) (mul14 v) (mul11 v) =? 0) && (x4 (mul13 v) (mul9 (mul3 v)) (mul14 (mul2 v)) (mul11 v) =? v) && (x4 (mul13 v) (mul9 v) (mul14 (mul3 v)) (mul11 (mul2 v)) =? 0) && (x4 (mul11 (mul2 v)) (mul13 v) (mul9 v) (mul14 (mul3 v)) =? 0) && (x4 (mul11 (mul3 v)) (mul13 (mul2 v)) (mul9 v) (mul14 v) =? 0) && (x4 (mul11 v) (mul13 (mul3 v)) (mul9 (mul2 v)) (mul14 v) =? 0) && (x4 (mul11 v) (mul13 v) (mul9 (mul3 v)) (mul14 (mul2 v)) =? v)) all_bytes = true.
Proof. vm_compute. reflexivity. Qed.

Lemma mix_matrix v : v < 256 ->
  x4 (mul14 (mul2 v)) (mul11 v) (mul13 v) (mul9 (mul3 v)) = v /\
  x4 (mul14 (mul3 v)) (mul11 (mul2 v)) (mul13 v) (mul9 v) = 0 /\
  x4 (mul14 v) (mul11 (mul3 v)) (mul13 (mul2 v)) (mul9 v) = 0 /\
  x4 (mul14 v) (mul11 v) (mul13 (mul3 v)) (mul9 (mul2 v)) = 0 /\
  x4 (mul9 (mul2 v)) (mul14 v) (mul11 v) (mul13 (mul3 v)) = 0 /\
  x4 (mul9 (mul3 v)) (mul14 (mul2 v)) (mul11 v) (mul13 v) = v /\
  x4 (mul9 v) (mul14 (mul3 v)) (mul11 (mul2 v)) (mul13 v) = 0 /\
  x4 (mul9 v) (mul14 v) (mul11 (mul3 v)) (mul13 (mul2 v)) = 0 /\
  x4 (mul13 (mul2 v)) (mul9 v) (mul14 v) (mul11 (mul3 v)) = 0 /\
  x4 (mul13 (mul3 v)) (mul9 (mul2 v)) (mul14 v) (mul11 v) = 0 /\
  x4 (mul13 v) (mul9 (mul3 v)) (mul14 (mul2 v)) (mul11 v) = v /\
  x4 (mul13 v) (mul9 v) (mul14 (mul3 v)) (mul11 (mul2 v)) = 0 /\
  x4 (mul11 (mul2 v)) (mul13 v) (mul9 v) (mul14 (mul3 v)) = 0 /\
  x4 (mul11 (mul3 v)) (mul13 (mul2 v)) (mul9 v) (mul14 v) = 0 /\
  x4 (mul11 v) (mul13 (mul3 v)) (mul9 (mul2 v)) (mul14 v) = 0 /\
  x4 (mul11 v) (mul13 v) (mul9 (mul3 v)) (mul14 (mul2 v)) = v.
Proof.
  intros H. pose proof (forall_byte _ mix_matrix_check v H) as Hc. cbv beta in Hc.
  repeat (apply andb_true_iff in Hc as [Hc ?]).
  repeat split; now apply N.eqb_eq.
Qed.

Local Opaque mul2 mul3 mul9 mul11 mul13 mul14 x4.

Lemma inv_mix_column a b c d : a < 256 -> b < 256 -> c < 256 -> d < 256 ->
  inv_mix_columns (mix_columns [a; b; c; d]) = [a; b; c; d].
Proof.
  intros Ha Hb Hc Hd. cbn [mix_columns inv_mix_columns].
  pose proof (mul2_lt a Ha). pose proof (mul2_lt b Hb). pose proof (mul2_lt c Hc). pose proof (mul2_lt d Hd).
  pose proof (mul3_lt a Ha). pose proof (mul3_lt b Hb). pose proof (mul3_lt c Hc). pose proof (mul3_lt d Hd).
  rewrite (linear_x4 mul9 (mul2 a) (mul3 b) c d mul9_linear) by assumption.
  rewrite (linear_x4 mul9 a (mul2 b) (mul3 c) d mul9_linear) by assumption.
  rewrite (linear_x4 mul9 a b (mul2 c) (mul3 d) mul9_linear) by assumption.
  rewrite (linear_x4 mul9 (mul3 a) b c (mul2 d) mul9_linear) by assumption.
  rewrite (linear_x4 mul11 (mul2 a) (mul3 b) c d mul11_linear) by assumption.
  rewrite (linear_x4 mul11 a (mul2 b) (mul3 c) d mul11_linear) by assumption.
  rewrite (linear_x4 mul11 a b (mul2 c) (mul3 d) mul11_linear) by assumption.
  rewrite (linear_x4 mul11 (mul3 a) b c (mul2 d) mul11_linear) by assumption.
  rewrite (linear_x4 mul13 (mul2 a) (mul3 b) c d mul13_linear) by assumption.
  rewrite (linear_x4 mul13 a (mul2 b) (mul3 c) d mul13_linear) by assumption.
  rewrite (linear_x4 mul13 a b (mul2 c) (mul3 d) mul13_linear) by assumption.
  rewrite (linear_x4 mul13 (mul3 a) b c (mul2 d) mul13_linear) by assumption.
  rewrite (linear_x4 mul14 (mul2 a) (mul3 b) c d mul14_linear) by assumption.
  rewrite (linear_x4 mul14 a (mul2 b) (mul3 c) d mul14_linear) by assumption.
  rewrite (linear_x4 mul14 a b (mul2 c) (mul3 d) mul14_linear) by assumption.
  rewrite (linear_x4 mul14 (mul3 a) b c (mul2 d) mul14_linear) by assumption.
  destruct (mix_matrix a Ha) as (A0 & A1 & A2 & A3 & A4 & A5 & A6 & A7 & A8 & A9 & A10 & A11 & A12 & A13 & A14 & A15).
  destruct (mix_matrix b Hb) as (B0 & B1 & B2 & B3 & B4 & B5 & B6 & B7 & B8 & B9 & B10 & B11 & B12 & B13 & B14 & B15).
  destruct (mix_matrix c Hc) as (C0 & C1 & C2 & C3 & C4 & C5 & C6 & C7 & C8 & C9 & C10 & C11 & C12 & C13 & C14 & C15).
  destruct (mix_matrix d Hd) as (D0 & D1 & D2 & D3 & D4 & D5 & D6 & D7 & D8 & D9 & D10 & D11 & D12 & D13 & D14 & D15).
  f_equal; [|f_equal; [|f_equal; [|f_equal]]]; rewrite x4_transpose.
  - rewrite A0, B1, C2, D3. apply x4_v000.
  - rewrite A4, B5, C6, D7. apply x4_0v00.
  - rewrite A8, B9, C10, D11. apply x4_00v0.
  - rewrite A12, B13, C14, D15. apply x4_000v.
Qed.

Lemma inv_mix_mix : forall n s, (length s <= n)%nat -> ok s -> inv_mix_columns (mix_columns s) = s.
Proof.
  induction n as [|n IH]; intros s Hl Hs.
  - destruct s; [reflexivity|cbn [length] in Hl; lia].
  - destruct s as [|a [|b [|c [|d r]]]]; try reflexivity.
    rewrite !ok_cons in Hs. destruct Hs as (Ha & Hb & Hc & Hd & Hr).
    pose proof (inv_mix_column a b c d Ha Hb Hc Hd) as Hcol.
    cbn [mix_columns inv_mix_columns] in Hcol |- *.
    injection Hcol as E0 E1 E2 E3. rewrite E0, E1, E2, E3.
    rewrite IH; [reflexivity|cbn [length] in Hl; lia|exact Hr].
Qed.

(* ---- rounds ---- *)
Definition estep (s k : bytes) : bytes := add_round_key (mix_columns (shift_rows (sub_bytes s))) k.
Definition dstep (t k : bytes) : bytes := inv_mix_columns (add_round_key (inv_sub_bytes (inv_shift_rows t)) k).

Lemma enc_rounds_snoc mid : forall s kN,
  enc_rounds s (mid ++ [kN]) = add_round_key (shift_rows (sub_bytes (fold_left estep mid s))) kN.
Proof.
  induction mid as [|k m IH]; intros s kN; [reflexivity|].
  destruct m as [|k' m'].
  - reflexivity.
  - change (enc_rounds s ((k :: k' :: m') ++ [kN])) with (enc_rounds (estep s k) ((k' :: m') ++ [kN])).
    rewrite IH. reflexivity.
Qed.

Lemma dec_rounds_snoc rm : forall t k0,
  dec_rounds t (rm ++ [k0]) = add_round_key (inv_sub_bytes (inv_shift_rows (fold_left dstep rm t))) k0.
Proof.
  induction rm as [|k m IH]; intros t k0; [reflexivity|].
  destruct m as [|k' m'].
  - reflexivity.
  - change (dec_rounds t ((k :: k' :: m') ++ [k0])) with (dec_rounds (dstep t k) ((k' :: m') ++ [k0])).
    rewrite IH. reflexivity.
Qed.

Lemma estep_ok s k : ok k -> ok (estep s k).
Proof.
  intros Hk. unfold estep, add_round_key. apply xor_into_bytes_ok; [|exact Hk].
  eapply ok_mix_columns; [apply le_n|]. apply ok_shift_rows, ok_map_sbox.
Qed.

Lemma fold_estep_ok mid : forall s, ok s -> Forall (fun k => ok k) mid -> ok (fold_left estep mid s).
Proof.
  induction mid as [|k m IH]; intros s Hs Hm; [exact Hs|].
  apply Forall_cons_iff in Hm as [Hk Hm]. cbn [fold_left]. apply IH; [apply estep_ok, Hk|exact Hm].
Qed.

Lemma peel mid : forall s, ok s -> Forall (fun k => ok k) mid ->
  fold_left dstep (rev mid) (shift_rows (sub_bytes (fold_left estep mid s))) = shift_rows (sub_bytes s).
Proof.
  induction mid as [|k m IH] using rev_ind; intros s Hs Hm; [reflexivity|].
  apply Forall_app in Hm as [Hm Hk]. apply Forall_cons_iff in Hk as [Hk _].
  rewrite fold_left_app, rev_unit. cbn [fold_left].
  set (u := fold_left estep m s).
  assert (Hu : ok u) by (apply fold_estep_ok; assumption).
  assert (Hd : dstep (shift_rows (sub_bytes (estep u k))) k = shift_rows (sub_bytes u)).
  { unfold dstep. rewrite inv_shift_rows_shift_rows.
    rewrite inv_sub_bytes_sub_bytes by (apply estep_ok, Hk).
    unfold estep, add_round_key. rewrite xor_into_invol.
    eapply inv_mix_mix; [apply le_n|]. apply ok_shift_rows, ok_map_sbox. }
  rewrite Hd. apply IH; assumption.
Qed.

Theorem cipher_inv rk b : (2 <= length rk)%nat -> Forall (fun k => ok k) rk -> ok b ->
  cipher_dec rk (cipher_enc rk b) = b.
Proof.
  intros Hl Hrk Hb. destruct rk as [|k0 rest]; [cbn [length] in Hl; lia|].
  destruct (exists_last (l := rest)) as (mid & kN & ->); [intros ->; cbn [length] in Hl; lia|].
  apply Forall_cons_iff in Hrk as [H0 Hrk]. apply Forall_app in Hrk as [Hmid HN].
  apply Forall_cons_iff in HN as [HN _].
  unfold cipher_enc, cipher_dec. rewrite enc_rounds_snoc.
  cbn [rev]. rewrite rev_unit. cbn [app].
  rewrite dec_rounds_snoc. unfold add_round_key at 2 3. rewrite xor_into_invol.
  assert (Hs : ok (add_round_key b k0)) by (apply xor_into_bytes_ok; assumption).
  rewrite peel by assumption.
  rewrite inv_shift_rows_shift_rows, inv_sub_bytes_sub_bytes by exact Hs.
  unfold add_round_key. apply xor_into_invol.
Qed.

(* ---- number of round keys ---- *)
Lemma expand_key_length n : forall nk i rc rw, length (expand_key n nk i rc rw) = (n + length rw)%nat.
Proof.
  induction n as [|n IH]; intros; cbn [expand_key]; [reflexivity|]. rewrite IH. cbn [length]. lia.
Qed.

Lemma words4_length : forall n k, length k = (4 * n)%nat -> length (words4 k) = n.
Proof.
  induction n as [|n IH]; intros k Hk.
  - destruct k; [reflexivity|discriminate].
  - destruct k as [|a [|b [|c [|d r]]]]; try (cbn [length] in Hk; lia).
    cbn [words4 length]. f_equal. apply IH. cbn [length] in Hk. lia.
Qed.

Lemma group_keys_length : forall n (ws : list bytes), length ws = (4 * n)%nat -> length (group_keys ws) = n.
Proof.
  induction n as [|n IH]; intros ws Hw.
  - destruct ws; [reflexivity|discriminate].
  - destruct ws as [|a [|b [|c [|d r]]]]; try (cbn [length] in Hw; lia).
    cbn [group_keys length]. f_equal. apply IH. cbn [length] in Hw. lia.
Qed.

Lemma round_keys_count key nk : length key = (4 * nk)%nat -> key_len_ok key = true ->
  length (round_keys key) = (nk + 7)%nat.
Proof.
  intros Hk Hok. unfold round_keys. rewrite Hok.
  replace (Nat.div (length key) 4) with nk by (rewrite Hk, Nat.mul_comm, Nat.div_mul; lia).
  apply group_keys_length. rewrite rev_length, expand_key_length, rev_length, (words4_length nk key Hk). lia.
Qed.

Lemma round_keys_ge2 key : key_len_ok key = true -> (2 <= length (round_keys key))%nat.
Proof.
  intros Hok. pose proof Hok as H. unfold key_len_ok in H.
  apply orb_true_iff in H as [H|H]; [apply orb_true_iff in H as [H|H]|]; apply Nat.eqb_eq in H.
  - rewrite (round_keys_count key 4); [lia|rewrite H; reflexivity|exact Hok].
  - rewrite (round_keys_count key 6); [lia|rewrite H; reflexivity|exact Hok].
  - rewrite (round_keys_count key 8); [lia|rewrite H; reflexivity|exact Hok].
Qed.

(* ---- AES decryption inverts AES encryption ---- *)
Theorem aes_dec_enc key blk :
  key_len_ok key = true -> ok key -> length blk = 16%nat -> ok blk ->
  aes_dec key (aes_enc key blk) = blk.
Proof.
  intros Hk Hko Hl Hb.
  pose proof (aes_enc_length key blk) as Hel.
  unfold aes_dec. rewrite Hel, Hk. cbn [Nat.eqb andb].
  unfold aes_enc. rewrite Hl, Hk. cbn [Nat.eqb andb].
  apply cipher_inv; [apply round_keys_ge2, Hk|apply round_keys_ok, Hko|exact Hb].
Qed.

Corollary aes256_dec_enc key blk :
  length key = 32%nat -> ok key -> length blk = 16%nat -> ok blk -> aes_dec key (aes_enc key blk) = blk.
Proof. intros Hk. apply aes_dec_enc. unfold key_len_ok. rewrite Hk. reflexivity. Qed.
