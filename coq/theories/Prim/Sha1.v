(* SHA-1 (FIPS 180-4) over byte lists, executable.  Words are N below 2^32.
   This is the *execution instance* of crypto/sha1 (dry.Sha1Byte) for the models: the theorems
   of the properties take the hash as a Section variable with exactly the facts they need
   (output length 20, bytes below 256 - both proved here unconditionally); that this function
   is SHA-1 is validated by the FIPS known answers below and by every correspondence run
   (the Go side calls crypto/sha1).
   Speed (extracted, ExtrOcamlBasic): 64 kB in well under a second. *)
From Coq Require Import String.
From Coq Require Import ZArith NArith List Lia ZifyN ZifyNat ZifyBool Bool.
From MTV Require Import Base.Bytes Base.Str Prim.Hex.
Import ListNotations.
Open Scope N_scope.
Ltac Zify.zify_post_hook ::= Z.div_mod_to_equations.

Definition mask32 : N := 4294967295.
Definition rotl32 (n x : N) : N :=
  N.land (N.lor (N.shiftl x n) (N.shiftr x (32 - n))) mask32.

(* big-endian 32-bit word <-> 4 bytes *)
Definition be32 (w : N) : bytes :=
  [(w / 16777216) mod 256; (w / 65536) mod 256; (w / 256) mod 256; w mod 256].
Definition word_of (a b c d : N) : N := ((a * 256 + b) * 256 + c) * 256 + d.

Fixpoint to_words (l : bytes) : list N :=
  match l with
  | a :: b :: c :: d :: r => word_of a b c d :: to_words r
  | _ => []
  end.

Definition be64 (n : N) : bytes := be32 ((n / 4294967296) mod 4294967296) ++ be32 (n mod 4294967296).

(* message ++ 0x80 ++ zeros ++ 64-bit big-endian bit length; total length = 0 mod 64 *)
Definition pad_len (len : N) : N := (64 - ((len + 9) mod 64)) mod 64.
Definition sha_pad (m : bytes) : bytes :=
  let len := blen m in
  m ++ 128 :: zeros (pad_len len) ++ be64 (8 * len).

Definition st5 : Type := (N * N * N * N * N)%type.

Definition sha1_init : st5 := (1732584193, 4023233417, 2562383102, 271733878, 3285377520).

(* message schedule, kept reversed (most recent word first) *)
Fixpoint sha1_expand (n : nat) (rw : list N) : list N :=
  match n with
  | O => rw
  | S n' =>
      match rw with
      | _ :: _ :: w3 :: _ :: _ :: _ :: _ :: w8 :: _ :: _ :: _ :: _ :: _ :: w14 :: _ :: w16 :: _ =>
          sha1_expand n' (rotl32 1 (N.lxor (N.lxor w3 w8) (N.lxor w14 w16)) :: rw)
      | _ => rw
      end
  end.

Definition sha1_step (t : nat) (w : N) (s : st5) : st5 :=
  let '(a, b, c, d, e) := s in
  let fk :=
    if Nat.ltb t 20 then (N.lor (N.land b c) (N.ldiff d b), 1518500249)
    else if Nat.ltb t 40 then (N.lxor (N.lxor b c) d, 1859775393)
    else if Nat.ltb t 60 then (N.lor (N.lor (N.land b c) (N.land b d)) (N.land c d), 2400959708)
    else (N.lxor (N.lxor b c) d, 3395469782) in
  (N.land (rotl32 5 a + fst fk + e + snd fk + w) mask32, a, rotl32 30 b, c, d).

Fixpoint sha1_rounds (t : nat) (ws : list N) (s : st5) : st5 :=
  match ws with
  | [] => s
  | w :: r => sha1_rounds (S t) r (sha1_step t w s)
  end.

Definition sha1_block (h : st5) (blk : list N) : st5 :=
  let w := rev (sha1_expand 64 (rev blk)) in
  let '(a, b, c, d, e) := sha1_rounds 0 w h in
  let '(h0, h1, h2, h3, h4) := h in
  (N.land (h0 + a) mask32, N.land (h1 + b) mask32, N.land (h2 + c) mask32,
   N.land (h3 + d) mask32, N.land (h4 + e) mask32).

Fixpoint sha1_blocks (ws : list N) (h : st5) : st5 :=
  match ws with
  | w0 :: w1 :: w2 :: w3 :: w4 :: w5 :: w6 :: w7 :: w8 :: w9 :: w10 :: w11 :: w12 :: w13 :: w14 :: w15 :: r =>
      sha1_blocks r (sha1_block h [w0; w1; w2; w3; w4; w5; w6; w7; w8; w9; w10; w11; w12; w13; w14; w15])
  | _ => h
  end.

Definition sha1 (m : bytes) : bytes :=
  let '(h0, h1, h2, h3, h4) := sha1_blocks (to_words (sha_pad m)) sha1_init in
  be32 h0 ++ be32 h1 ++ be32 h2 ++ be32 h3 ++ be32 h4.

(* ---- facts every user needs (unconditional) ---- *)

Lemma be32_bytes_ok w : bytes_ok (be32 w) = true.
Proof.
  unfold bytes_ok, be32, byte_ok. cbn [forallb].
  repeat (rewrite andb_true_iff; split); try reflexivity; apply N.ltb_lt; lia.
Qed.

Lemma bytes_ok_app a b : bytes_ok (a ++ b) = bytes_ok a && bytes_ok b.
Proof. unfold bytes_ok. apply forallb_app. Qed.

Lemma sha1_length m : length (sha1 m) = 20%nat.
Proof.
  unfold sha1. destruct (sha1_blocks _ _) as [[[[h0 h1] h2] h3] h4]. reflexivity.
Qed.

Lemma sha1_bytes_ok m : bytes_ok (sha1 m) = true.
Proof.
  unfold sha1. destruct (sha1_blocks _ _) as [[[[h0 h1] h2] h3] h4].
  rewrite !bytes_ok_app, !be32_bytes_ok. reflexivity.
Qed.

Lemma sha1_byte_range m b : In b (sha1 m) -> b < 256.
Proof.
  intros H. pose proof (sha1_bytes_ok m) as Hok. unfold bytes_ok in Hok.
  rewrite forallb_forall in Hok. apply Hok in H. unfold byte_ok in H. now apply N.ltb_lt.
Qed.

Lemma sha_pad_length m : (length (sha_pad m) mod 64 = 0)%nat.
Proof.
  unfold sha_pad. rewrite app_length. cbn [length]. rewrite app_length.
  unfold zeros. rewrite repeat_length. unfold be64. rewrite app_length. cbn [be32 length].
  unfold pad_len, blen. set (n := length m).
  assert (H : N.to_nat ((64 - (N.of_nat n + 9) mod 64) mod 64) = ((64 - (n + 9) mod 64) mod 64)%nat) by lia.
  rewrite H. lia.
Qed.

(* ---- FIPS 180 known answers ---- *)

Example sha1_kat_empty : sha1 [] = hex "da39a3ee5e6b4b0d3255bfef95601890afd80709".
Proof. vm_compute. reflexivity. Qed.

Example sha1_kat_abc : sha1 (lit "abc") = hex "a9993e364706816aba3e25717850c26c9cd0d89d".
Proof. vm_compute. reflexivity. Qed.

Example sha1_kat_448 :
  sha1 (lit "abcdbcdecdefdefgefghfghighijhijkijkljklmklmnlmnomnopnopq")
  = hex "84983e441c3bd26ebaae4aa1f95129e5e54670f1".
Proof. vm_compute. reflexivity. Qed.

Example sha1_kat_896 :
  sha1 (lit "abcdefghbcdefghicdefghijdefghijkefghijklfghijklmghijklmnhijklmnoijklmnopjklmnopqklmnopqrlmnopqrsmnopqrstnopqrstu")
  = hex "a49b2446a02c645bf419f995b67091253a04a259".
Proof. vm_compute. reflexivity. Qed.

(* exactly one block of data, so the padding fills a second block (reference value from crypto/sha1) *)
Example sha1_kat_64 :
  sha1 (repeat 97 64) = hex "0098ba824b5c16427bd7a1122a5a442a25ec644d".
Proof. vm_compute. reflexivity. Qed.
