(* Facts about Prim/Aes256.v kept out of the model file:
   - the S-box tables equal their FIPS-197 definition (multiplicative inverse in GF(2^8), affine map),
   - byte ranges: with a key of bytes and a block of bytes, aes_enc / aes_dec return bytes. *)
From Coq Require Import ZArith NArith List Lia ZifyN ZifyNat ZifyBool Bool.
From MTV Require Import Base.Bytes Prim.Xor Prim.Aes256.
Import ListNotations.
Open Scope N_scope.

(* ---- S-box = affine (inverse) ---- *)
Fixpoint gf_mul_fuel (f : nat) (a b : N) : N :=
  match f with
  | O => 0
  | S f' => N.lxor (if N.odd b then a else 0) (gf_mul_fuel f' (xtime a) (N.div2 b))
  end.
Definition gf_mul (a b : N) : N := gf_mul_fuel 8 a b.
Definition gf_sq (a : N) := gf_mul a a.
(* a^254 = a^-1 (and 0 for 0) *)
Definition gf_inv (a : N) : N :=
  let a2 := gf_sq a in let a4 := gf_sq a2 in let a8 := gf_sq a4 in let a16 := gf_sq a8 in
  let a32 := gf_sq a16 in let a64 := gf_sq a32 in let a128 := gf_sq a64 in
  gf_mul a128 (gf_mul a64 (gf_mul a32 (gf_mul a16 (gf_mul a8 (gf_mul a4 a2))))).
Definition rotl8 (x n : N) : N := N.land (N.lor (N.shiftl x n) (N.shiftr x (8 - n))) 255.
Definition affine (b : N) : N :=
  N.lxor (N.lxor (N.lxor (N.lxor (N.lxor b (rotl8 b 1)) (rotl8 b 2)) (rotl8 b 3)) (rotl8 b 4)) 99.

Example gf_inv_is_inverse : forallb (fun x => (x =? 0) || (gf_mul x (gf_inv x) =? 1)) all_bytes = true.
Proof. vm_compute. reflexivity. Qed.

Example sbox_is_definition : forallb (fun x => sbox x =? affine (gf_inv x)) all_bytes = true.
Proof. vm_compute. reflexivity. Qed.

Lemma sbox_definition x : x < 256 -> sbox x = affine (gf_inv x).
Proof. intros H. apply N.eqb_eq. exact (forall_byte _ sbox_is_definition x H). Qed.

(* ---- ranges ---- *)
Example sbox_tab_range : forallb (fun x => (sbox_tab x <? 256) && (isbox_tab x <? 256)) all_bytes = true.
Proof. vm_compute. reflexivity. Qed.

Lemma sbox_lt x : sbox x < 256.
Proof.
  unfold sbox. destruct (N.ltb_spec x 256) as [H|H]; [|lia].
  pose proof (forall_byte _ sbox_tab_range x H) as Hc. apply andb_true_iff in Hc as [Hc _]. now apply N.ltb_lt.
Qed.

Lemma isbox_lt x : isbox x < 256.
Proof.
  unfold isbox. destruct (N.ltb_spec x 256) as [H|H]; [|lia].
  pose proof (forall_byte _ sbox_tab_range x H) as Hc. apply andb_true_iff in Hc as [_ Hc]. now apply N.ltb_lt.
Qed.

Lemma xtime_lt x : x < 256 -> xtime x < 256.
Proof.
  intros H.
  assert (Hc : forallb (fun x => xtime x <? 256) all_bytes = true) by (vm_compute; reflexivity).
  apply N.ltb_lt. exact (forall_byte _ Hc x H).
Qed.

Notation ok l := (bytes_ok l = true).

Lemma ok_cons x l : ok (x :: l) <-> x < 256 /\ ok l.
Proof. unfold bytes_ok, byte_ok. cbn [forallb]. rewrite andb_true_iff, N.ltb_lt. reflexivity. Qed.

Lemma ok_app a b : ok (a ++ b) <-> ok a /\ ok b.
Proof. unfold bytes_ok. rewrite forallb_app, andb_true_iff. reflexivity. Qed.

Lemma ok_map_sbox s : ok (map sbox s).
Proof. induction s as [|x s IH]; [reflexivity|]. cbn [map]. apply ok_cons. split; [apply sbox_lt|exact IH]. Qed.

Lemma ok_map_isbox s : ok (map isbox s).
Proof. induction s as [|x s IH]; [reflexivity|]. cbn [map]. apply ok_cons. split; [apply isbox_lt|exact IH]. Qed.

Lemma ok_in l : ok l <-> forall x, In x l -> x < 256.
Proof.
  unfold bytes_ok. rewrite forallb_forall. unfold byte_ok.
  split; intros H x Hx; specialize (H x Hx); now apply N.ltb_lt.
Qed.

Lemma shift_rows_in s x : In x (shift_rows s) -> In x s.
Proof.
  do 17 (destruct s as [|? s]; try (intros H; exact H)).
  cbn [shift_rows In]. intuition.
Qed.

Lemma inv_shift_rows_in s x : In x (inv_shift_rows s) -> In x s.
Proof.
  do 17 (destruct s as [|? s]; try (intros H; exact H)).
  cbn [inv_shift_rows In]. intuition.
Qed.

Lemma ok_shift_rows s : ok s -> ok (shift_rows s).
Proof. rewrite !ok_in. intros H x Hx. apply H, shift_rows_in, Hx. Qed.

Lemma ok_inv_shift_rows s : ok s -> ok (inv_shift_rows s).
Proof. rewrite !ok_in. intros H x Hx. apply H, inv_shift_rows_in, Hx. Qed.

Lemma ok_nth (l : list bytes) n : Forall (fun w => ok w) l -> ok (nth n l []).
Proof.
  intros H. revert n. induction H as [|w l Hw _ IH]; intros [|n]; cbn [nth]; auto.
Qed.

(* ---- key schedule ---- *)
Lemma ok_rot_word w : ok w -> ok (rot_word w).
Proof.
  intros H. destruct w as [|a [|b [|c [|d [|e r]]]]]; cbn [rot_word]; try exact H.
  rewrite !ok_cons in *. tauto.
Qed.

Lemma expand_key_ok n : forall nk i rc rw,
  rc < 256 -> Forall (fun w => ok w) rw -> Forall (fun w => ok w) (expand_key n nk i rc rw).
Proof.
  induction n as [|n IH]; intros nk i rc rw Hrc Hrw; cbn [expand_key]; [exact Hrw|].
  apply IH.
  - destruct (Nat.eqb (Nat.modulo i nk) 0); [apply xtime_lt, Hrc|exact Hrc].
  - constructor; [|exact Hrw].
    apply xor_into_bytes_ok; [apply ok_nth, Hrw|].
    destruct (Nat.eqb (Nat.modulo i nk) 0).
    + apply xor_into_bytes_ok; [apply ok_map_sbox|]. apply ok_cons. split; [exact Hrc|reflexivity].
    + destruct (Nat.ltb 6 nk && Nat.eqb (Nat.modulo i nk) 4); [apply ok_map_sbox|apply ok_nth, Hrw].
Qed.

Lemma words4_ok : forall n k, (length k <= n)%nat -> ok k -> Forall (fun w => ok w) (words4 k).
Proof.
  induction n as [|n IH]; intros k Hl Hk.
  - destruct k; [constructor|cbn [length] in Hl; lia].
  - destruct k as [|a [|b [|c [|d r]]]]; try constructor.
    + rewrite !ok_cons in *. repeat split; try tauto.
    + apply IH; [cbn [length] in Hl; lia|]. rewrite !ok_cons in Hk. tauto.
Qed.

Lemma group_keys_ok : forall n ws, (length ws <= n)%nat -> Forall (fun w => ok w) ws ->
  Forall (fun w => ok w) (group_keys ws).
Proof.
  induction n as [|n IH]; intros ws Hl Hw.
  - destruct ws; [constructor|cbn [length] in Hl; lia].
  - destruct ws as [|w0 [|w1 [|w2 [|w3 r]]]]; try constructor.
    + repeat (apply Forall_cons_iff in Hw as [? Hw]). rewrite !ok_app. tauto.
    + apply IH; [cbn [length] in Hl; lia|]. repeat (apply Forall_cons_iff in Hw as [? Hw]). exact Hw.
Qed.

Lemma round_keys_ok key : ok key -> Forall (fun w => ok w) (round_keys key).
Proof.
  intros Hk. unfold round_keys. destruct (key_len_ok key); [|constructor].
  eapply group_keys_ok; [apply le_n|]. apply Forall_rev. apply expand_key_ok; [lia|].
  apply Forall_rev. eapply words4_ok; [apply le_n|exact Hk].
Qed.

Lemma ok_mix_columns : forall n t, (length t <= n)%nat -> ok t -> ok (mix_columns t).
Proof.
  induction n as [|n IHn]; intros t Hl Ht.
  - destruct t; [reflexivity|cbn [length] in Hl; lia].
  - destruct t as [|a [|b [|c [|d r]]]]; try exact Ht.
    cbn [mix_columns]. rewrite !ok_cons in *. destruct Ht as (Ha & Hb & Hc & Hd & Hr).
    unfold x4, mul2, mul3.
    repeat split; try (repeat apply lxor_lt_256; try apply xtime_lt; assumption).
    apply IHn; [cbn [length] in Hl; lia|exact Hr].
Qed.

Lemma ok_inv_mix_columns : forall n t, (length t <= n)%nat -> ok t -> ok (inv_mix_columns t).
Proof.
  induction n as [|n IHn]; intros t Hl Ht.
  - destruct t; [reflexivity|cbn [length] in Hl; lia].
  - destruct t as [|a [|b [|c [|d r]]]]; try exact Ht.
    cbn [inv_mix_columns]. rewrite !ok_cons in *. destruct Ht as (Ha & Hb & Hc & Hd & Hr).
    unfold x4, mul9, mul11, mul13, mul14.
    repeat split; try (repeat apply lxor_lt_256; repeat apply xtime_lt; assumption).
    apply IHn; [cbn [length] in Hl; lia|exact Hr].
Qed.

(* ---- the cipher ---- *)
Lemma enc_rounds_ok rks : forall s, ok s -> Forall (fun w => ok w) rks -> ok (enc_rounds s rks).
Proof.
  induction rks as [|k r IH]; intros s Hs Hr; [exact Hs|].
  apply Forall_cons_iff in Hr as [Hk Hr].
  destruct r as [|k' r'].
  - cbn [enc_rounds]. apply xor_into_bytes_ok; [|exact Hk]. apply ok_shift_rows, ok_map_sbox.
  - change (enc_rounds s (k :: k' :: r')) with
      (enc_rounds (add_round_key (mix_columns (shift_rows (sub_bytes s))) k) (k' :: r')).
    apply IH; [|exact Hr]. apply xor_into_bytes_ok; [|exact Hk].
    eapply ok_mix_columns; [apply le_n|]. apply ok_shift_rows, ok_map_sbox.
Qed.

Lemma dec_rounds_ok rks : forall s, ok s -> Forall (fun w => ok w) rks -> ok (dec_rounds s rks).
Proof.
  induction rks as [|k r IH]; intros s Hs Hr; [exact Hs|].
  apply Forall_cons_iff in Hr as [Hk Hr].
  destruct r as [|k' r'].
  - cbn [dec_rounds]. apply xor_into_bytes_ok; [|exact Hk]. apply ok_map_isbox.
  - change (dec_rounds s (k :: k' :: r')) with
      (dec_rounds (inv_mix_columns (add_round_key (inv_sub_bytes (inv_shift_rows s)) k)) (k' :: r')).
    apply IH; [|exact Hr].
    eapply ok_inv_mix_columns; [apply le_n|]. apply xor_into_bytes_ok; [apply ok_map_isbox|exact Hk].
Qed.

Theorem aes_enc_bytes_ok key blk : ok key -> ok blk -> ok (aes_enc key blk).
Proof.
  intros Hk Hb. unfold aes_enc. destruct (Nat.eqb (length blk) 16 && key_len_ok key); [|reflexivity].
  pose proof (round_keys_ok key Hk) as Hr. unfold cipher_enc.
  destruct (round_keys key) as [|k0 rks]; [exact Hb|].
  apply Forall_cons_iff in Hr as [H0 Hr].
  apply enc_rounds_ok; [|exact Hr]. apply xor_into_bytes_ok; assumption.
Qed.

Theorem aes_dec_bytes_ok key blk : ok key -> ok blk -> ok (aes_dec key blk).
Proof.
  intros Hk Hb. unfold aes_dec. destruct (Nat.eqb (length blk) 16 && key_len_ok key); [|reflexivity].
  pose proof (Forall_rev (round_keys_ok key Hk)) as Hr. unfold cipher_dec.
  destruct (rev (round_keys key)) as [|k0 rks]; [exact Hb|].
  apply Forall_cons_iff in Hr as [H0 Hr].
  apply dec_rounds_ok; [|exact Hr]. apply xor_into_bytes_ok; assumption.
Qed.
