(* Hex literals for known-answer tests:  hex "0a ff"  =  [10; 255].
   Characters that are not hex digits (spaces) are skipped; a dangling nibble is dropped. *)
From Coq Require Import Ascii String.
From Coq Require Import NArith List Bool.
From MTV Require Import Base.Bytes.
Import ListNotations.
Open Scope N_scope.

Definition hexdigit (c : ascii) : option N :=
  let n := N_of_ascii c in
  if (48 <=? n) && (n <=? 57) then Some (n - 48)
  else if (97 <=? n) && (n <=? 102) then Some (n - 87)
  else if (65 <=? n) && (n <=? 70) then Some (n - 55)
  else None.

Fixpoint hex_go (hi : option N) (s : string) : bytes :=
  match s with
  | EmptyString => []
  | String c r =>
      match hexdigit c, hi with
      | None, _ => hex_go hi r
      | Some d, None => hex_go (Some d) r
      | Some d, Some h => (16 * h + d) :: hex_go None r
      end
  end.

Definition hex (s : string) : bytes := hex_go None s.
