(* CRC-32 (IEEE 802.3, reflected, as hash/crc32.ChecksumIEEE) over byte lists. *)
From Coq Require Import NArith List.
Import ListNotations.
Open Scope N_scope.

Definition crc_poly : N := 3988292384. (* 0xEDB88320 *)

Definition crc_step (c : N) : N :=
  if N.testbit c 0 then N.lxor (N.shiftr c 1) crc_poly else N.shiftr c 1.

Definition crc_byte (c b : N) : N :=
  let c0 := N.lxor c b in
  crc_step (crc_step (crc_step (crc_step (crc_step (crc_step (crc_step (crc_step c0))))))).

Definition crc32 (l : list N) : N :=
  N.lxor (fold_left crc_byte l 4294967295) 4294967295.

(* known answers: "123456789" -> cbf43926 ; "" -> 0 ; "a" -> e8b7be43 *)
Example crc32_check : crc32 [49; 50; 51; 52; 53; 54; 55; 56; 57] = 3421780262.
Proof. vm_compute. reflexivity. Qed.
Example crc32_empty : crc32 [] = 0.
Proof. vm_compute. reflexivity. Qed.
Example crc32_a : crc32 [97] = 3904355907.
Proof. vm_compute. reflexivity. Qed.
