(* Byte-wise xor on byte lists and its algebraic laws, proved for the real N.lxor
   (the IGE theorems use these instead of assuming xor laws). *)
From Coq Require Import ZArith NArith List Lia ZifyN ZifyNat ZifyBool Bool.
From MTV Require Import Base.Bytes.
Import ListNotations.
Open Scope N_scope.

(* Go: for i := range dst { dst[i] ^= src[i] } on equal-length operands; result length = min *)
Fixpoint xorb (a b : bytes) : bytes :=
  match a, b with
  | x :: a', y :: b' => N.lxor x y :: xorb a' b'
  | _, _ => []
  end.

(* xor a key into a state: the result always has the length of the state *)
Fixpoint xor_into (dst src : bytes) : bytes :=
  match dst with
  | [] => []
  | x :: d' => match src with
               | [] => x :: d'
               | y :: s' => N.lxor x y :: xor_into d' s'
               end
  end.

Lemma xorb_length a : forall b, length (xorb a b) = Nat.min (length a) (length b).
Proof. induction a as [|x a IH]; intros [|y b]; cbn [xorb length Nat.min]; auto. Qed.

Lemma xorb_length_eq a b n : length a = n -> length b = n -> length (xorb a b) = n.
Proof. intros. rewrite xorb_length. lia. Qed.

Lemma xor_into_length d : forall s, length (xor_into d s) = length d.
Proof. induction d as [|x d IH]; intros [|y s]; cbn [xor_into length]; auto. Qed.

Lemma xor_into_xorb d : forall s, length d = length s -> xor_into d s = xorb d s.
Proof.
  induction d as [|x d IH]; intros [|y s] H; cbn [xor_into xorb length] in *; try discriminate; auto.
  f_equal. apply IH. lia.
Qed.

Lemma xorb_comm a : forall b, xorb a b = xorb b a.
Proof. induction a as [|x a IH]; intros [|y b]; cbn [xorb]; auto. rewrite N.lxor_comm, IH. reflexivity. Qed.

(* the two cancellation laws the IGE round trip needs *)
Lemma xorb_cancel_r a : forall b, length a = length b -> xorb (xorb a b) b = a.
Proof.
  induction a as [|x a IH]; intros [|y b] H; cbn [xorb length] in *; try discriminate; auto.
  rewrite N.lxor_assoc, N.lxor_nilpotent, N.lxor_0_r, IH by lia. reflexivity.
Qed.

Lemma xorb_cancel_l a b : length a = length b -> xorb b (xorb a b) = a.
Proof. intros H. rewrite (xorb_comm b). apply xorb_cancel_r, H. Qed.

Lemma xorb_cancel_l' a b : length a = length b -> xorb (xorb b a) b = a.
Proof. intros H. rewrite (xorb_comm b a). apply xorb_cancel_r, H. Qed.

Lemma xorb_zeros_r a : xorb a (repeat 0 (length a)) = a.
Proof. induction a as [|x a IH]; cbn [xorb repeat length]; auto. rewrite N.lxor_0_r, IH. reflexivity. Qed.

Lemma xorb_self a : xorb a a = repeat 0 (length a).
Proof. induction a as [|x a IH]; cbn [xorb repeat length]; auto. rewrite N.lxor_nilpotent, IH. reflexivity. Qed.

(* range *)
Lemma lxor_lt_pow2 a b n : a < 2 ^ n -> b < 2 ^ n -> N.lxor a b < 2 ^ n.
Proof.
  intros Ha Hb.
  destruct (N.eq_dec a 0) as [->|Na]; [now rewrite N.lxor_0_l|].
  destruct (N.eq_dec b 0) as [->|Nb]; [now rewrite N.lxor_0_r|].
  destruct (N.eq_dec (N.lxor a b) 0) as [->|Nx]; [lia|].
  apply N.log2_lt_pow2; [lia|].
  pose proof (N.log2_lxor a b) as H.
  apply N.log2_lt_pow2 in Ha; [|lia]. apply N.log2_lt_pow2 in Hb; [|lia]. lia.
Qed.

Lemma lxor_lt_256 a b : a < 256 -> b < 256 -> N.lxor a b < 256.
Proof. apply (lxor_lt_pow2 a b 8). Qed.

Lemma bytes_ok_forall l : bytes_ok l = true <-> Forall (fun x => x < 256) l.
Proof.
  unfold bytes_ok. rewrite forallb_forall, Forall_forall. unfold byte_ok.
  split; intros H x Hx; specialize (H x Hx); [now apply N.ltb_lt|now apply N.ltb_lt].
Qed.

Lemma xorb_bytes_ok a : forall b, bytes_ok a = true -> bytes_ok b = true -> bytes_ok (xorb a b) = true.
Proof.
  induction a as [|x a IH]; intros [|y b] Ha Hb; cbn [xorb]; auto.
  unfold bytes_ok in *. cbn [forallb] in *. apply andb_true_iff in Ha as [Hx Ha], Hb as [Hy Hb].
  apply andb_true_iff; split; [|now apply IH].
  unfold byte_ok in *. apply N.ltb_lt. apply lxor_lt_256; now apply N.ltb_lt.
Qed.

Lemma xor_into_bytes_ok a : forall b, bytes_ok a = true -> bytes_ok b = true -> bytes_ok (xor_into a b) = true.
Proof.
  induction a as [|x a IH]; intros [|y b] Ha Hb; cbn [xor_into]; auto.
  unfold bytes_ok in *. cbn [forallb] in *. apply andb_true_iff in Ha as [Hx Ha], Hb as [Hy Hb].
  apply andb_true_iff; split; [|now apply IH].
  unfold byte_ok in *. apply N.ltb_lt. apply lxor_lt_256; now apply N.ltb_lt.
Qed.

(* exhaustive checks over one byte *)
Definition all_bytes : list N := map N.of_nat (seq 0 256).

Lemma all_bytes_in x : x < 256 -> In x all_bytes.
Proof.
  intros H. unfold all_bytes. apply in_map_iff. exists (N.to_nat x). split; [lia|].
  apply in_seq. lia.
Qed.

Lemma forall_byte (P : N -> bool) : forallb P all_bytes = true -> forall x, x < 256 -> P x = true.
Proof. intros H x Hx. rewrite forallb_forall in H. apply H, all_bytes_in, Hx. Qed.
