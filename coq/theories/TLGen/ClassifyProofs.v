(* Proofs about TLGen/Classify.v:
     emit_order_independent : the descriptors of all five generated files do not depend on the order in
                              which Go iterates over its maps (under distinct constructor names)
     emit_layout            : every constructor / function of the schema is declared exactly as the schema
                              says (id, fields in order with kind, vector marker, flag bit, position of the
                              flags word), and nothing else is declared
     emit_total             : on schemas passing wf_gen the generator does not panic
     argument_map           : the body of a generated method hands argument j to the field of parameter j
     declared_nodup         : under names_ok no identifier is declared twice
   sort.Slice / sort.Strings are Section variables with the sorted-permutation hypotheses; the insertion
   sort used for execution is shown to satisfy them. *)
From Coq Require Import String.
From Coq Require Import ZArith NArith List Lia Bool Permutation Sorted RelationClasses.
From MTV Require Import Base.Bytes Base.Outcome Base.Str TLGen.Parser TLGen.Classify.
Import ListNotations.
Open Scope N_scope.

(* ---- the Go string order ---- *)

Definition str_le (a b : str) : Prop := str_leb a b = true.

Lemma str_leb_refl a : str_leb a a = true.
Proof. induction a as [|x a IH]; cbn [str_leb]; [reflexivity|]. rewrite N.ltb_irrefl. exact IH. Qed.

Lemma str_le_trans a b c : str_le a b -> str_le b c -> str_le a c.
Proof.
  unfold str_le. revert b c; induction a as [|x a IH]; intros [|y b] [|z c]; cbn [str_leb]; try congruence.
  destruct (N.ltb_spec x y), (N.ltb_spec y x), (N.ltb_spec y z), (N.ltb_spec z y), (N.ltb_spec x z), (N.ltb_spec z x);
    try congruence; try lia.
  assert (x = y) by lia. assert (y = z) by lia. subst. apply IH.
Qed.

Lemma str_le_antisym a b : str_le a b -> str_le b a -> a = b.
Proof.
  unfold str_le. revert b; induction a as [|x a IH]; intros [|y b]; cbn [str_leb]; try congruence.
  destruct (N.ltb_spec x y), (N.ltb_spec y x); try congruence; try lia.
  intros H1 H2. assert (x = y) by lia. subst. f_equal. apply IH; assumption.
Qed.

(* ---- a sorted permutation is unique when the order is antisymmetric on the elements ---- *)

Lemma sorted_perm_eq {A} (le : A -> A -> Prop) (l1 : list A) : forall l2,
  Permutation l1 l2 -> StronglySorted le l1 -> StronglySorted le l2 ->
  (forall a b, In a l1 -> In b l1 -> le a b -> le b a -> a = b) -> l1 = l2.
Proof.
  induction l1 as [|a t1 IH]; intros l2 Hp H1 H2 Hanti.
  - apply Permutation_nil in Hp. congruence.
  - destruct l2 as [|b t2]; [apply Permutation_sym, Permutation_nil in Hp; discriminate|].
    assert (a = b).
    { assert (Ha : In a (b :: t2)) by (eapply Permutation_in; [exact Hp|left; reflexivity]).
      assert (Hb : In b (a :: t1)) by (eapply Permutation_in; [apply Permutation_sym; exact Hp|left; reflexivity]).
      destruct Ha as [Ha|Ha]; [congruence|]. destruct Hb as [Hb|Hb]; [congruence|].
      apply StronglySorted_inv in H1 as [_ H1]. apply StronglySorted_inv in H2 as [_ H2].
      rewrite Forall_forall in H1, H2. apply Hanti; [left; reflexivity|right; exact Hb|apply H1; exact Hb|apply H2; exact Ha]. }
    subst b. f_equal. apply Permutation_cons_inv in Hp.
    apply IH; [exact Hp|apply StronglySorted_inv in H1; tauto|apply StronglySorted_inv in H2; tauto|].
    intros x y Hx Hy. apply Hanti; right; assumption.
Qed.

Section Sorts.
Variable sort_defs : list def -> list def.
Variable sort_strs : list str -> list str.
Hypothesis sort_defs_perm : forall l, Permutation (sort_defs l) l.
Hypothesis sort_defs_sorted : forall l, Sorted (fun a b => str_le (d_name a) (d_name b)) (sort_defs l).
Hypothesis sort_strs_perm : forall l, Permutation (sort_strs l) l.
Hypothesis sort_strs_sorted : forall l, Sorted str_le (sort_strs l).

Lemma sort_strs_unique l1 l2 : Permutation l1 l2 -> sort_strs l1 = sort_strs l2.
Proof.
  intros Hp. apply (sorted_perm_eq str_le).
  - rewrite sort_strs_perm, Hp. symmetry. apply sort_strs_perm.
  - apply Sorted_StronglySorted; [intros a b c; apply str_le_trans|apply sort_strs_sorted].
  - apply Sorted_StronglySorted; [intros a b c; apply str_le_trans|apply sort_strs_sorted].
  - intros a b _ _. apply str_le_antisym.
Qed.

Lemma sort_defs_unique l1 l2 : Permutation l1 l2 -> NoDup (map d_name l1) -> sort_defs l1 = sort_defs l2.
Proof.
  intros Hp Hnd. apply (sorted_perm_eq (fun a b => str_le (d_name a) (d_name b))).
  - rewrite sort_defs_perm, Hp. symmetry. apply sort_defs_perm.
  - apply Sorted_StronglySorted; [intros a b c; apply str_le_trans|apply sort_defs_sorted].
  - apply Sorted_StronglySorted; [intros a b c; apply str_le_trans|apply sort_defs_sorted].
  - intros a b Ha Hb H1 H2. pose proof (str_le_antisym _ _ H1 H2) as E.
    assert (Ha' : In a l1) by (eapply Permutation_in; [apply sort_defs_perm|exact Ha]).
    assert (Hb' : In b l1) by (eapply Permutation_in; [apply sort_defs_perm|exact Hb]).
    clear - E Ha' Hb' Hnd. induction l1 as [|x t IH]; [destruct Ha'|].
    cbn [map] in Hnd. inversion Hnd as [|? ? Hnin Hnd']; subst.
    destruct Ha' as [->|Ha'], Hb' as [->|Hb']; [reflexivity| | |apply IH; assumption].
    + exfalso. apply Hnin. rewrite E. apply in_map. exact Hb'.
    + exfalso. apply Hnin. rewrite <- E. apply in_map. exact Ha'.
Qed.

End Sorts.

(* the insertion sort used for execution satisfies the hypotheses *)
Lemma str_leb_total a b : str_leb a b = true \/ str_leb b a = true.
Proof.
  revert b; induction a as [|x a IH]; intros [|y b]; cbn [str_leb]; auto.
  destruct (N.ltb_spec x y), (N.ltb_spec y x); auto; try lia.
Qed.

Section ISortOk.
Context {A : Type} (key : A -> str).
Let le (a b : A) := str_le (key a) (key b).

Lemma insert_by_perm a l : Permutation (insert_by key a l) (a :: l).
Proof.
  induction l as [|b t IH]; cbn [insert_by]; [reflexivity|].
  destruct (str_leb (key a) (key b)); [reflexivity|]. rewrite IH. apply perm_swap.
Qed.

Lemma isort_by_perm l : Permutation (isort_by key l) l.
Proof. induction l as [|a t IH]; cbn [isort_by]; [reflexivity|]. rewrite insert_by_perm, IH. reflexivity. Qed.

Lemma insert_by_sorted a l : Sorted le l -> Sorted le (insert_by key a l).
Proof.
  induction l as [|b t IH]; intros Hs; cbn [insert_by]; [repeat constructor|].
  destruct (str_leb (key a) (key b)) eqn:E.
  - constructor; [exact Hs|]. constructor. exact E.
  - apply Sorted_inv in Hs as [Hs Hhd]. constructor; [apply IH; exact Hs|].
    assert (Hba : le b a) by (destruct (str_leb_total (key a) (key b)); [congruence|assumption]).
    destruct t as [|c t]; cbn [insert_by]; [constructor; exact Hba|].
    destruct (str_leb (key a) (key c)); constructor; [exact Hba|]. apply HdRel_inv in Hhd. exact Hhd.
Qed.

Lemma isort_by_sorted l : Sorted le (isort_by key l).
Proof. induction l as [|a t IH]; cbn [isort_by]; [constructor|]. apply insert_by_sorted. exact IH. Qed.
End ISortOk.

(* ---- the groups (reversedObjects) ---- *)

Definition keyed (g : group) : Prop := forall d, In d (snd g) -> d_type d = fst g.

Definition groups_ok (gs : list group) : Prop :=
  NoDup (map fst gs) /\ Forall keyed gs.

Lemma add_group_keys d gs :
  map fst (add_group d gs) = if has_key (d_type d) gs then map fst gs else map fst gs ++ [d_type d].
Proof.
  induction gs as [|[k l] t IH]; cbn [add_group has_key existsb map fst]; [reflexivity|].
  destruct (beq k (d_type d)) eqn:E; cbn [map fst orb]; [reflexivity|].
  unfold has_key in IH. rewrite IH. match goal with |- context[existsb ?f t] => destruct (existsb f t) end; reflexivity.
Qed.

Lemma has_key_spec k gs : has_key k gs = true <-> In k (map fst gs).
Proof.
  unfold has_key. rewrite existsb_exists. split.
  - intros (g & Hg & E). apply beq_eq in E. subst. apply in_map. exact Hg.
  - intros H. apply in_map_iff in H as (g & <- & Hg). exists g. split; [exact Hg|apply beq_refl].
Qed.

Lemma NoDup_app_snoc {A} (l : list A) x : NoDup l -> ~ In x l -> NoDup (l ++ [x]).
Proof.
  induction l as [|a t IH]; intros Hnd Hx; cbn [app]; [repeat constructor; intros []|].
  inversion Hnd as [|? ? Ha Ht]; subst. constructor.
  - intros Hi. apply in_app_or in Hi as [Hi|[->|[]]]; [contradiction|]. apply Hx. left. reflexivity.
  - apply IH; [exact Ht|]. intros Hi. apply Hx. right. exact Hi.
Qed.

Lemma add_group_ok d gs : groups_ok gs -> groups_ok (add_group d gs).
Proof.
  intros [Hnd Hk]. split.
  - rewrite add_group_keys. destruct (has_key (d_type d) gs) eqn:E; [exact Hnd|].
    apply NoDup_app_snoc; [exact Hnd|]. intros Hi. apply has_key_spec in Hi. congruence.
  - clear Hnd. induction gs as [|[k l] t IH]; cbn [add_group].
    + constructor; [|constructor]. intros x [<-|[]]. reflexivity.
    + inversion Hk as [|? ? Hg Ht]; subst. destruct (beq_spec k (d_type d)) as [->|Hne].
      * constructor; [|exact Ht]. intros x Hx. cbn [fst snd] in *. apply in_app_or in Hx as [Hx|[<-|[]]]; [apply Hg; exact Hx|reflexivity].
      * constructor; [exact Hg|apply IH; exact Ht].
Qed.

Lemma fold_add_ok l gs : groups_ok gs -> groups_ok (fold_left (fun gs d => add_group d gs) l gs).
Proof. revert gs; induction l as [|d t IH]; intros gs H; cbn [fold_left]; [exact H|]. apply IH, add_group_ok, H. Qed.

Lemma groups_groups_ok l : groups_ok (groups l).
Proof. apply fold_add_ok. split; [constructor|constructor]. Qed.

Definition members (gs : list group) : list def := flat_map snd gs.

Lemma add_group_members d gs : Permutation (members (add_group d gs)) (d :: members gs).
Proof.
  induction gs as [|[k l] t IH]; cbn [add_group members flat_map snd app]; [reflexivity|].
  destruct (beq k (d_type d)); cbn [flat_map snd].
  - rewrite <- app_assoc. cbn [app]. rewrite <- Permutation_middle. reflexivity.
  - fold (members (add_group d t)). rewrite IH. fold (members t). rewrite <- Permutation_middle. reflexivity.
Qed.

Lemma fold_add_members l gs :
  Permutation (members (fold_left (fun gs d => add_group d gs) l gs)) (l ++ members gs).
Proof.
  revert gs; induction l as [|d t IH]; intros gs; cbn [fold_left app]; [reflexivity|].
  rewrite IH, add_group_members. rewrite <- Permutation_middle. reflexivity.
Qed.

Lemma groups_members l : Permutation (members (groups l)) l.
Proof. unfold groups. rewrite fold_add_members. cbn. rewrite app_nil_r. reflexivity. Qed.

(* ---- what survives a change of the iteration order ---- *)

Lemma groups_ok_perm o1 o2 : Permutation o1 o2 -> groups_ok o1 -> groups_ok o2.
Proof.
  intros Hp [Hnd Hk]. split.
  - eapply Permutation_NoDup; [apply Permutation_map; exact Hp|exact Hnd].
  - rewrite Forall_forall in *. intros g Hg. apply Hk. eapply Permutation_in; [apply Permutation_sym; exact Hp|exact Hg].
Qed.

Lemma filter_perm {A} (f : A -> bool) l1 l2 : Permutation l1 l2 -> Permutation (filter f l1) (filter f l2).
Proof.
  induction 1 as [|x l l' H IH|x y l|l l' l'' H1 IH1 H2 IH2]; cbn [filter].
  - reflexivity.
  - destruct (f x); [constructor|]; exact IH.
  - destruct (f x), (f y); try reflexivity. apply perm_swap.
  - etransitivity; eassumption.
Qed.

Lemma flat_map_perm {A B} (f : A -> list B) l1 l2 : Permutation l1 l2 -> Permutation (flat_map f l1) (flat_map f l2).
Proof.
  induction 1 as [|x l l' H IH|x y l|l l' l'' H1 IH1 H2 IH2]; cbn [flat_map].
  - reflexivity.
  - apply Permutation_app_head. exact IH.
  - rewrite !app_assoc. apply Permutation_app_tail. apply Permutation_app_comm.
  - etransitivity; eassumption.
Qed.

Lemma existsb_perm {A} (f : A -> bool) l1 l2 : Permutation l1 l2 -> existsb f l1 = existsb f l2.
Proof.
  intros Hp. destruct (existsb f l1) eqn:E1, (existsb f l2) eqn:E2; try reflexivity.
  - apply existsb_exists in E1 as (x & Hx & Hf). assert (existsb f l2 = true); [|congruence].
    apply existsb_exists. exists x. split; [eapply Permutation_in; eassumption|exact Hf].
  - apply existsb_exists in E2 as (x & Hx & Hf). assert (existsb f l1 = true); [|congruence].
    apply existsb_exists. exists x. split; [eapply Permutation_in; [apply Permutation_sym|]; eassumption|exact Hf].
Qed.

(* lookups in an association list with distinct keys do not depend on its order *)
Lemma lookup_in k m l : NoDup (map fst m) -> In (k, l) m -> lookup k m = Some l.
Proof.
  induction m as [|[k' l'] t IH]; intros Hnd Hi; [destruct Hi|].
  cbn [map fst] in Hnd. inversion Hnd as [|? ? Hnin Ht]; subst. cbn [lookup].
  destruct Hi as [E|Hi].
  - injection E as -> ->. rewrite beq_refl. reflexivity.
  - destruct (beq_spec k' k) as [->|Hne]; [exfalso; apply Hnin; apply (in_map fst) in Hi; exact Hi|].
    apply IH; assumption.
Qed.

Lemma lookup_none k m : ~ In k (map fst m) -> lookup k m = None.
Proof.
  induction m as [|[k' l'] t IH]; intros Hn; cbn [lookup]; [reflexivity|].
  cbn [map fst In] in Hn. destruct (beq_spec k' k) as [->|Hne]; [exfalso; apply Hn; left; reflexivity|].
  apply IH. intros Hi. apply Hn. right. exact Hi.
Qed.

Lemma lookup_some_in k m l : lookup k m = Some l -> In (k, l) m.
Proof.
  induction m as [|[k' l'] t IH]; cbn [lookup]; [discriminate|].
  destruct (beq_spec k' k) as [->|Hne]; [intros E; injection E as ->; left; reflexivity|].
  intros H. right. apply IH. exact H.
Qed.

Lemma lookup_perm k m1 m2 : Permutation m1 m2 -> NoDup (map fst m1) -> lookup k m1 = lookup k m2.
Proof.
  intros Hp Hnd.
  assert (Hnd2 : NoDup (map fst m2)) by (eapply Permutation_NoDup; [apply Permutation_map; exact Hp|exact Hnd]).
  destruct (lookup k m1) as [l|] eqn:E.
  - symmetry. apply lookup_in; [exact Hnd2|]. eapply Permutation_in; [exact Hp|]. apply lookup_some_in. exact E.
  - destruct (lookup k m2) as [l|] eqn:E2; [|reflexivity].
    apply lookup_some_in in E2. assert (lookup k m1 = Some l); [|congruence].
    apply lookup_in; [exact Hnd|]. eapply Permutation_in; [apply Permutation_sym; exact Hp|exact E2].
Qed.

Lemma filter_keys_nodup (f : group -> bool) m : NoDup (map fst m) -> NoDup (map fst (filter f m)).
Proof.
  induction m as [|g t IH]; intros Hnd; cbn [filter map]; [constructor|].
  cbn [map] in Hnd. inversion Hnd as [|? ? Hnin Ht]; subst.
  destruct (f g); cbn [map]; [|apply IH; exact Ht].
  constructor; [|apply IH; exact Ht]. intros Hi. apply Hnin.
  apply in_map_iff in Hi as (g' & E & Hg'). apply filter_In in Hg' as [Hg' _]. rewrite <- E. apply in_map. exact Hg'.
Qed.

(* at most one stand-alone struct per interface name *)
Lemma singles_types_nodup o : groups_ok o -> NoDup (map d_type (singles_of o)).
Proof.
  intros [Hnd Hk]. induction o as [|[k l] t IH]; cbn [singles_of flat_map]; [constructor|].
  cbn [map fst] in Hnd. inversion Hnd as [|? ? Hnin Hnd']; subst. inversion Hk as [|? ? Hg Hk']; subst.
  specialize (IH Hnd' Hk'). unfold single_of at 1. cbn [snd].
  destruct (group_class l) eqn:Ec; cbn [app]; try exact IH.
  unfold group_class in Ec. destruct (forallb no_params l); [discriminate|]. destruct l as [|d [|d' l']]; try discriminate.
  cbn [app map]. constructor; [|exact IH].
  rewrite (Hg d (or_introl eq_refl)). cbn [fst]. intros Hi. apply Hnin.
  apply in_map_iff in Hi as (x & Ex & Hx). unfold singles_of in Hx. apply in_flat_map in Hx as (g & Hg' & Hxg).
  rewrite Forall_forall in Hk'. unfold single_of in Hxg. destruct (group_class (snd g)); try destruct Hxg.
  rewrite <- Ex, (Hk' g Hg' x Hxg). apply in_map. exact Hg'.
Qed.

Lemma find_perm_unique {A} (key : A -> str) t l1 l2 :
  Permutation l1 l2 -> NoDup (map key l1) ->
  find (fun d => beq (key d) t) l1 = find (fun d => beq (key d) t) l2.
Proof.
  intros Hp Hnd.
  assert (Hnd2 : NoDup (map key l2)) by (eapply Permutation_NoDup; [apply Permutation_map; exact Hp|exact Hnd]).
  assert (Huniq : forall l, NoDup (map key l) -> forall d, In d l -> key d = t -> find (fun d => beq (key d) t) l = Some d).
  { clear. induction l as [|x r IH]; intros Hnd d Hd Ek; [destruct Hd|]. cbn [find].
    cbn [map] in Hnd. inversion Hnd as [|? ? Hnin Hr]; subst. destruct Hd as [->|Hd]; [rewrite beq_refl; reflexivity|].
    destruct (beq_spec (key x) (key d)) as [E|_]; [exfalso; apply Hnin; rewrite E; apply in_map; exact Hd|].
    apply IH; auto. }
  destruct (find (fun d => beq (key d) t) l1) as [d|] eqn:E1.
  - apply find_some in E1 as [Hd Hk]. apply beq_eq in Hk. symmetry. apply Huniq; [exact Hnd2| |exact Hk].
    eapply Permutation_in; eassumption.
  - destruct (find (fun d => beq (key d) t) l2) as [d|] eqn:E2; [|reflexivity].
    apply find_some in E2 as [Hd Hk]. apply beq_eq in Hk.
    rewrite (Huniq l1 Hnd d) in E1; [discriminate| |exact Hk]. eapply Permutation_in; [apply Permutation_sym|]; eassumption.
Qed.

Section Invariance.
Variable goify : str -> bool -> str.

Lemma type_id_perm o1 o2 t : Permutation o1 o2 -> groups_ok o1 -> type_id goify o1 t = type_id goify o2 t.
Proof.
  intros Hp Hok. unfold type_id.
  assert (E1 : has_key t (enums_of o1) = has_key t (enums_of o2)) by (apply existsb_perm, filter_perm, Hp).
  assert (E2 : has_key t (types_of o1) = has_key t (types_of o2)) by (apply existsb_perm, filter_perm, Hp).
  assert (E3 : find (fun d => beq (d_type d) t) (singles_of o1) = find (fun d => beq (d_type d) t) (singles_of o2)).
  { apply find_perm_unique; [apply flat_map_perm; exact Hp|apply singles_types_nodup; exact Hok]. }
  rewrite E1, E2, E3. reflexivity.
Qed.
End Invariance.

Lemma NoDup_app_inv {A} (l r : list A) : NoDup (l ++ r) -> NoDup l /\ NoDup r /\ (forall x, In x l -> ~ In x r).
Proof.
  induction l as [|a t IH]; cbn [app]; intros H; [split; [constructor|split; [exact H|intros x []]]|].
  inversion H as [|? ? Ha Ht]; subst. destruct (IH Ht) as (H1 & H2 & H3). split; [|split; [exact H2|]].
  - constructor; [|exact H1]. intros Hi. apply Ha. apply in_or_app. left. exact Hi.
  - intros x [->|Hx]; [intros Hi; apply Ha; apply in_or_app; right; exact Hi|apply H3; exact Hx].
Qed.

Lemma NoDup_app_intro {A} (l r : list A) : NoDup l -> NoDup r -> (forall x, In x l -> ~ In x r) -> NoDup (l ++ r).
Proof.
  induction l as [|a t IH]; cbn [app]; intros H1 H2 H3; [exact H2|].
  inversion H1 as [|? ? Ha Ht]; subst. constructor.
  - intros Hi. apply in_app_or in Hi as [Hi|Hi]; [contradiction|]. exact (H3 a (or_introl eq_refl) Hi).
  - apply IH; [exact Ht|exact H2|]. intros x Hx. apply H3. right. exact Hx.
Qed.

(* picking, from every group, all of its members or none keeps names distinct *)
Lemma nodup_sub_groups {B} (f : def -> B) (sub : group -> list def) (o : list group) :
  (forall g, sub g = snd g \/ sub g = []) ->
  NoDup (map f (flat_map snd o)) -> NoDup (map f (flat_map sub o)).
Proof.
  intros Hsub. induction o as [|g t IH]; cbn [flat_map]; [auto|].
  rewrite !map_app. intros H. apply NoDup_app_inv in H as (H1 & H2 & H3).
  destruct (Hsub g) as [-> | ->]; cbn [map app]; [|apply IH; exact H2].
  apply NoDup_app_intro; [exact H1|apply IH; exact H2|].
  intros x Hx Hi. apply (H3 x Hx). apply in_map_iff in Hi as (d & <- & Hd). apply in_map.
  apply in_flat_map in Hd as (g' & Hg' & Hd). apply in_flat_map. exists g'. split; [exact Hg'|].
  destruct (Hsub g') as [E|E]; rewrite E in Hd; [exact Hd|destruct Hd].
Qed.

Section Determinism.
Variable goify : str -> bool -> str.
Variable sort_defs : list def -> list def.
Variable sort_strs : list str -> list str.
Hypothesis sort_defs_perm : forall l, Permutation (sort_defs l) l.
Hypothesis sort_defs_sorted : forall l, Sorted (fun a b => str_le (d_name a) (d_name b)) (sort_defs l).
Hypothesis sort_strs_perm : forall l, Permutation (sort_strs l) l.
Hypothesis sort_strs_sorted : forall l, Sorted str_le (sort_strs l).

Notation type_id := (type_id goify).
Notation emit := (emit goify sort_defs sort_strs).

(* everything below the classification sees the iteration order only through type_id *)
Section Ext.
Variables o1 o2 : list group.
Hypothesis Htid : forall t, type_id o1 t = type_id o2 t.

Lemma gen_field_ext p : gen_field goify o1 p = gen_field goify o2 p.
Proof. unfold gen_field. rewrite Htid. reflexivity. Qed.

Lemma gen_fields_ext ps : gen_fields goify o1 ps = gen_fields goify o2 ps.
Proof.
  induction ps as [|p t IH]; cbn [gen_fields]; [reflexivity|].
  rewrite gen_field_ext, IH. reflexivity.
Qed.

Lemma gen_struct_ext n d impl : gen_struct goify o1 n d impl = gen_struct goify o2 n d impl.
Proof. unfold gen_struct. rewrite gen_fields_ext. reflexivity. Qed.

Lemma omap_list_ext {A B} (f g : A -> outcome B) l : (forall a, f a = g a) -> omap_list f l = omap_list g l.
Proof. intros H. induction l as [|a t IH]; cbn [omap_list]; [reflexivity|]. rewrite H, IH. reflexivity. Qed.

Lemma gen_positional_ext ps : gen_positional goify o1 ps = gen_positional goify o2 ps.
Proof.
  induction ps as [|p t IH]; cbn [gen_positional]; [reflexivity|]. rewrite Htid, IH. reflexivity.
Qed.

Lemma gen_args_ext m : gen_args goify o1 m = gen_args goify o2 m.
Proof. unfold gen_args. destruct (d_params m); [reflexivity|]. rewrite gen_positional_ext. reflexivity. Qed.

Lemma gen_method_ext m : gen_method goify o1 m = gen_method goify o2 m.
Proof. unfold gen_method. rewrite gen_struct_ext, Htid, gen_args_ext. reflexivity. Qed.

Lemma gen_iface_ext k l : gen_iface goify sort_defs o1 k l = gen_iface goify sort_defs o2 k l.
Proof.
  unfold gen_iface. rewrite (omap_list_ext _ (fun d => gen_struct goify o2 (member_name goify k d) d [goify k true])).
  - reflexivity.
  - intros d. apply gen_struct_ext.
Qed.
End Ext.

Theorem emit_order_independent objs ms o1 o2 :
  Permutation o1 (groups objs) -> Permutation o2 (groups objs) ->
  NoDup (map d_name objs) ->
  emit o1 ms = emit o2 ms.
Proof.
  intros H1 H2 Hnames.
  assert (Hp : Permutation o1 o2) by (rewrite H1; symmetry; exact H2).
  assert (Hok1 : groups_ok o1) by (eapply groups_ok_perm; [apply Permutation_sym; exact H1|apply groups_groups_ok]).
  assert (Htid : forall t, type_id o1 t = type_id o2 t) by (intros t; apply type_id_perm; assumption).
  destruct Hok1 as [Hnd1 Hk1].
  assert (He : Permutation (enums_of o1) (enums_of o2)) by (apply filter_perm, Hp).
  assert (Ht : Permutation (types_of o1) (types_of o2)) by (apply filter_perm, Hp).
  assert (Hs : Permutation (singles_of o1) (singles_of o2)) by (apply flat_map_perm, Hp).
  (* the stand-alone structs have distinct names, so sorting them by name has one result *)
  assert (Hsn : NoDup (map d_name (singles_of o1))).
  { assert (Hsub : Permutation (members o1) objs) by (unfold members; rewrite (flat_map_perm snd _ _ H1); apply groups_members).
    assert (Hnm : NoDup (map d_name (members o1))) by (eapply Permutation_NoDup; [apply Permutation_map, Permutation_sym; exact Hsub|exact Hnames]).
    apply (nodup_sub_groups d_name single_of); [|exact Hnm].
    intros g. unfold single_of. destruct (group_class (snd g)); auto. }
  assert (Esingles : sort_defs (singles_of o1) = sort_defs (singles_of o2))
    by (apply (sort_defs_unique sort_defs sort_defs_perm sort_defs_sorted); assumption).
  assert (Eenums : gen_enums goify sort_defs sort_strs o1 = gen_enums goify sort_defs sort_strs o2).
  { unfold gen_enums. rewrite (sort_strs_unique sort_strs sort_strs_perm sort_strs_sorted _ _ (Permutation_map fst He)).
    apply flat_map_ext. intros k. rewrite (lookup_perm k _ _ He); [reflexivity|apply filter_keys_nodup; exact Hnd1]. }
  assert (Etypes : gen_types goify sort_defs o1 = gen_types goify sort_defs o2).
  { unfold gen_types. rewrite Esingles. apply omap_list_ext. intros d. apply gen_struct_ext. exact Htid. }
  assert (Eifaces : gen_ifaces goify sort_defs sort_strs o1 = gen_ifaces goify sort_defs sort_strs o2).
  { unfold gen_ifaces. rewrite (sort_strs_unique sort_strs sort_strs_perm sort_strs_sorted _ _ (Permutation_map fst Ht)).
    apply omap_list_ext. intros k. rewrite (lookup_perm k _ _ Ht); [|apply filter_keys_nodup; exact Hnd1].
    destruct (lookup k (types_of o2)); [apply gen_iface_ext; exact Htid|reflexivity]. }
  assert (Emethods : gen_methods goify sort_defs o1 ms = gen_methods goify sort_defs o2 ms).
  { unfold gen_methods. apply omap_list_ext. intros m. apply gen_method_ext. exact Htid. }
  assert (Einit : gen_init goify sort_defs sort_strs o1 ms = gen_init goify sort_defs sort_strs o2 ms).
  { unfold gen_init. rewrite Esingles. f_equal.
    - apply (sort_strs_unique sort_strs sort_strs_perm sort_strs_sorted). apply Permutation_app_tail. apply flat_map_perm. exact Ht.
    - apply (sort_strs_unique sort_strs sort_strs_perm sort_strs_sorted). apply flat_map_perm. exact He. }
  unfold Classify.emit. rewrite Eenums, Etypes, Eifaces, Emethods, Einit. reflexivity.
Qed.

End Determinism.

Lemma omap_list_ok {A B} (f : A -> outcome B) l r : omap_list f l = Ok r -> Forall2 (fun a b => f a = Ok b) l r.
Proof.
  revert r; induction l as [|a t IH]; intros r; cbn [omap_list].
  - intros E. injection E as <-. constructor.
  - destruct (f a) as [b| |] eqn:Ea; cbn [obind]; try discriminate.
    destruct (omap_list f t) as [bs| |]; cbn [obind]; try discriminate.
    intros E. injection E as <-. constructor; [exact Ea|apply IH; reflexivity].
Qed.

Lemma Forall2_in_l {A B} (R : A -> B -> Prop) l r a : Forall2 R l r -> In a l -> exists b, In b r /\ R a b.
Proof.
  induction 1 as [|x y l r Hxy H IH]; intros Hi; [destruct Hi|].
  destruct Hi as [->|Hi]; [exists y; split; [left; reflexivity|exact Hxy]|].
  destruct (IH Hi) as (b & Hb & HR). exists b. split; [right; exact Hb|exact HR].
Qed.

Lemma Forall2_in_r {A B} (R : A -> B -> Prop) l r b : Forall2 R l r -> In b r -> exists a, In a l /\ R a b.
Proof.
  induction 1 as [|x y l r Hxy H IH]; intros Hi; [destruct Hi|].
  destruct Hi as [->|Hi]; [exists x; split; [left; reflexivity|exact Hxy]|].
  destruct (IH Hi) as (a & Ha & HR). exists a. split; [right; exact Ha|exact HR].
Qed.

Lemma Forall2_impl' {A B} (R S : A -> B -> Prop) l r : (forall a b, R a b -> S a b) -> Forall2 R l r -> Forall2 S l r.
Proof. intros H. induction 1; constructor; auto. Qed.

Section Layout.
Variable goify : str -> bool -> str.
Variable sort_defs : list def -> list def.
Variable sort_strs : list str -> list str.
Hypothesis sort_defs_perm : forall l, Permutation (sort_defs l) l.
Hypothesis sort_strs_perm : forall l, Permutation (sort_strs l) l.

Notation type_id := (type_id goify).
Notation emit := (emit goify sort_defs sort_strs).

(* ---- what a struct descriptor says about a definition ---- *)

Definition field_of (tid : str -> option gokind) (p : param) (f : field) : Prop :=
  f_name f = goify (p_name p) true /\ tid (p_type p) = Some (f_kind f) /\ f_vec f = p_vector p
  /\ f_flag f = (if p_optional p then Some (p_bit p) else None)
  /\ f_inbits f = beq (p_type p) l_true.

(* id; one field per parameter other than the flags word, in order, with the Go kind of the
   parameter's type, the vector marker, the bit; FlagIndex() = position of the (last) flags word among
   ALL parameters, present exactly when some parameter is conditional *)
Definition describes (tid : str -> option gokind) (d : def) (sd : sdesc) : Prop :=
  sd_crc sd = d_crc d
  /\ Forall2 (field_of tid) (filter (fun p => negb (is_bitflags p)) (d_params d)) (sd_fields sd)
  /\ match sd_flagindex sd with
     | Some i => existsb p_optional (d_params d) = true
                 /\ (exists p, nth_error (d_params d) i = Some p /\ is_flags_word p = true)
                 /\ (forall j p, (i < j)%nat -> nth_error (d_params d) j = Some p -> is_flags_word p = false)
     | None => existsb p_optional (d_params d) = false
     end.

Lemma gen_fields_spec o ps fs : gen_fields goify o ps = Ok fs ->
  Forall2 (field_of (type_id o)) (filter (fun p => negb (is_bitflags p)) ps) fs.
Proof.
  revert fs; induction ps as [|p t IH]; intros fs; cbn [gen_fields filter].
  - intros E. injection E as <-. constructor.
  - destruct (is_bitflags p); cbn [negb]; [apply IH|].
    unfold gen_field. destruct (type_id o (p_type p)) as [k|] eqn:Ek; cbn [obind]; [|discriminate].
    destruct (gen_fields goify o t) as [fs'| |]; cbn [obind]; try discriminate.
    intros E. injection E as <-. constructor; [|apply IH; reflexivity].
    unfold field_of. cbn. auto.
Qed.

Lemma flag_index_from_spec ps : forall i acc,
  match flag_index_from i ps acc with
  | Some k =>
      (exists j p, k = (i + j)%nat /\ nth_error ps j = Some p /\ is_flags_word p = true
                   /\ forall j' p', (j < j')%nat -> nth_error ps j' = Some p' -> is_flags_word p' = false)
      \/ (acc = Some k /\ forall j p, nth_error ps j = Some p -> is_flags_word p = false)
  | None => acc = None /\ forall j p, nth_error ps j = Some p -> is_flags_word p = false
  end.
Proof.
  induction ps as [|p t IH]; intros i acc; cbn [flag_index_from].
  - destruct acc; [right|]; (split; [reflexivity|]); intros [|j] q; discriminate.
  - specialize (IH (S i) (if is_flags_word p then Some i else acc)).
    destruct (flag_index_from (S i) t (if is_flags_word p then Some i else acc)) as [k|].
    + destruct IH as [(j & q & -> & Hj & Hq & Hlater)|[Ea Hnone]].
      * left. exists (S j), q. repeat split; [lia|exact Hj|exact Hq|].
        intros [|j'] p' Hlt; [lia|]. cbn [nth_error]. apply Hlater. lia.
      * destruct (is_flags_word p) eqn:Ep.
        -- injection Ea as <-. left. exists 0%nat, p. repeat split; [lia|exact Ep|].
           intros [|j'] p' Hlt; [lia|]. cbn [nth_error]. apply Hnone.
        -- right. split; [exact Ea|]. intros [|j] q; cbn [nth_error]; [intros E; injection E as <-; exact Ep|apply Hnone].
    + destruct IH as [Ea Hnone]. destruct (is_flags_word p) eqn:Ep; [discriminate|].
      split; [exact Ea|]. intros [|j] q; cbn [nth_error]; [intros E; injection E as <-; exact Ep|apply Hnone].
Qed.

Lemma gen_struct_spec o n d impl sd : gen_struct goify o n d impl = Ok sd ->
  describes (type_id o) d sd /\ sd_name sd = goify n true /\ sd_impl sd = impl.
Proof.
  unfold gen_struct. destruct (gen_fields goify o (d_params d)) as [fs| |] eqn:Ef; cbn [obind]; try discriminate.
  unfold gen_flagindex. destruct (existsb p_optional (d_params d)) eqn:Eo.
  - pose proof (flag_index_from_spec (d_params d) 0 None) as Hfi.
    destruct (flag_index_from 0 (d_params d) None) as [k|]; cbn [obind]; [|discriminate].
    intros E. injection E as <-. cbn [sd_name sd_impl]. split; [|auto].
    unfold describes. cbn [sd_crc sd_fields sd_flagindex]. split; [reflexivity|]. split; [apply gen_fields_spec; exact Ef|].
    split; [exact Eo|]. destruct Hfi as [(j & p & -> & Hj & Hp & Hlater)|[Ea _]]; [|discriminate].
    cbn [Nat.add]. split; [exists p; auto|exact Hlater].
  - cbn [obind]. intros E. injection E as <-. cbn [sd_name sd_impl]. split; [|auto].
    unfold describes. cbn [sd_crc sd_fields sd_flagindex]. split; [reflexivity|]. split; [apply gen_fields_spec; exact Ef|exact Eo].
Qed.

(* ---- where each constructor of the schema ends up, and nothing else is emitted ---- *)

Definition enum_entry (d : def) : str * str * N :=
  (enum_value_name goify (d_name d) (d_type d), d_name d, d_crc d).

Definition emitted_object (tid : str -> option gokind) (out : output) (l : list def) (d : def) : Prop :=
  match group_class l with
  | GEnum => exists e, In e (o_enums out) /\ e_type e = goify (d_type d) true /\ e_native e = d_type d /\ In (enum_entry d) (e_vals e)
  | GSingle => exists sd, In sd (o_types out) /\ sd_name sd = goify (d_name d) true /\ sd_impl sd = [] /\ describes tid d sd
  | GIface => exists ss sd, In (goify (d_type d) true, ss) (o_ifaces out) /\ In sd ss
                            /\ sd_name sd = goify (member_name goify (d_type d) d) true
                            /\ sd_impl sd = [goify (d_type d) true] /\ describes tid d sd
  end.

Definition emitted_method (tid : str -> option gokind) (m : def) (x : sdesc * mdesc) : Prop :=
  sd_name (fst x) = goify (d_name m ++ l_Params) true /\ sd_impl (fst x) = [] /\ describes tid m (fst x)
  /\ m_name (snd x) = goify (d_name m) true
  /\ tid (d_type m) = Some (fst (m_result (snd x))) /\ snd (m_result (snd x)) = d_isvec m.

Lemma member_group o objs d : Permutation o (groups objs) -> In d objs ->
  exists l, In (d_type d, l) o /\ In d l.
Proof.
  intros Hp Hd.
  assert (Hok : groups_ok o) by (eapply groups_ok_perm; [apply Permutation_sym; exact Hp|apply groups_groups_ok]).
  assert (Hm : In d (members o)).
  { eapply Permutation_in; [|exact Hd]. symmetry. unfold members. rewrite (flat_map_perm snd _ _ Hp). apply groups_members. }
  unfold members in Hm. apply in_flat_map in Hm as ([k l] & Hg & Hdl). exists l.
  destruct Hok as [_ Hk]. rewrite Forall_forall in Hk. rewrite (Hk _ Hg d Hdl). cbn [fst snd] in *. auto.
Qed.

Lemma group_member_in o objs k l d : Permutation o (groups objs) -> In (k, l) o -> In d l -> In d objs /\ d_type d = k.
Proof.
  intros Hp Hg Hd.
  assert (Hok : groups_ok o) by (eapply groups_ok_perm; [apply Permutation_sym; exact Hp|apply groups_groups_ok]).
  split.
  - eapply Permutation_in; [apply groups_members|]. unfold members.
    eapply Permutation_in; [apply (flat_map_perm snd _ _ Hp)|]. apply in_flat_map. exists (k, l). auto.
  - destruct Hok as [_ Hk]. rewrite Forall_forall in Hk. exact (Hk _ Hg d Hd).
Qed.

Theorem emit_layout objs ms o out :
  Permutation o (groups objs) -> emit o ms = Ok out ->
  let tid := type_id (groups objs) in
  (forall d, In d objs -> exists l, In (d_type d, l) o /\ In d l /\ emitted_object tid out l d)
  /\ (forall m, In m ms -> exists x, In x (o_methods out) /\ emitted_method tid m x)
  /\ (forall e v, In e (o_enums out) -> In v (e_vals e) -> exists d, In d objs /\ v = enum_entry d /\ e_native e = d_type d)
  /\ (forall sd, In sd (o_types out) -> exists d, In d objs /\ sd_name sd = goify (d_name d) true /\ describes tid d sd)
  /\ (forall n ss sd, In (n, ss) (o_ifaces out) -> In sd ss ->
        exists d, In d objs /\ n = goify (d_type d) true /\ sd_name sd = goify (member_name goify (d_type d) d) true /\ describes tid d sd)
  /\ (forall x, In x (o_methods out) -> exists m, In m ms /\ emitted_method tid m x).
Proof.
  intros Hp He tid.
  assert (Hok : groups_ok o) by (eapply groups_ok_perm; [apply Permutation_sym; exact Hp|apply groups_groups_ok]).
  assert (Htid : forall t, type_id o t = tid t) by (intros t; apply type_id_perm; assumption).
  destruct Hok as [Hnd Hk].
  unfold Classify.emit in He.
  destruct (gen_types goify sort_defs o) as [ty| |] eqn:Ety; cbn [obind] in He; try discriminate.
  destruct (gen_ifaces goify sort_defs sort_strs o) as [ifs| |] eqn:Eif; cbn [obind] in He; try discriminate.
  destruct (gen_methods goify sort_defs o ms) as [me| |] eqn:Eme; cbn [obind] in He; try discriminate.
  injection He as <-. cbn [o_enums o_types o_ifaces o_methods].
  apply omap_list_ok in Ety, Eif, Eme.
  (* rewriting describes along Htid *)
  assert (Hdesc : forall d sd, describes (type_id o) d sd -> describes tid d sd).
  { intros d sd (H1 & H2 & H3). split; [exact H1|]. split; [|exact H3].
    eapply Forall2_impl'; [|exact H2]. intros p f (A & B & C). split; [exact A|]. split; [rewrite <- Htid; exact B|exact C]. }
  assert (Hmeth : forall m x, gen_method goify o m = Ok x -> emitted_method tid m x).
  { intros m x. unfold gen_method.
    destruct (gen_struct goify o (d_name m ++ l_Params) m []) as [sd| |] eqn:Es; cbn [obind]; try discriminate.
    destruct (type_id o (d_type m)) as [k|] eqn:Ek; [|discriminate].
    destruct (gen_args goify o m) as [a| |]; cbn [obind]; try discriminate.
    intros E. injection E as <-. apply gen_struct_spec in Es as (Hd & Hn & Hi).
    unfold emitted_method. cbn. rewrite <- Htid. auto 10. }
  assert (Hifs : forall k l, In (k, l) (types_of o) ->
            exists ss, In (goify k true, ss) ifs /\ Forall2 (fun d sd => gen_struct goify o (member_name goify k d) d [goify k true] = Ok sd) (sort_defs l) ss).
  { intros k l Hkl.
    assert (Hin : In k (sort_strs (map fst (types_of o)))).
    { eapply Permutation_in; [symmetry; apply sort_strs_perm|]. apply (in_map fst) in Hkl. exact Hkl. }
    destruct (Forall2_in_l _ _ _ _ Eif Hin) as (x & Hx & Hgx).
    rewrite (lookup_in k _ l) in Hgx; [|apply filter_keys_nodup; exact Hnd|exact Hkl].
    unfold gen_iface in Hgx.
    destruct (omap_list _ (sort_defs l)) as [ss| |] eqn:Ess; cbn [obind] in Hgx; try discriminate.
    injection Hgx as <-. exists ss. split; [exact Hx|]. apply omap_list_ok. exact Ess. }
  repeat split.
  - (* objects, forward *)
    intros d Hd. destruct (member_group o objs d Hp Hd) as (l & Hg & Hdl). exists l. split; [exact Hg|]. split; [exact Hdl|].
    unfold emitted_object. destruct (group_class l) eqn:Ec.
    + assert (Hge : In (d_type d, l) (enums_of o)) by (apply filter_In; split; [exact Hg|unfold is_enum_group; cbn [snd]; rewrite Ec; reflexivity]).
      exists (gen_enum goify sort_defs (d_type d) l). split; [|split; [reflexivity|split; [reflexivity|]]].
      * unfold gen_enums. apply in_flat_map. exists (d_type d). split.
        -- eapply Permutation_in; [symmetry; apply sort_strs_perm|]. apply (in_map fst) in Hge. exact Hge.
        -- rewrite (lookup_in _ _ l); [left; reflexivity|apply filter_keys_nodup; exact Hnd|exact Hge].
      * unfold gen_enum. cbn [e_vals]. unfold enum_entry.
        assert (Hds : In d (sort_defs l)) by (eapply Permutation_in; [symmetry; apply sort_defs_perm|exact Hdl]).
        apply (in_map (fun d0 => (enum_value_name goify (d_name d0) (d_type d), d_name d0, d_crc d0))) in Hds. exact Hds.
    + assert (Hs : In d (singles_of o)).
      { unfold singles_of. apply in_flat_map. exists (d_type d, l). split; [exact Hg|]. unfold single_of. cbn [snd]. rewrite Ec. exact Hdl. }
      assert (Hs' : In d (sort_defs (singles_of o))) by (eapply Permutation_in; [symmetry; apply sort_defs_perm|exact Hs]).
      destruct (Forall2_in_l _ _ _ _ Ety Hs') as (sd & Hsd & Hgen). apply gen_struct_spec in Hgen as (Hde & Hn & Hi).
      exists sd. auto.
    + assert (Hgt : In (d_type d, l) (types_of o)) by (apply filter_In; split; [exact Hg|unfold is_iface_group; cbn [snd]; rewrite Ec; reflexivity]).
      destruct (Hifs _ _ Hgt) as (ss & Hss & Hall).
      assert (Hds : In d (sort_defs l)) by (eapply Permutation_in; [symmetry; apply sort_defs_perm|exact Hdl]).
      destruct (Forall2_in_l _ _ _ _ Hall Hds) as (sd & Hsd & Hgen). apply gen_struct_spec in Hgen as (Hde & Hn & Hi).
      exists ss, sd. auto 10.
  - (* methods, forward *)
    intros m Hm. assert (Hm' : In m (sort_defs ms)) by (eapply Permutation_in; [symmetry; apply sort_defs_perm|exact Hm]).
    destruct (Forall2_in_l _ _ _ _ Eme Hm') as (x & Hx & Hgen). exists x. split; [exact Hx|apply Hmeth; exact Hgen].
  - (* enum values, backward *)
    intros e v Hin Hv. unfold gen_enums in Hin. apply in_flat_map in Hin as (k & Hk' & Hin).
    destruct (lookup k (enums_of o)) as [l|] eqn:El; [|destruct Hin]. destruct Hin as [<-|[]].
    apply lookup_some_in in El. apply filter_In in El as [Hg _].
    unfold gen_enum in Hv. cbn [e_vals] in Hv. apply in_map_iff in Hv as (d & <- & Hd).
    assert (Hdl : In d l) by (eapply Permutation_in; [apply sort_defs_perm|exact Hd]).
    destruct (group_member_in o objs k l d Hp Hg Hdl) as [Hdo <-].
    exists d. split; [exact Hdo|]. split; reflexivity.
  - (* stand-alone structs, backward *)
    intros sd Hsd. destruct (Forall2_in_r _ _ _ _ Ety Hsd) as (d & Hd & Hgen).
    apply gen_struct_spec in Hgen as (Hde & Hn & _).
    assert (Hd' : In d (singles_of o)) by (eapply Permutation_in; [apply sort_defs_perm|exact Hd]).
    unfold singles_of in Hd'. apply in_flat_map in Hd' as ([k l] & Hg & Hdl).
    unfold single_of in Hdl. cbn [snd] in Hdl. destruct (group_class l); try destruct Hdl.
    destruct (group_member_in o objs k l d Hp Hg Hdl) as [Hdo _]. exists d. auto.
  - (* structs behind an interface, backward *)
    intros n ss sd Hin Hsd. destruct (Forall2_in_r _ _ _ _ Eif Hin) as (k & Hk' & Hgen).
    destruct (lookup k (types_of o)) as [l|] eqn:El.
    + apply lookup_some_in in El. pose proof El as Hgt. apply filter_In in El as [Hg _].
      unfold gen_iface in Hgen. destruct (omap_list _ (sort_defs l)) as [ss'| |] eqn:Ess; cbn [obind] in Hgen; try discriminate.
      injection Hgen as <- <-. apply omap_list_ok in Ess.
      destruct (Forall2_in_r _ _ _ _ Ess Hsd) as (d & Hd & Hgs). apply gen_struct_spec in Hgs as (Hde & Hn & _).
      assert (Hdl : In d l) by (eapply Permutation_in; [apply sort_defs_perm|exact Hd]).
      destruct (group_member_in o objs k l d Hp Hg Hdl) as [Hdo <-]. exists d. auto.
    + injection Hgen as <- <-. destruct Hsd.
  - (* methods, backward *)
    intros x Hx. destruct (Forall2_in_r _ _ _ _ Eme Hx) as (m & Hm & Hgen). exists m. split; [|apply Hmeth; exact Hgen].
    eapply Permutation_in; [apply sort_defs_perm|exact Hm].
Qed.

End Layout.

(* ---- on the subset the generator does not panic ---- *)

Lemma omap_list_total {A B} (f : A -> outcome B) l : (forall a, In a l -> exists b, f a = Ok b) -> exists r, omap_list f l = Ok r.
Proof.
  induction l as [|a t IH]; intros H; cbn [omap_list]; [eauto|].
  destruct (H a (or_introl eq_refl)) as (b & ->). destruct IH as (r & ->); [intros x Hx; apply H; right; exact Hx|].
  cbn [obind]. eauto.
Qed.

Lemma forallb_ext' {A} (f g : A -> bool) l : (forall a, f a = g a) -> forallb f l = forallb g l.
Proof. intros H. induction l as [|a t IH]; cbn [forallb]; [reflexivity|]. rewrite H, IH. reflexivity. Qed.

Section Total.
Variable goify : str -> bool -> str.
Variable sort_defs : list def -> list def.
Variable sort_strs : list str -> list str.
Hypothesis sort_defs_perm : forall l, Permutation (sort_defs l) l.
Hypothesis sort_strs_perm : forall l, Permutation (sort_strs l) l.

Notation type_id := (type_id goify).

Definition resolvable (o : list group) (p : param) : bool :=
  is_bitflags p || match type_id o (p_type p) with Some _ => true | None => false end.

Lemma gen_fields_total o ps : forallb (resolvable o) ps = true -> exists fs, gen_fields goify o ps = Ok fs.
Proof.
  induction ps as [|p t IH]; cbn [forallb gen_fields]; [eauto|].
  intros H. apply andb_true_iff in H as [Hp Ht]. destruct (IH Ht) as (fs & Efs).
  unfold resolvable in Hp. destruct (is_bitflags p); [eauto|]. cbn [orb] in Hp.
  unfold gen_field. destruct (type_id o (p_type p)); [|discriminate]. cbn [obind]. rewrite Efs. cbn [obind]. eauto.
Qed.

Lemma gen_flagindex_total ps : negb (existsb p_optional ps) || existsb is_flags_word ps = true ->
  exists fi, gen_flagindex ps = Ok fi.
Proof.
  intros H. unfold gen_flagindex. destruct (existsb p_optional ps); [|eauto]. cbn [negb orb] in H.
  pose proof (flag_index_from_spec ps 0 None) as Hs. destruct (flag_index_from 0 ps None) as [k|]; [eauto|].
  destruct Hs as [_ Hnone]. apply existsb_exists in H as (p & Hp & Hw).
  apply In_nth_error in Hp as (j & Hj). rewrite (Hnone j p Hj) in Hw. discriminate.
Qed.

Lemma gen_struct_total o n d impl :
  forallb (resolvable o) (d_params d) = true ->
  negb (existsb p_optional (d_params d)) || existsb is_flags_word (d_params d) = true ->
  exists sd, gen_struct goify o n d impl = Ok sd.
Proof.
  intros H1 H2. unfold gen_struct. destruct (gen_fields_total o _ H1) as (fs & ->).
  destruct (gen_flagindex_total _ H2) as (fi & ->). cbn [obind]. eauto.
Qed.

Lemma gen_positional_total o ps : forallb (resolvable o) ps = true -> exists r, gen_positional goify o ps = Ok r.
Proof.
  induction ps as [|p t IH]; cbn [forallb gen_positional]; [eauto|].
  intros H. apply andb_true_iff in H as [Hp Ht]. destruct (IH Ht) as (r & Er). rewrite Er. cbn [obind].
  unfold resolvable in Hp.
  destruct (match t with [] => true | q :: _ => negb (same_go_type p q) end) eqn:Ec; destruct (is_bitflags p) eqn:Eb; cbn [andb orb] in *.
  - eauto.
  - destruct (type_id o (p_type p)); [eauto|discriminate].
  - destruct (type_id o (p_type p)); eauto.
  - destruct (type_id o (p_type p)); eauto.
Qed.

Lemma def_resolvable_parts o b d : def_resolvable goify o b d = true ->
  forallb (resolvable o) (d_params d) = true
  /\ negb (existsb p_optional (d_params d)) || existsb is_flags_word (d_params d) = true
  /\ (b = true -> exists k, type_id o (d_type d) = Some k).
Proof.
  unfold def_resolvable. intros H. apply andb_true_iff in H as [H H3]. apply andb_true_iff in H as [H1 H2].
  split; [exact H1|]. split; [exact H2|]. intros ->. cbn [negb orb] in H3. destruct (type_id o (d_type d)); [eauto|discriminate].
Qed.

Lemma def_resolvable_perm o1 o2 b d : (forall t, type_id o1 t = type_id o2 t) ->
  def_resolvable goify o1 b d = def_resolvable goify o2 b d.
Proof.
  intros H. unfold def_resolvable. rewrite H. f_equal. f_equal. apply forallb_ext'. intros p. rewrite H. reflexivity.
Qed.

Theorem emit_total objs ms o :
  Permutation o (groups objs) -> wf_gen goify (mkschema objs ms) = true ->
  exists out, emit goify sort_defs sort_strs o ms = Ok out.
Proof.
  intros Hp Hw. unfold wf_gen in Hw. cbn [s_objects s_methods] in Hw. apply andb_true_iff in Hw as [Hwo Hwm].
  assert (Hok : groups_ok o) by (eapply groups_ok_perm; [apply Permutation_sym; exact Hp|apply groups_groups_ok]).
  assert (Htid : forall t, type_id o t = type_id (groups objs) t) by (intros t; apply type_id_perm; assumption).
  assert (Hobj : forall d, In d objs -> def_resolvable goify o false d = true).
  { intros d Hd. rewrite (def_resolvable_perm o (groups objs) false d Htid). rewrite forallb_forall in Hwo. apply Hwo. exact Hd. }
  assert (Hmeth : forall m, In m ms -> def_resolvable goify o true m = true).
  { intros m Hm. rewrite (def_resolvable_perm o (groups objs) true m Htid). rewrite forallb_forall in Hwm. apply Hwm. exact Hm. }
  destruct Hok as [Hnd Hk].
  unfold emit.
  assert (Ety : exists ty, gen_types goify sort_defs o = Ok ty).
  { unfold gen_types. apply omap_list_total. intros d Hd.
    assert (Hd' : In d (singles_of o)) by (eapply Permutation_in; [apply sort_defs_perm|exact Hd]).
    unfold singles_of in Hd'. apply in_flat_map in Hd' as ([k l] & Hg & Hdl).
    unfold single_of in Hdl. cbn [snd] in Hdl. destruct (group_class l); try destruct Hdl.
    destruct (group_member_in o objs k l d Hp Hg Hdl) as [Hdo _].
    destruct (def_resolvable_parts _ _ _ (Hobj d Hdo)) as (H1 & H2 & _). apply gen_struct_total; assumption. }
  destruct Ety as (ty & ->). cbn [obind].
  assert (Eif : exists ifs, gen_ifaces goify sort_defs sort_strs o = Ok ifs).
  { unfold gen_ifaces. apply omap_list_total. intros k Hk'.
    destruct (lookup k (types_of o)) as [l|] eqn:El; [|eauto].
    apply lookup_some_in in El. apply filter_In in El as [Hg _]. unfold gen_iface.
    destruct (omap_list_total (fun d => gen_struct goify o (member_name goify k d) d [goify k true]) (sort_defs l)) as (ss & ->); [|cbn [obind]; eauto].
    intros d Hd. assert (Hdl : In d l) by (eapply Permutation_in; [apply sort_defs_perm|exact Hd]).
    destruct (group_member_in o objs k l d Hp Hg Hdl) as [Hdo _].
    destruct (def_resolvable_parts _ _ _ (Hobj d Hdo)) as (H1 & H2 & _). apply gen_struct_total; assumption. }
  destruct Eif as (ifs & ->). cbn [obind].
  assert (Eme : exists me, gen_methods goify sort_defs o ms = Ok me).
  { unfold gen_methods. apply omap_list_total. intros m Hm.
    assert (Hm' : In m ms) by (eapply Permutation_in; [apply sort_defs_perm|exact Hm]).
    destruct (def_resolvable_parts _ _ _ (Hmeth m Hm')) as (H1 & H2 & H3). destruct (H3 eq_refl) as (k & Ek).
    unfold gen_method. destruct (gen_struct_total o (d_name m ++ l_Params) m [] H1 H2) as (sd & ->). cbn [obind]. rewrite Ek.
    unfold gen_args. destruct (d_params m) as [|p ps] eqn:Eps; [cbn [obind]; eauto|].
    destruct (5 <? length (p :: ps))%nat; [cbn [obind]; eauto|].
    destruct (gen_positional_total o (p :: ps) H1) as (r & ->). cbn [obind]. eauto. }
  destruct Eme as (me & ->). cbn [obind]. eauto.
Qed.

End Total.

(* ---- the body of a generated method hands every argument to the field of its own parameter ---- *)

Section ArgumentMap.
Variable goify : str -> bool -> str.

Definition not_flags (p : param) : bool := negb (is_bitflags p).

(* at most one parameter is the flags word *)
Definition one_flags_word (ps : list param) : Prop := (length (filter is_bitflags ps) <= 1)%nat.

Lemma arg_params_filter ps : one_flags_word ps -> arg_params ps = filter not_flags ps.
Proof.
  unfold one_flags_word, not_flags. induction ps as [|p t IH]; cbn [arg_params filter]; [reflexivity|].
  destruct (is_bitflags p) eqn:Ep; cbn [negb length]; intros H.
  - assert (Ht : filter is_bitflags t = []) by (destruct (filter is_bitflags t); [reflexivity|cbn in H; lia]).
    rewrite andb_true_r.
    assert (Hc : match t with [] => true | q :: _ => negb (same_go_type p q) end = true).
    { destruct t as [|q t']; [reflexivity|]. cbn [filter] in Ht. destruct (is_bitflags q) eqn:Eq; [discriminate|].
      unfold same_go_type, is_bitflags in *. apply beq_eq in Ep.
      destruct (beq_spec (p_type p) (p_type q)) as [E|_]; [|reflexivity].
      rewrite <- E, Ep, beq_refl in Eq. discriminate. }
    rewrite Hc. apply IH. rewrite Ht. cbn. lia.
  - rewrite andb_false_r. f_equal. apply IH. exact H.
Qed.

Lemma arg_index_nth l : forall i j p,
  NoDup (map (fun q => goify (p_name q) false) l) -> nth_error l j = Some p ->
  arg_index goify (goify (p_name p) false) l i = Some (i + j)%nat.
Proof.
  induction l as [|q t IH]; intros i j p Hnd Hj; [destruct j; discriminate|].
  cbn [map] in Hnd. inversion Hnd as [|? ? Hnin Hnd']; subst. cbn [arg_index].
  destruct j as [|j]; cbn [nth_error] in Hj.
  - injection Hj as ->. rewrite beq_refl. f_equal. lia.
  - destruct (beq_spec (goify (p_name q) false) (goify (p_name p) false)) as [E|_].
    + exfalso. apply Hnin. rewrite E. apply nth_error_In in Hj.
      apply (in_map (fun q => goify (p_name q) false)) in Hj. exact Hj.
    + rewrite (IH (S i) j p Hnd' Hj). f_equal. lia.
Qed.

(* the j-th positional argument is the j-th parameter other than the flags word, and the Params literal
   puts it into the field generated for that very parameter (field j of the struct, see gen_fields) *)
Theorem argument_map ps j p :
  one_flags_word ps ->
  NoDup (map (fun q => goify (p_name q) false) (filter not_flags ps)) ->
  nth_error (filter not_flags ps) j = Some p ->
  nth_error (arg_params ps) j = Some p
  /\ nth_error (gen_call goify ps) j = Some (goify (p_name p) true, Some j).
Proof.
  intros H1 Hnd Hj. rewrite (arg_params_filter ps H1). split; [exact Hj|].
  unfold gen_call. fold not_flags. rewrite (arg_params_filter ps H1).
  erewrite map_nth_error by exact Hj. f_equal. f_equal.
  exact (arg_index_nth (filter not_flags ps) 0 j p Hnd Hj).
Qed.

End ArgumentMap.

(* ---- no name is declared twice ---- *)

Lemma flat_map_perm_pointwise {A B} (f g : A -> list B) l :
  (forall a, In a l -> Permutation (f a) (g a)) -> Permutation (flat_map f l) (flat_map g l).
Proof.
  induction l as [|a t IH]; intros H; cbn [flat_map]; [reflexivity|].
  apply Permutation_app; [apply H; left; reflexivity|apply IH; intros x Hx; apply H; right; exact Hx].
Qed.

Lemma flat_map_ext_in' {A B} (f g : A -> list B) l : (forall a, In a l -> f a = g a) -> flat_map f l = flat_map g l.
Proof.
  induction l as [|a t IH]; intros H; cbn [flat_map]; [reflexivity|].
  rewrite (H a (or_introl eq_refl)), IH; [reflexivity|]. intros x Hx. apply H. right. exact Hx.
Qed.

(* walking the keys of an association list with distinct keys, in any order, and looking each one up
   visits every entry once *)
Lemma keyed_flat_map {B} (f : str -> list def -> list B) (dflt : str -> list B) (E : list group) K :
  NoDup (map fst E) -> Permutation K (map fst E) ->
  Permutation (flat_map (fun k => match lookup k E with Some l => f k l | None => dflt k end) K)
              (flat_map (fun g => f (fst g) (snd g)) E).
Proof.
  intros Hnd Hp. rewrite (flat_map_perm _ _ _ Hp). clear K Hp.
  induction E as [|[k l] t IH]; cbn [map fst flat_map]; [reflexivity|].
  cbn [map fst] in Hnd. inversion Hnd as [|? ? Hnin Hnd']; subst.
  cbn [lookup snd]. rewrite beq_refl. apply Permutation_app_head.
  rewrite <- (IH Hnd'). erewrite flat_map_ext_in'; [reflexivity|].
  intros k' Hk'. cbn [lookup]. destruct (beq_spec k k') as [->|_]; [contradiction|reflexivity].
Qed.

Lemma flat_map_flat_map' {A B C} (f : B -> list C) (g : A -> list B) l :
  flat_map f (flat_map g l) = flat_map (fun a => flat_map f (g a)) l.
Proof. induction l as [|a t IH]; cbn [flat_map]; [reflexivity|]. rewrite flat_map_app, IH. reflexivity. Qed.

Lemma Forall2_map_eq {A B C} (R : A -> B -> Prop) (f : A -> C) (g : B -> C) l r :
  Forall2 R l r -> (forall a b, R a b -> f a = g b) -> map f l = map g r.
Proof. induction 1 as [|a b l r Hab Hlr IH]; intros Hf; cbn [map]; [reflexivity|]. rewrite (Hf _ _ Hab), IH by exact Hf. reflexivity. Qed.

Lemma Forall2_flat_map_eq {A B C} (R : A -> B -> Prop) (f : A -> list C) (g : B -> list C) l r :
  Forall2 R l r -> (forall a b, R a b -> f a = g b) -> flat_map f l = flat_map g r.
Proof. induction 1 as [|a b l r Hab Hlr IH]; intros Hf; cbn [flat_map]; [reflexivity|]. rewrite (Hf _ _ Hab), IH by exact Hf. reflexivity. Qed.

Lemma nodup_str_spec l : nodup_str l = true -> NoDup l.
Proof.
  induction l as [|a t IH]; cbn [nodup_str]; [constructor|].
  intros H. apply andb_true_iff in H as [Ha Ht]. apply negb_true_iff in Ha. constructor; [|apply IH; exact Ht].
  intros Hi. apply list_contains_spec in Hi. congruence.
Qed.

Section NoDupNames.
Variable goify : str -> bool -> str.
Variable sort_defs : list def -> list def.
Variable sort_strs : list str -> list str.
Hypothesis sort_defs_perm : forall l, Permutation (sort_defs l) l.
Hypothesis sort_strs_perm : forall l, Permutation (sort_strs l) l.

(* every identifier the generated package declares at top level: enum types and their constants,
   interfaces and the structs behind them, stand-alone structs, Params structs *)
Definition declared (out : output) : list str :=
  flat_map (fun e => e_type e :: map (fun v => fst (fst v)) (e_vals e)) (o_enums out)
  ++ flat_map (fun x => fst x :: map sd_name (snd x)) (o_ifaces out)
  ++ map sd_name (o_types out)
  ++ map (fun x => sd_name (fst x)) (o_methods out).

(* the same, read off the schema *)
Definition declared_by (o : list group) (ms : list def) : list str :=
  flat_map (fun g => goify (fst g) true :: map (fun d => enum_value_name goify (d_name d) (fst g)) (snd g)) (enums_of o)
  ++ flat_map (fun g => goify (fst g) true :: map (fun d => goify (member_name goify (fst g) d) true) (snd g)) (types_of o)
  ++ map (fun d => goify (d_name d) true) (singles_of o)
  ++ map (fun m => goify (d_name m ++ l_Params) true) ms.

Lemma gen_struct_name o n d impl sd : gen_struct goify o n d impl = Ok sd -> sd_name sd = goify n true.
Proof. intros H. apply (gen_struct_spec goify) in H. tauto. Qed.

Theorem declared_perm o ms out : groups_ok o ->
  emit goify sort_defs sort_strs o ms = Ok out -> Permutation (declared out) (declared_by o ms).
Proof.
  intros [Hnd Hk] He. unfold emit in He.
  destruct (gen_types goify sort_defs o) as [ty| |] eqn:Ety; cbn [obind] in He; try discriminate.
  destruct (gen_ifaces goify sort_defs sort_strs o) as [ifs| |] eqn:Eif; cbn [obind] in He; try discriminate.
  destruct (gen_methods goify sort_defs o ms) as [me| |] eqn:Eme; cbn [obind] in He; try discriminate.
  injection He as <-. unfold declared, declared_by. cbn [o_enums o_types o_ifaces o_methods].
  apply omap_list_ok in Ety, Eif, Eme.
  repeat apply Permutation_app.
  - (* enums *)
    unfold gen_enums. rewrite flat_map_flat_map'.
    etransitivity.
    + apply (flat_map_perm_pointwise _ (fun k => match lookup k (enums_of o) with
                 | Some l => goify k true :: map (fun d => enum_value_name goify (d_name d) k) (sort_defs l)
                 | None => [] end)).
      intros k _. destruct (lookup k (enums_of o)) as [l|]; cbn [flat_map map app]; [|reflexivity].
      rewrite app_nil_r. unfold gen_enum. cbn [e_type e_vals]. rewrite map_map. cbn [fst]. reflexivity.
    + etransitivity; [apply (keyed_flat_map (fun k l => goify k true :: map (fun d => enum_value_name goify (d_name d) k) (sort_defs l)) (fun _ => []));
                      [apply filter_keys_nodup; exact Hnd|apply sort_strs_perm]|].
      apply flat_map_perm_pointwise. intros g _. constructor. apply Permutation_map. apply sort_defs_perm.
  - (* interfaces *)
    rewrite <- (Forall2_flat_map_eq _ (fun k => match lookup k (types_of o) with
                 | Some l => goify k true :: map (fun d => goify (member_name goify k d) true) (sort_defs l)
                 | None => [goify k true] end) _ _ _ Eif).
    + etransitivity; [apply (keyed_flat_map (fun k l => goify k true :: map (fun d => goify (member_name goify k d) true) (sort_defs l)) (fun k => [goify k true]));
                      [apply filter_keys_nodup; exact Hnd|apply sort_strs_perm]|].
      apply flat_map_perm_pointwise. intros g _. constructor. apply Permutation_map. apply sort_defs_perm.
    + intros k x Hx. destruct (lookup k (types_of o)) as [l|].
      * unfold gen_iface in Hx. destruct (omap_list _ (sort_defs l)) as [ss| |] eqn:Ess; cbn [obind] in Hx; try discriminate.
        injection Hx as <-. cbn [fst snd]. f_equal. apply omap_list_ok in Ess.
        apply (Forall2_map_eq _ _ _ _ _ Ess). intros d sd Hd. symmetry. eapply gen_struct_name. exact Hd.
      * injection Hx as <-. reflexivity.
  - (* stand-alone structs *)
    rewrite <- (Forall2_map_eq _ (fun d => goify (d_name d) true) _ _ _ Ety).
    + apply Permutation_map. apply sort_defs_perm.
    + intros d sd Hd. symmetry. eapply gen_struct_name. exact Hd.
  - (* Params structs *)
    rewrite <- (Forall2_map_eq _ (fun m => goify (d_name m ++ l_Params) true) _ _ _ Eme).
    + apply Permutation_map. apply sort_defs_perm.
    + intros m x Hx. unfold gen_method in Hx.
      destruct (gen_struct goify o (d_name m ++ l_Params) m []) as [sd| |] eqn:Es; cbn [obind] in Hx; try discriminate.
      destruct (type_id goify o (d_type m)); [|discriminate].
      destruct (gen_args goify o m); cbn [obind] in Hx; try discriminate. injection Hx as <-. cbn [fst].
      symmetry. eapply gen_struct_name. exact Es.
Qed.

End NoDupNames.

Lemma flat_map_cons_split {A B} (a : A -> B) (b : A -> list B) l :
  Permutation (flat_map (fun g => a g :: b g) l) (map a l ++ flat_map b l).
Proof.
  induction l as [|x t IH]; cbn [flat_map map app]; [reflexivity|].
  constructor. rewrite IH. rewrite !app_assoc. apply Permutation_app_tail. apply Permutation_app_comm.
Qed.

Section NoDupNames2.
Variable goify : str -> bool -> str.
Variable sort_defs : list def -> list def.
Variable sort_strs : list str -> list str.
Hypothesis sort_defs_perm : forall l, Permutation (sort_defs l) l.
Hypothesis sort_strs_perm : forall l, Permutation (sort_strs l) l.

Lemma member_init_name_eq k d : member_init_name goify k d = goify (member_name goify k d) true.
Proof. unfold member_init_name, member_name. destruct (beq _ _); reflexivity. Qed.

Lemma declared_by_top objs ms o : Permutation o (groups objs) ->
  Permutation (declared_by goify o ms) (top_names goify (mkschema objs ms)).
Proof.
  intros Hp. unfold declared_by, top_names. cbn [s_objects s_methods].
  rewrite (flat_map_cons_split (fun g => goify (fst g) true)), (flat_map_cons_split (fun g => goify (fst g) true)).
  rewrite <- !app_assoc.
  assert (He : Permutation (enums_of o) (enums_of (groups objs))) by (apply filter_perm, Hp).
  assert (Ht : Permutation (types_of o) (types_of (groups objs))) by (apply filter_perm, Hp).
  assert (Hs : Permutation (singles_of o) (singles_of (groups objs))) by (apply flat_map_perm, Hp).
  repeat apply Permutation_app.
  - apply Permutation_map. exact He.
  - apply flat_map_perm. exact He.
  - apply Permutation_map. exact Ht.
  - rewrite (flat_map_perm _ _ _ Ht). apply Permutation_refl'. apply flat_map_ext. intros g.
    apply map_ext. intros d. symmetry. apply member_init_name_eq.
  - apply Permutation_map. exact Hs.
  - reflexivity.
Qed.

(* under the decidable name check of the subset, no identifier is declared twice *)
Theorem declared_nodup objs ms o out :
  Permutation o (groups objs) -> names_ok goify (mkschema objs ms) = true ->
  emit goify sort_defs sort_strs o ms = Ok out -> NoDup (declared out).
Proof.
  intros Hp Hn He.
  assert (Hok : groups_ok o) by (eapply groups_ok_perm; [apply Permutation_sym; exact Hp|apply groups_groups_ok]).
  unfold names_ok in Hn. repeat (apply andb_true_iff in Hn as [Hn _]). apply nodup_str_spec in Hn.
  eapply Permutation_NoDup; [|exact Hn]. symmetry.
  rewrite (declared_perm goify sort_defs sort_strs sort_defs_perm sort_strs_perm o ms out Hok He).
  apply declared_by_top. exact Hp.
Qed.

End NoDupNames2.

