(* Proofs about TLGen/Parser.v and TLGen/Printer.v:
     parse_total   : ParseSchema never panics, for every source string and every fuel
     parse_print   : for every schema value of the subset, parsing its canonical text gives it back
     parse_terminates : the loop budget [parse] gives itself (linear in the source) is never exhausted *)
From Coq Require Import String.
From Coq Require Import ZArith NArith List Lia ZifyN ZifyNat ZifyBool Bool.
From MTV Require Import Base.Bytes Base.Outcome Base.Str TLGen.Parser TLGen.Printer.
Import ListNotations.
Open Scope N_scope.
Ltac Zify.zify_post_hook ::= Z.div_mod_to_equations.

(* ==================================================================================== *)
(* Part 1: totality                                                                       *)

Definition live (c : cursor) : Prop := after c <> [].

Definition cres_live {A} (r : cres A) : Prop :=
  match r with COk _ c => live c | CEof c => live c | CPanic => False end.

Definition pres_live {A} (r : pres A) : Prop :=
  match r with POk _ c => live c | PExcluded c => live c | PPanic => False | _ => True end.

Lemma next_live c : live c -> live (fst (next c)).
Proof.
  unfold live, next. destruct c as [b [|r [|r' t]]]; cbn [after fst]; intros H; congruence.
Qed.

Lemma unread_live n c : live c -> live (unread n c).
Proof.
  revert c; induction n as [|n IH]; intros c H; cbn [unread]; [assumption|].
  destruct (before c); [assumption|]. apply IH. unfold live; cbn [after]. discriminate.
Qed.

Lemma skip_live n c : live c -> live (skip n c).
Proof.
  revert c; induction n as [|n IH]; intros c H; cbn [skip]; [assumption|].
  pose proof (next_live c H) as Hn. destruct (next c) as [c' m]. cbn [fst] in Hn.
  destruct m; [apply IH|]; assumption.
Qed.

Lemma skip_spaces_go_live b a : a <> [] -> exists c, skip_spaces_go b a = Some c /\ live c.
Proof.
  revert b; induction a as [|r t IH]; intros b H; [congruence|].
  cbn [skip_spaces_go]. destruct (is_space r).
  - destruct t as [|r' t']; [eexists; split; [reflexivity|unfold live; cbn; discriminate]|].
    apply IH. discriminate.
  - eexists; split; [reflexivity|unfold live; cbn; discriminate].
Qed.

Lemma skip_spaces_live c : live c -> exists c', skip_spaces c = Some c' /\ live c'.
Proof. intros H. apply skip_spaces_go_live. exact H. Qed.

Lemma read_at_go_live x acc b a : a <> [] -> cres_live (read_at_go x acc b a).
Proof.
  revert acc b; induction a as [|r t IH]; intros acc b H; [congruence|].
  cbn [read_at_go]. destruct (r =? x); [cbn; unfold live; cbn; discriminate|].
  destruct t as [|r' t']; [cbn; unfold live; cbn; discriminate|]. apply IH. discriminate.
Qed.

Lemma read_at_live x c : live c -> cres_live (read_at x c).
Proof. intros H. apply read_at_go_live. exact H. Qed.

Lemma read_digits_go_live acc b a : a <> [] -> cres_live (read_digits_go acc b a).
Proof.
  revert acc b; induction a as [|r t IH]; intros acc b H; [congruence|].
  cbn [read_digits_go]. destruct (is_digit r); [|cbn; unfold live; cbn; discriminate].
  destruct t as [|r' t']; [cbn; unfold live; cbn; discriminate|]. apply IH. discriminate.
Qed.

Lemma read_digits_live c : live c -> cres_live (read_digits c).
Proof. intros H. apply read_digits_go_live. exact H. Qed.

Lemma is_next_go_live s c0 c : live c0 -> live c -> exists v c', is_next_go s c0 c = COk v c' /\ live c'.
Proof.
  revert c; induction s as [|e s IH]; intros c H0 H; cbn [is_next_go].
  - eauto.
  - unfold current. destruct (after c) as [|r t] eqn:E; [unfold live in H; congruence|]. cbn [hd_error].
    destruct (r =? e).
    + apply IH; [exact H0|]. apply next_live. exact H.
    + eexists _, _. split; [reflexivity|exact H0].
Qed.

Lemma is_next_live s c : live c -> exists v c', is_next s c = COk v c' /\ live c'.
Proof. intros H. apply is_next_go_live; exact H. Qed.

Lemma cbind_live {A B} (x : cres A) (f : A -> cursor -> pres B) :
  cres_live x -> (forall a c, live c -> pres_live (f a c)) -> pres_live (cbind x f).
Proof. destruct x; cbn; intros H Hf; [apply Hf; assumption|exact I|destruct H]. Qed.

Lemma sbind_live {B} (x : option cursor) (f : cursor -> pres B) :
  (exists c, x = Some c /\ live c) -> (forall c, live c -> pres_live (f c)) -> pres_live (sbind x f).
Proof. intros [c [-> H]] Hf. cbn. apply Hf. exact H. Qed.

Lemma pbind_live {A B} (x : pres A) (f : A -> cursor -> pres B) :
  pres_live x -> (forall a c, live c -> pres_live (f a c)) -> pres_live (pbind x f).
Proof. destruct x; cbn; intros H Hf; try exact I; try assumption. apply Hf; assumption. Qed.

Lemma is_next_bind_live {B} s c (f : bool -> cursor -> pres B) :
  live c -> (forall v c, live c -> pres_live (f v c)) -> pres_live (cbind (is_next s c) f).
Proof.
  intros H Hf. destruct (is_next_live s c H) as (v & c' & -> & H'). cbn. apply Hf. exact H'.
Qed.

Lemma parse_param_live c : live c -> pres_live (parse_param c).
Proof.
  intros H. unfold parse_param.
  apply sbind_live; [apply skip_spaces_live; exact H|]. clear c H. intros c H.
  apply cbind_live; [apply read_at_live; exact H|]. clear c H. intros name c H.
  assert (Haf : forall opt bit c, live c ->
    pres_live (cbind (is_next l_vector c) (fun isvec c =>
      if isvec then
        let c := skip 1 c in
        cbind (read_at c_gt c) (fun ty c => POk (mkparam name ty true opt bit) (skip 1 c))
      else cbind (read_at c_space c) (fun ty c => POk (mkparam name ty false opt bit) c)))).
  { intros opt bit c0 H0. apply is_next_bind_live; [exact H0|]. intros [|] c1 H1.
    - cbv zeta. apply cbind_live; [apply read_at_live, skip_live; exact H1|].
      intros ty c2 H2. cbn [pres_live]. apply skip_live. exact H2.
    - apply cbind_live; [apply read_at_live; exact H1|]. intros ty c2 H2. cbn. exact H2. }
  apply is_next_bind_live; [apply skip_live; exact H|]. clear c H. intros [|] c H; cbv zeta.
  - apply cbind_live; [apply read_digits_live; exact H|]. clear c H. intros ds c H.
    destruct (atoi ds) as [bit|]; [|exact I].
    apply is_next_bind_live; [exact H|]. intros [|] c1 H1; [|exact I]. apply Haf. exact H1.
  - apply Haf. exact H.
Qed.

Lemma params_loop_live fuel c acc : live c -> pres_live (params_loop fuel c acc).
Proof.
  revert c acc; induction fuel as [|f IH]; intros c acc H; cbn [params_loop]; [exact I|].
  apply is_next_bind_live; [exact H|]. intros [|] c1 H1; [cbn; exact H1|].
  apply pbind_live; [apply parse_param_live; exact H1|]. intros p c2 H2.
  apply sbind_live; [apply skip_spaces_live; exact H2|]. intros c3 H3. apply IH. exact H3.
Qed.

Lemma skip_excluded_live {A} c : live c -> pres_live (@skip_excluded A c).
Proof.
  intros H. unfold skip_excluded. apply cbind_live; [apply read_at_live; exact H|].
  intros _ c1 H1. cbn [pres_live]. apply skip_live. exact H1.
Qed.

Lemma parse_definition_live fuel c : live c -> pres_live (parse_definition fuel c).
Proof.
  intros H. unfold parse_definition.
  apply sbind_live; [apply skip_spaces_live; exact H|]. clear c H. intros c H.
  apply cbind_live; [apply read_at_live; exact H|]. clear c H. intros typ c H.
  destruct (list_contains excluded_types typ); [apply skip_excluded_live; exact H|]. cbv zeta.
  apply cbind_live; [apply read_at_live, unread_live; exact H|]. clear c H. intros name c H.
  destruct (list_contains excluded_definitions name); [apply skip_excluded_live; exact H|]. cbv zeta.
  apply cbind_live; [apply read_at_live, skip_live; exact H|]. clear c H. intros crcs c H.
  apply sbind_live; [apply skip_spaces_live; exact H|]. clear c H. intros c H.
  apply pbind_live; [apply params_loop_live; exact H|]. clear c H. intros params c H.
  apply sbind_live; [apply skip_spaces_live; exact H|]. clear c H. intros c H.
  apply is_next_bind_live; [exact H|]. clear c H. intros [|] c H.
  - apply cbind_live; [apply read_at_live, skip_live; exact H|]. intros ty c1 H1.
    destruct (parse_hex32 crcs); [cbn [pres_live]; apply skip_live; exact H1|exact I].
  - apply cbind_live; [apply read_at_live; exact H|]. intros ty c1 H1.
    destruct (parse_hex32 crcs); [cbn [pres_live]; apply skip_live; exact H1|exact I].
Qed.

Lemma main_loop_no_panic fuel c isfun objs meths :
  live c -> main_loop fuel c isfun objs meths <> SPanic.
Proof.
  revert c isfun objs meths; induction fuel as [|f IH]; intros c isfun objs meths H; cbn [main_loop]; [discriminate|].
  destruct (skip_spaces_live c H) as (c1 & -> & H1).
  destruct (is_next_live l_functions c1 H1) as ([|] & c2 & -> & H2); [apply IH; exact H2|].
  destruct (is_next_live l_types c2 H2) as ([|] & c3 & -> & H3); [apply IH; exact H3|].
  destruct (is_next_live l_slashes c3 H3) as ([|] & c4 & -> & H4).
  - pose proof (read_at_live c_nl c4 H4) as Hr. destruct (read_at c_nl c4) as [line c5|c5|]; cbn in Hr; [|discriminate|destruct Hr].
    destruct (classify_comment line); try discriminate; apply IH, skip_live; exact Hr.
  - pose proof (parse_definition_live f c4 H4) as Hd.
    destruct (parse_definition f c4) as [d c5|  |c5| | |]; cbn [pres_live] in Hd.
    + destruct isfun; [apply IH; exact Hd|]. destruct (d_isvec d); [discriminate|apply IH; exact Hd].
    + discriminate.
    + apply IH. exact Hd.
    + discriminate.
    + destruct Hd.
    + discriminate.
Qed.

Theorem parse_runes_total fuel src : parse_runes fuel src <> SPanic.
Proof.
  unfold parse_runes. destruct src as [|r t]; [discriminate|].
  apply main_loop_no_panic. unfold live, new_cursor; cbn. discriminate.
Qed.

Theorem parse_total : forall fuel source, parse_fuel fuel source <> SPanic.
Proof. intros. apply parse_runes_total. Qed.

(* ==================================================================================== *)
(* Part 2: parse (print s) = s                                                            *)

(* ---- cursor methods on a text that is known piecewise ---- *)

Definition ascii (s : str) : Prop := Forall (fun r => r < 128) s.

Lemma unread_app l b a : unread (length l) (mkcur (l ++ b) a) = mkcur b (rev l ++ a).
Proof.
  revert a; induction l as [|z l IH]; intros a; cbn [length unread app rev before after]; [reflexivity|].
  rewrite IH, <- app_assoc. reflexivity.
Qed.

Lemma app_cons_shape {A} (w : list A) x r : exists y t, w ++ x :: r = y :: t.
Proof. destruct w as [|z w]; cbn [app]; eauto. Qed.

Lemma next_app b e s y r : fst (next (mkcur b (e :: s ++ y :: r))) = mkcur (e :: b) (s ++ y :: r).
Proof.
  destruct (app_cons_shape s y r) as (z & t & E). rewrite E. reflexivity.
Qed.

Lemma skip_spaces_at b x r : is_space x = false -> skip_spaces (mkcur b (x :: r)) = Some (mkcur b (x :: r)).
Proof. intros H. unfold skip_spaces; cbn [before after skip_spaces_go]. rewrite H. reflexivity. Qed.

Lemma skip_spaces_one b w x r : is_space w = true -> is_space x = false ->
  skip_spaces (mkcur b (w :: x :: r)) = Some (mkcur (w :: b) (x :: r)).
Proof. intros Hw Hx. unfold skip_spaces; cbn [before after skip_spaces_go]. rewrite Hw, Hx. reflexivity. Qed.

Lemma read_at_go_spec x acc b w r : ~ In x w ->
  read_at_go x acc b (w ++ x :: r) = COk (rev acc ++ w) (mkcur (rev w ++ b) (x :: r)).
Proof.
  revert acc b; induction w as [|z w IH]; intros acc b Hn; cbn [app read_at_go rev].
  - rewrite N.eqb_refl, app_nil_r. reflexivity.
  - destruct (N.eqb_spec z x) as [->|Hz]; [exfalso; apply Hn; left; reflexivity|].
    destruct (app_cons_shape w x r) as (y & t & E). rewrite E at 1.
    rewrite IH by (intros Hi; apply Hn; right; exact Hi). cbn [rev]. rewrite <- !app_assoc. reflexivity.
Qed.

Lemma read_at_spec x b w r : ~ In x w ->
  read_at x (mkcur b (w ++ x :: r)) = COk w (mkcur (rev w ++ b) (x :: r)).
Proof. intros H. unfold read_at; cbn [before after]. rewrite read_at_go_spec by exact H. reflexivity. Qed.

Lemma read_digits_go_spec acc b ds x r : forallb is_digit ds = true -> is_digit x = false ->
  read_digits_go acc b (ds ++ x :: r) = COk (rev acc ++ ds) (mkcur (rev ds ++ b) (x :: r)).
Proof.
  revert acc b; induction ds as [|z w IH]; intros acc b Hd Hx; cbn [app read_digits_go rev].
  - rewrite Hx, app_nil_r. reflexivity.
  - cbn [forallb] in Hd. apply andb_true_iff in Hd as [Hz Hd]. rewrite Hz.
    destruct (app_cons_shape w x r) as (y & t & E). rewrite E at 1.
    rewrite IH by assumption. cbn [rev]. rewrite <- !app_assoc. reflexivity.
Qed.

Lemma read_digits_spec b ds x r : forallb is_digit ds = true -> is_digit x = false ->
  read_digits (mkcur b (ds ++ x :: r)) = COk ds (mkcur (rev ds ++ b) (x :: r)).
Proof. intros. unfold read_digits; cbn [before after]. rewrite read_digits_go_spec by assumption. reflexivity. Qed.

Lemma skip1_spec b x y r : skip 1 (mkcur b (x :: y :: r)) = mkcur (x :: b) (y :: r).
Proof. reflexivity. Qed.

Lemma skip2_spec b x y z r : skip 2 (mkcur b (x :: y :: z :: r)) = mkcur (y :: x :: b) (z :: r).
Proof. reflexivity. Qed.

(* IsNext on a text that starts with the pattern *)
Lemma is_next_go_match s c0 b y r :
  is_next_go s c0 (mkcur b (s ++ y :: r)) = COk true (mkcur (rev s ++ b) (y :: r)).
Proof.
  revert b; induction s as [|e s IH]; intros b; cbn [is_next_go app rev]; [reflexivity|].
  unfold current; cbn [after hd_error]. rewrite N.eqb_refl.
  rewrite next_app, IH, <- app_assoc. reflexivity.
Qed.

Lemma is_next_match s b y r : is_next s (mkcur b (s ++ y :: r)) = COk true (mkcur (rev s ++ b) (y :: r)).
Proof. apply is_next_go_match. Qed.

(* IsNext on a text [ty ++ x :: r] where [ty] does not start with the pattern and [x] does not occur
   in the pattern: the comparison fails *)
Lemma is_next_go_nomatch s c0 b ty x r :
  has_prefix s ty = false -> ~ In x s ->
  is_next_go s c0 (mkcur b (ty ++ x :: r)) = COk false c0.
Proof.
  revert b ty; induction s as [|e s IH]; intros b ty Hp Hx; [cbn in Hp; discriminate|].
  cbn [is_next_go]. unfold current.
  destruct ty as [|t ty]; cbn [app after hd_error].
  - destruct (N.eqb_spec x e) as [->|Hne]; [exfalso; apply Hx; left; reflexivity|reflexivity].
  - cbn [has_prefix] in Hp. destruct (N.eqb_spec t e) as [->|Hne]; [|reflexivity].
    rewrite N.eqb_refl in Hp. cbn [andb] in Hp. rewrite next_app.
    apply IH; [exact Hp|intros Hi; apply Hx; right; exact Hi].
Qed.

Lemma is_next_nomatch s b ty x r :
  ascii s -> has_prefix s ty = false -> ~ In x s ->
  is_next s (mkcur b (ty ++ x :: r)) = COk false (mkcur b (ty ++ x :: r)).
Proof. intros _ Hp Hx. apply is_next_go_nomatch; assumption. Qed.

Lemma is_next_head s b x r : ascii s -> match s with e :: _ => x <> e | [] => False end ->
  is_next s (mkcur b (x :: r)) = COk false (mkcur b (x :: r)).
Proof.
  intros _ Hx. destruct s as [|e s]; [destruct Hx|].
  unfold is_next; cbn [is_next_go]. unfold current; cbn [after hd_error].
  destruct (N.eqb_spec x e); [contradiction|]. reflexivity.
Qed.

(* ---- numbers ---- *)

Fixpoint value_rev (base : N) (l : list N) : N :=
  match l with [] => 0 | d :: t => d + base * value_rev base t end.

Lemma digits_rev_value base fuel n : 1 < base -> n < base ^ N.of_nat fuel ->
  value_rev base (digits_rev base fuel n) = n.
Proof.
  intros Hb. revert n; induction fuel as [|f IH]; intros n Hn.
  - cbn in Hn. cbn. lia.
  - cbn [digits_rev value_rev]. rewrite Nat2N.inj_succ, N.pow_succ_r' in Hn.
    destruct (N.eqb_spec (n / base) 0) as [E|E].
    + cbn [value_rev]. pose proof (N.div_mod' n base). lia.
    + rewrite IH.
      * pose proof (N.div_mod' n base). lia.
      * apply N.div_lt_upper_bound; lia.
Qed.

Lemma digits_rev_lt base fuel n : 1 < base -> Forall (fun d => d < base) (digits_rev base fuel n).
Proof.
  intros Hb. revert n; induction fuel as [|f IH]; intros n; cbn [digits_rev]; [constructor|].
  constructor; [apply N.mod_lt; lia|]. destruct (n / base =? 0); [constructor|apply IH].
Qed.

Lemma digits_rev_nonnil base f n : digits_rev base (S f) n <> [].
Proof. cbn [digits_rev]. discriminate. Qed.

Lemma hex_value_app acc s1 s2 :
  hex_value acc (s1 ++ s2) = match hex_value acc s1 with Some v => hex_value v s2 | None => None end.
Proof.
  revert acc; induction s1 as [|r t IH]; intros acc; cbn [app hex_value]; [reflexivity|].
  destruct (hex_digit r); [apply IH|reflexivity].
Qed.

Lemma small16 d : d < 16 ->
  d = 0 \/ d = 1 \/ d = 2 \/ d = 3 \/ d = 4 \/ d = 5 \/ d = 6 \/ d = 7 \/ d = 8 \/ d = 9 \/ d = 10 \/ d = 11
  \/ d = 12 \/ d = 13 \/ d = 14 \/ d = 15.
Proof. lia. Qed.

Lemma hex_digit_char d : d < 16 -> hex_digit (hex_char d) = Some d /\ hex_char d <> 32 /\ hex_char d < 128.
Proof.
  intros H. apply small16 in H.
  repeat (destruct H as [->|H]; [vm_compute; repeat split; congruence|]). subst.
  vm_compute; repeat split; congruence.
Qed.

Lemma hex_value_rev acc l : Forall (fun d => d < 16) l ->
  hex_value acc (map hex_char (rev l)) = Some (acc * 16 ^ N.of_nat (length l) + value_rev 16 l).
Proof.
  revert acc; induction l as [|d t IH]; intros acc Hl.
  - cbn. f_equal. lia.
  - inversion Hl as [|? ? Hd Ht]; subst. cbn [rev]. rewrite map_app, hex_value_app, IH by assumption.
    cbn [map hex_value]. destruct (hex_digit_char d Hd) as [-> _]. cbn [hex_value value_rev length].
    f_equal. rewrite Nat2N.inj_succ, N.pow_succ_r'. lia.
Qed.

Lemma to_hex_parse n : n < 4294967296 -> parse_hex32 (to_hex n) = Some n.
Proof.
  intros Hn. unfold parse_hex32, to_hex.
  pose proof (digits_rev_lt 16 8 n ltac:(lia)) as Hl.
  destruct (map hex_char (rev (digits_rev 16 8 n))) as [|c s] eqn:E.
  - apply map_eq_nil in E. apply (f_equal (@rev N)) in E. rewrite rev_involutive in E. cbn in E.
    exfalso. exact (digits_rev_nonnil 16 7 n E).
  - rewrite <- E, hex_value_rev by exact Hl. rewrite digits_rev_value; [|lia|cbn; lia].
    rewrite N.mul_0_l, N.add_0_l.
    destruct (N.ltb_spec n 4294967296); [reflexivity|lia].
Qed.

Lemma to_hex_chars n : ~ In 32 (to_hex n) /\ ascii (to_hex n) /\ to_hex n <> [].
Proof.
  unfold to_hex. pose proof (digits_rev_lt 16 8 n ltac:(lia)) as Hl.
  assert (Hr : Forall (fun d => d < 16) (rev (digits_rev 16 8 n))).
  { apply Forall_forall. intros d Hd. apply in_rev in Hd. revert d Hd. apply Forall_forall. exact Hl. }
  split; [|split].
  - intros Hi. apply in_map_iff in Hi as (d & Hd & Hin).
    rewrite Forall_forall in Hr. destruct (hex_digit_char d (Hr d Hin)) as (_ & Hne & _). congruence.
  - unfold ascii. apply Forall_forall. intros c Hc. apply in_map_iff in Hc as (d & <- & Hin).
    rewrite Forall_forall in Hr. destruct (hex_digit_char d (Hr d Hin)) as (_ & _ & Hlt). exact Hlt.
  - intros E. apply map_eq_nil in E. apply (f_equal (@rev N)) in E. rewrite rev_involutive in E. cbn in E.
    exact (digits_rev_nonnil 16 7 n E).
Qed.

Definition dec_ok (n : N) : bool :=
  match atoi (to_dec n) with Some v => v =? n | None => false end
  && forallb is_digit (to_dec n) && forallb (fun r => r <? 128) (to_dec n)
  && match to_dec n with [] => false | _ => true end.

Lemma small32 d : d < 32 -> In d [0;1;2;3;4;5;6;7;8;9;10;11;12;13;14;15;16;17;18;19;20;21;22;23;24;25;26;27;28;29;30;31].
Proof. intros H. cbn [In]. lia. Qed.

Lemma dec_ok_small n : n < 32 -> dec_ok n = true.
Proof.
  intros H. apply small32 in H.
  assert (A : forallb dec_ok [0;1;2;3;4;5;6;7;8;9;10;11;12;13;14;15;16;17;18;19;20;21;22;23;24;25;26;27;28;29;30;31] = true)
    by (vm_compute; reflexivity).
  rewrite forallb_forall in A. apply A. exact H.
Qed.

Lemma to_dec_facts n : n < 32 ->
  atoi (to_dec n) = Some n /\ forallb is_digit (to_dec n) = true /\ ascii (to_dec n) /\ to_dec n <> [].
Proof.
  intros H. pose proof (dec_ok_small n H) as Hd. unfold dec_ok in Hd.
  repeat (apply andb_true_iff in Hd as [Hd ?]).
  split; [|split; [|split]].
  - destruct (atoi (to_dec n)) as [v|]; [|discriminate]. apply N.eqb_eq in Hd. congruence.
  - assumption.
  - unfold ascii. apply Forall_forall. intros r Hr. rewrite forallb_forall in H1. specialize (H1 r Hr). lia.
  - destruct (to_dec n); [discriminate|discriminate].
Qed.

(* ---- character classes ---- *)

Lemma ident_char_facts r : ident_char r = true ->
  is_space r = false /\ r < 128 /\ r <> 32 /\ r <> 35 /\ r <> 58 /\ r <> 59 /\ r <> 62 /\ r <> 10 /\ r <> 61 /\ r <> 45 /\ r <> 47.
Proof.
  unfold ident_char, is_letter, is_ascii_digit, is_space. intros H.
  assert (Hr : (97 <= r <= 122) \/ (65 <= r <= 90) \/ (48 <= r <= 57) \/ r = 95 \/ r = 46) by lia.
  split; [|lia].
  apply Bool.not_true_iff_false. intros Hs. lia.
Qed.

Lemma ident_facts s : ident s = true ->
  exists r t, s = r :: t /\ is_letter r = true /\ Forall (fun c => ident_char c = true) s.
Proof.
  unfold ident. destruct s as [|r t]; [discriminate|]. intros H. apply andb_true_iff in H as [Hl Hf].
  exists r, t. split; [reflexivity|]. split; [exact Hl|]. apply Forall_forall. apply forallb_forall. exact Hf.
Qed.

Lemma letter_ident_char r : is_letter r = true -> ident_char r = true.
Proof. unfold ident_char. intros ->. reflexivity. Qed.

Lemma ident_ascii s : Forall (fun c => ident_char c = true) s -> ascii s.
Proof. unfold ascii. apply Forall_impl. intros c Hc. apply ident_char_facts in Hc. tauto. Qed.

Lemma ident_notin s x : Forall (fun c => ident_char c = true) s -> ident_char x = false -> ~ In x s.
Proof. intros Hs Hx Hi. rewrite Forall_forall in Hs. specialize (Hs x Hi). congruence. Qed.

(* ---- variants with a non-emptiness side condition ---- *)

Lemma nonnil_shape {A} (w : list A) : w <> [] -> exists y t, w = y :: t.
Proof. destruct w; [congruence|eauto]. Qed.

Lemma is_next_match' s b w : w <> [] -> is_next s (mkcur b (s ++ w)) = COk true (mkcur (rev s ++ b) w).
Proof. intros H. destruct (nonnil_shape w H) as (y & t & ->). apply is_next_match. Qed.

Lemma skip1' b x w : w <> [] -> skip 1 (mkcur b (x :: w)) = mkcur (x :: b) w.
Proof. intros H. destruct (nonnil_shape w H) as (y & t & ->). reflexivity. Qed.

Lemma app_nonnil_r {A} (l r : list A) : r <> [] -> l ++ r <> [].
Proof. destruct l; cbn; [auto|discriminate]. Qed.

Lemma app_nonnil_l {A} (l r : list A) : l <> [] -> l ++ r <> [].
Proof. destruct l; cbn; [congruence|discriminate]. Qed.

Ltac nonnil :=
  solve [ discriminate | assumption
        | apply app_nonnil_r; nonnil | apply app_nonnil_l; nonnil ].

Definition head_is (P : N -> Prop) (w : str) : Prop := exists x r, w = x :: r /\ P x.

Lemma head_is_app P l r : head_is P l -> head_is P (l ++ r).
Proof. intros (x & t & -> & H). exists x, (t ++ r). split; [reflexivity|exact H]. Qed.

Lemma head_is_cons (P : N -> Prop) x r : P x -> head_is P (x :: r).
Proof. intros H. exists x, r. auto. Qed.

Lemma head_is_impl (P Q : N -> Prop) w : (forall x, P x -> Q x) -> head_is P w -> head_is Q w.
Proof. intros H (x & t & -> & Hx). exists x, t. auto. Qed.

Lemma skip_spaces_at' b w : head_is (fun x => is_space x = false) w -> skip_spaces (mkcur b w) = Some (mkcur b w).
Proof. intros (x & t & -> & H). apply skip_spaces_at. exact H. Qed.

Lemma skip_spaces_one' b w rest : is_space w = true -> head_is (fun x => is_space x = false) rest ->
  skip_spaces (mkcur b (w :: rest)) = Some (mkcur (w :: b) rest).
Proof. intros Hw (x & t & -> & H). apply skip_spaces_one; assumption. Qed.

Lemma is_next_head' s b w : ascii s -> head_is (fun x => match s with e :: _ => x <> e | [] => False end) w ->
  is_next s (mkcur b w) = COk false (mkcur b w).
Proof. intros Ha (x & t & -> & H). apply is_next_head; assumption. Qed.

Lemma head_is_nonnil P w : head_is P w -> w <> [].
Proof. intros (x & t & -> & _). discriminate. Qed.

Lemma ident_head s : ident s = true -> head_is (fun x => is_letter x = true) s.
Proof. intros H. destruct (ident_facts s H) as (r & t & -> & Hl & _). exists r, t. auto. Qed.

(* ---- one parameter ---- *)

Lemma has_prefix_cons_false s e x t : s = e :: t -> x <> e -> forall r, has_prefix s (x :: r) = false.
Proof. intros -> Hne r. cbn [has_prefix]. destruct (N.eqb_spec e x); [congruence|reflexivity]. Qed.

Lemma shown_facts p : wf_param p = true ->
  let sh := shown_type p in
  ~ In 32 sh /\ ~ In 62 sh /\ has_prefix l_flagsdot sh = false /\ has_prefix l_vector sh = false /\ sh <> []
  /\ (exists x t, sh = x :: t /\ is_space x = false)
  /\ forall v o bit, fix_bitflags (mkparam (p_name p) sh v o bit) = mkparam (p_name p) (p_type p) v o bit.
Proof.
  intros Hw. unfold wf_param in Hw. apply andb_true_iff in Hw as [Hw _]. apply andb_true_iff in Hw as [Hn Ht].
  unfold type_ok in Ht. apply andb_true_iff in Ht as [Ht Hf]. apply andb_true_iff in Ht as [Hi Hv].
  apply negb_true_iff in Hf, Hv.
  unfold shown_type. destruct (beq (p_name p) l_flags && beq (p_type p) l_bitflags) eqn:E; cbv zeta.
  - apply andb_true_iff in E as [E1 E2]. apply beq_eq in E2.
    repeat split; try (vm_compute; intuition congruence).
    + exists 35, []. split; reflexivity.
    + intros v o bit. unfold fix_bitflags. cbn [p_name p_type p_vector p_optional p_bit].
      rewrite E1. cbn. rewrite E2. reflexivity.
  - destruct (ident_facts _ Hi) as (r & t & Es & Hl & Hall).
    repeat split.
    + apply ident_notin; [exact Hall|reflexivity].
    + apply ident_notin; [exact Hall|reflexivity].
    + exact Hf.
    + exact Hv.
    + rewrite Es. discriminate.
    + exists r, t. split; [exact Es|]. apply letter_ident_char, ident_char_facts in Hl. tauto.
    + intros v o bit. unfold fix_bitflags. cbn [p_name p_type p_vector p_optional p_bit].
      replace (beq (p_type p) l_hashsign) with false; [rewrite andb_false_r; reflexivity|].
      symmetry. apply beq_neq. rewrite Es. intros Hc. injection Hc as -> _. vm_compute in Hl. discriminate.
Qed.

Lemma print_param_head p : wf_param p = true ->
  exists r t, print_param p = r :: t /\ is_letter r = true.
Proof.
  intros Hw. unfold wf_param in Hw. apply andb_true_iff in Hw as [Hw _]. apply andb_true_iff in Hw as [Hn _].
  destruct (ident_facts _ Hn) as (r & t & Es & Hl & _). unfold print_param. rewrite Es. cbn [app]. eauto.
Qed.

Lemma letter_facts r : is_letter r = true -> is_space r = false /\ r <> 61 /\ r <> 45 /\ r <> 47 /\ r <> 102 \/ r = 102.
Proof. intros H. apply letter_ident_char, ident_char_facts in H. destruct (N.eq_dec r 102); [right; assumption|left; tauto]. Qed.

Lemma parse_param_print p b rest : wf_param p = true ->
  exists b', parse_param (mkcur b (print_param p ++ 32 :: rest))
             = POk (mkparam (p_name p) (shown_type p) (p_vector p) (p_optional p) (p_bit p)) (mkcur b' (32 :: rest)).
Proof.
  intros Hw. pose proof (shown_facts p Hw) as Hs. cbv zeta in Hs.
  destruct Hs as (Hs32 & Hs62 & Hsf & Hsv & Hsn & (sx & st & Esh & Hsx) & _).
  unfold wf_param in Hw. apply andb_true_iff in Hw as [Hw Hbit]. apply andb_true_iff in Hw as [Hn _].
  destruct (ident_facts _ Hn) as (r0 & nt & En & Hl & Hall).
  set (sh := shown_type p) in *.
  (* the text after "name:" *)
  set (T := print_type sh (p_vector p)).
  set (F := if p_optional p then l_flagsdot ++ to_dec (p_bit p) ++ l_question else []).
  assert (Etext : print_param p ++ 32 :: rest = p_name p ++ 58 :: (F ++ T ++ 32 :: rest)).
  { unfold print_param. fold sh. fold T. fold F. unfold c_colon. rewrite <- !app_assoc. reflexivity. }
  rewrite Etext. unfold parse_param.
  (* SkipSpaces, ReadAt(':'), Skip(1) *)
  rewrite skip_spaces_at'.
  2:{ apply head_is_app. eapply head_is_impl; [|apply ident_head; exact Hn].
      intros x Hx. apply letter_ident_char, ident_char_facts in Hx. tauto. }
  cbn [sbind]. unfold c_colon. rewrite read_at_spec by (apply ident_notin; [exact Hall|reflexivity]).
  cbn [cbind]. rewrite skip1' by (unfold T, print_type; destruct (p_vector p), (p_optional p); unfold F; nonnil).
  (* the part common to both branches: the type *)
  assert (Haf : forall opt bit b1, exists b',
    cbind (is_next l_vector (mkcur b1 (T ++ 32 :: rest))) (fun isvec c =>
      if isvec then
        let c := skip 1 c in
        cbind (read_at c_gt c) (fun ty c => POk (mkparam (p_name p) ty true opt bit) (skip 1 c))
      else cbind (read_at c_space c) (fun ty c => POk (mkparam (p_name p) ty false opt bit) c))
    = POk (mkparam (p_name p) sh (p_vector p) opt bit) (mkcur b' (32 :: rest))).
  { intros opt bit b1. unfold T, print_type. destruct (p_vector p).
    - change l_vector_lt with (l_vector ++ [60]). rewrite <- !app_assoc. cbn [app].
      rewrite is_next_match' by discriminate. cbn [cbind]. cbv zeta.
      rewrite skip1' by nonnil. unfold c_gt. rewrite read_at_spec by exact Hs62. cbn [cbind].
      rewrite skip1_spec. eexists. reflexivity.
    - rewrite is_next_nomatch; [|repeat constructor|exact Hsv|vm_compute; intuition congruence].
      cbn [cbind]. unfold c_space. rewrite read_at_spec by exact Hs32. cbn [cbind]. eexists. reflexivity. }
  unfold F. destruct (p_optional p) eqn:Eo.
  - (* flags.N? *)
    apply N.ltb_lt in Hbit. destruct (to_dec_facts _ Hbit) as (Hat & Hdig & Hasc & Hnn).
    rewrite <- !app_assoc. rewrite is_next_match' by nonnil. cbn [cbind].
    change (l_question ++ T ++ 32 :: rest) with (63 :: T ++ 32 :: rest).
    rewrite read_digits_spec by (assumption || reflexivity). cbn [cbind]. rewrite Hat.
    change (63 :: T ++ 32 :: rest) with (l_question ++ T ++ 32 :: rest).
    rewrite is_next_match' by (unfold T, print_type; destruct (p_vector p); nonnil). cbn [cbind].
    apply Haf.
  - apply N.eqb_eq in Hbit. cbn [app].
    assert (Enf : is_next l_flagsdot (mkcur (58 :: rev (p_name p) ++ b) (T ++ 32 :: rest))
                  = COk false (mkcur (58 :: rev (p_name p) ++ b) (T ++ 32 :: rest))).
    { unfold T, print_type. destruct (p_vector p).
      - apply is_next_head; [repeat constructor|vm_compute; congruence].
      - apply is_next_nomatch; [repeat constructor|exact Hsf|vm_compute; intuition congruence]. }
    rewrite Enf. cbn [cbind]. rewrite Hbit. apply Haf.
Qed.

(* ---- the parameter list ---- *)

(* the parameters as the loop meets them: each followed by one space *)
Fixpoint ptext (ps : list param) : str :=
  match ps with
  | [] => []
  | p :: t => print_param p ++ 32 :: ptext t
  end.

Lemma print_params_shape ps X : print_params ps ++ 32 :: X = 32 :: ptext ps ++ X.
Proof.
  induction ps as [|p t IH]; cbn [print_params ptext app]; [reflexivity|].
  unfold c_space. rewrite <- !app_assoc. cbn [app]. rewrite IH. reflexivity.
Qed.

Definition nonspace (x : N) : Prop := is_space x = false.

Lemma ptext_head ps R : Forall (fun p => wf_param p = true) ps ->
  head_is (fun x => is_space x = false /\ (x = 61 \/ is_letter x = true)) (ptext ps ++ 61 :: R).
Proof.
  intros H. destruct ps as [|p t]; cbn [ptext app].
  - apply head_is_cons. split; [reflexivity|left; reflexivity].
  - inversion H as [|? ? Hp _]; subst. destruct (print_param_head p Hp) as (r & u & -> & Hl).
    cbn [app]. apply head_is_cons. split; [|right; exact Hl].
    apply letter_ident_char, ident_char_facts in Hl. tauto.
Qed.

Lemma params_loop_print ps : forall fuel b acc R,
  Forall (fun p => wf_param p = true) ps -> (length ps < fuel)%nat ->
  exists b', params_loop fuel (mkcur b (ptext ps ++ 61 :: 32 :: R)) acc = POk (rev acc ++ ps) (mkcur b' (32 :: R)).
Proof.
  induction ps as [|p t IH]; intros fuel b acc R Hw Hf; (destruct fuel as [|f]; [cbn in Hf; lia|]); cbn [params_loop ptext app].
  - change (61 :: 32 :: R) with (l_eq ++ 32 :: R). rewrite is_next_match. cbn [cbind].
    rewrite app_nil_r. eexists. reflexivity.
  - inversion Hw as [|? ? Hp Ht]; subst.
    rewrite <- app_assoc. cbn [app].
    rewrite is_next_head'; [|repeat constructor|].
    2:{ apply head_is_app. destruct (print_param_head p Hp) as (r & u & -> & Hl). apply head_is_cons.
        cbn. intros ->. vm_compute in Hl. discriminate. }
    cbn [cbind].
    destruct (parse_param_print p b (ptext t ++ 61 :: 32 :: R) Hp) as (b1 & ->). cbn [pbind].
    rewrite skip_spaces_one'; [|reflexivity|].
    2:{ eapply head_is_impl; [|apply ptext_head; exact Ht]. intros x Hx. cbv beta in Hx. tauto. }
    cbn [sbind].
    destruct (IH f (32 :: b1) (fix_bitflags (mkparam (p_name p) (shown_type p) (p_vector p) (p_optional p) (p_bit p)) :: acc) R Ht ltac:(cbn in Hf; lia))
      as (b2 & ->).
    eexists. f_equal. cbn [rev]. rewrite <- app_assoc. cbn [app]. f_equal. f_equal.
    pose proof (shown_facts p Hp) as Hs. cbv zeta in Hs. destruct Hs as (_ & _ & _ & _ & _ & _ & Hfix).
    rewrite Hfix. destruct p; reflexivity.
Qed.

(* ---- one definition ---- *)

Lemma print_def_shape d tail :
  print_def d ++ tail =
  (d_name d ++ 35 :: to_hex (d_crc d)) ++ 32 :: ptext (d_params d) ++ 61 :: 32 :: print_type (d_type d) (d_isvec d) ++ 59 :: 10 :: tail.
Proof.
  unfold print_def, l_eq_sp, l_semi_nl, c_hash. rewrite <- !app_assoc. cbn [app].
  do 3 f_equal. rewrite print_params_shape. reflexivity.
Qed.

Lemma excluded_types_no_hash w : In 35 w -> list_contains excluded_types w = false.
Proof.
  intros Hi. destruct (list_contains excluded_types w) eqn:E; [|reflexivity].
  apply list_contains_spec in E. unfold excluded_types in E. cbn [In] in E.
  repeat (destruct E as [<-|E]; [cbn [In] in Hi; exfalso; intuition congruence|]). destruct E.
Qed.

Lemma type_facts ty : type_ok ty = true ->
  ~ In 59 ty /\ ~ In 62 ty /\ has_prefix l_vector ty = false /\ head_is (fun x => is_space x = false) ty.
Proof.
  unfold type_ok. intros H. apply andb_true_iff in H as [H Hf]. apply andb_true_iff in H as [Hi Hv].
  apply negb_true_iff in Hv. destruct (ident_facts _ Hi) as (r & t & Es & Hl & Hall).
  repeat split.
  - apply ident_notin; [exact Hall|reflexivity].
  - apply ident_notin; [exact Hall|reflexivity].
  - exact Hv.
  - rewrite Es. apply head_is_cons. apply letter_ident_char, ident_char_facts in Hl. tauto.
Qed.

Lemma parse_def_print d fuel b tail : wf_def d = true -> (length (d_params d) < fuel)%nat ->
  exists b', parse_definition fuel (mkcur b (print_def d ++ tail)) = POk d (mkcur b' (10 :: tail)).
Proof.
  intros Hw Hf. unfold wf_def in Hw.
  apply andb_true_iff in Hw as [Hw Hty]. apply andb_true_iff in Hw as [Hw Hps].
  apply andb_true_iff in Hw as [Hw Hcrc]. apply andb_true_iff in Hw as [Hn Hex].
  apply negb_true_iff in Hex. apply N.ltb_lt in Hcrc.
  assert (Hps' : Forall (fun p => wf_param p = true) (d_params d)) by (apply Forall_forall, forallb_forall; exact Hps).
  destruct (ident_facts _ Hn) as (r0 & nt & En & Hl & Hall).
  destruct (to_hex_chars (d_crc d)) as (Hh32 & Hhasc & Hhnn).
  destruct (type_facts _ Hty) as (Ht59 & Ht62 & Htv & Hthead).
  rewrite print_def_shape. unfold parse_definition.
  set (w := d_name d ++ 35 :: to_hex (d_crc d)).
  set (R2 := ptext (d_params d) ++ 61 :: 32 :: print_type (d_type d) (d_isvec d) ++ 59 :: 10 :: tail).
  (* SkipSpaces; ReadAt(' ') gives "name#id", which is no excluded type; Unread *)
  rewrite skip_spaces_at'.
  2:{ apply head_is_app. unfold w. apply head_is_app. eapply head_is_impl; [|apply ident_head; exact Hn].
      intros x Hx. apply letter_ident_char, ident_char_facts in Hx. tauto. }
  cbn [sbind]. unfold c_space.
  assert (Hw32 : ~ In 32 w).
  { unfold w. intros Hi. apply in_app_or in Hi as [Hi|[Hi|Hi]]; [|discriminate|exact (Hh32 Hi)].
    revert Hi. apply ident_notin; [exact Hall|reflexivity]. }
  rewrite read_at_spec by exact Hw32. cbn [cbind].
  rewrite excluded_types_no_hash by (unfold w; apply in_or_app; right; left; reflexivity).
  cbv zeta.
  assert (Hwasc : ascii w).
  { unfold w, ascii. apply Forall_app. split; [apply ident_ascii; exact Hall|]. constructor; [lia|exact Hhasc]. }
  rewrite <- (rev_length w), unread_app, rev_involutive.
  (* ReadAt('#'), the name is not excluded, Skip(1), ReadAt(' ') gives the id *)
  unfold w at 1. rewrite <- app_assoc. cbn [app]. unfold c_hash.
  rewrite read_at_spec by (apply ident_notin; [exact Hall|reflexivity]). cbn [cbind]. rewrite Hex.
  rewrite skip1' by nonnil. rewrite read_at_spec by exact Hh32. cbn [cbind].
  (* SkipSpaces, the parameters *)
  rewrite skip_spaces_one'; [|reflexivity|].
  2:{ unfold R2. eapply head_is_impl; [|apply ptext_head; exact Hps']. intros x Hx. cbv beta in Hx. tauto. }
  cbn [sbind]. unfold R2.
  destruct (params_loop_print (d_params d) fuel (32 :: rev (to_hex (d_crc d)) ++ 35 :: rev (d_name d) ++ b) []
              (print_type (d_type d) (d_isvec d) ++ 59 :: 10 :: tail) Hps' Hf) as (b1 & ->).
  cbn [pbind rev app].
  (* SkipSpaces, the result type *)
  rewrite skip_spaces_one'; [|reflexivity|].
  2:{ apply head_is_app. unfold print_type. destruct (d_isvec d); [apply head_is_cons; reflexivity|exact Hthead]. }
  cbn [sbind]. unfold print_type. destruct (d_isvec d) eqn:Ev.
  - change l_vector_lt with (l_vector ++ [60]). rewrite <- !app_assoc. cbn [app].
    rewrite is_next_match' by discriminate. cbn [cbind]. cbv zeta.
    rewrite skip1' by nonnil. unfold c_gt. rewrite read_at_spec by exact Ht62. cbn [cbind].
    rewrite skip2_spec. rewrite to_hex_parse by exact Hcrc. eexists. f_equal. destruct d; cbn in *. subst. reflexivity.
  - rewrite is_next_nomatch; [|repeat constructor|exact Htv|vm_compute; intuition congruence].
    cbn [cbind]. unfold c_semi. rewrite read_at_spec by exact Ht59. cbn [cbind].
    rewrite skip1_spec. rewrite to_hex_parse by exact Hcrc. eexists. f_equal. destruct d; cbn in *. subst. reflexivity.
Qed.

(* ---- the main loop ---- *)

Lemma print_def_head d : wf_def d = true -> head_is (fun x => is_letter x = true) (print_def d).
Proof.
  intros Hw. unfold wf_def in Hw. repeat (apply andb_true_iff in Hw as [Hw _]).
  unfold print_def. apply head_is_app. apply ident_head. exact Hw.
Qed.

(* the three IsNext tests at the start of a definition line fail and leave the cursor alone *)
Lemma line_start b w : head_is (fun x => is_letter x = true) w ->
  skip_spaces (mkcur b w) = Some (mkcur b w)
  /\ is_next l_functions (mkcur b w) = COk false (mkcur b w)
  /\ is_next l_types (mkcur b w) = COk false (mkcur b w)
  /\ is_next l_slashes (mkcur b w) = COk false (mkcur b w).
Proof.
  intros H. repeat split.
  - apply skip_spaces_at'. eapply head_is_impl; [|exact H]. intros x Hx. cbv beta in Hx.
    apply letter_ident_char, ident_char_facts in Hx. tauto.
  - apply is_next_head'; [repeat constructor|]. eapply head_is_impl; [|exact H]. intros x Hx. cbv beta in Hx.
    apply letter_ident_char, ident_char_facts in Hx. cbn. tauto.
  - apply is_next_head'; [repeat constructor|]. eapply head_is_impl; [|exact H]. intros x Hx. cbv beta in Hx.
    apply letter_ident_char, ident_char_facts in Hx. cbn. tauto.
  - apply is_next_head'; [repeat constructor|]. eapply head_is_impl; [|exact H]. intros x Hx. cbv beta in Hx.
    apply letter_ident_char, ident_char_facts in Hx. cbn. tauto.
Qed.

(* one definition line, met with the cursor on the first character of the line *)
Lemma def_step d f b tail : wf_def d = true -> (length (d_params d) < f)%nat ->
  exists b', forall isfun objs meths,
    main_loop (S f) (mkcur b (print_def d ++ tail)) isfun objs meths =
    if isfun then main_loop f (mkcur b' (10 :: tail)) isfun objs (d :: meths)
    else if d_isvec d then SErr
    else main_loop f (mkcur b' (10 :: tail)) isfun (d :: objs) meths.
Proof.
  intros Hw Hf. destruct (parse_def_print d f b tail Hw Hf) as (b' & Hp). exists b'. intros isfun objs meths.
  cbn [main_loop].
  destruct (line_start b (print_def d ++ tail) (head_is_app _ _ _ (print_def_head d Hw))) as (-> & -> & -> & ->).
  rewrite Hp. reflexivity.
Qed.

(* the newline that ends a line is skipped when the next line starts with a letter *)
Lemma skip_nl b w : head_is (fun x => is_letter x = true) w ->
  skip_spaces (mkcur b (10 :: w)) = Some (mkcur (10 :: b) w).
Proof.
  intros H. apply skip_spaces_one'; [reflexivity|]. eapply head_is_impl; [|exact H].
  intros x Hx. cbv beta in Hx. apply letter_ident_char, ident_char_facts in Hx. tauto.
Qed.

(* main_loop only looks at the cursor after SkipSpaces *)
Lemma main_loop_skip f c c' isfun objs meths :
  skip_spaces c = Some c' -> skip_spaces c' = Some c' ->
  main_loop (S f) c isfun objs meths = main_loop (S f) c' isfun objs meths.
Proof. intros H1 H2. cbn [main_loop]. rewrite H1, H2. reflexivity. Qed.

Definition params_bound (M : nat) (l : list def) : Prop := Forall (fun d => (length (d_params d) <= M)%nat) l.

(* the functions section: cursor on the newline before the remaining method lines *)
Lemma loop_methods M meths : forall fuel b objs acc,
  Forall (fun d => wf_def d = true) meths -> params_bound M meths ->
  (length meths + M + 2 <= fuel)%nat ->
  main_loop fuel (mkcur b (10 :: print_defs meths)) true objs acc = SOk (mkschema (rev objs) (rev acc ++ meths)).
Proof.
  induction meths as [|d t IH]; intros fuel b objs acc Hw HM Hf.
  - (* on the last character of the source: everything ends with io.EOF *)
    destruct fuel as [|f]; [cbn in Hf; lia|]. cbn [print_defs main_loop].
    rewrite app_nil_r. reflexivity.
  - inversion Hw as [|? ? Hd Ht]; subst. inversion HM as [|? ? HMd HMt]; subst.
    destruct fuel as [|f]; [cbn in Hf; lia|]. cbn [print_defs].
    pose proof (head_is_app _ _ (print_defs t) (print_def_head d Hd)) as Hh.
    rewrite (main_loop_skip f _ _ _ _ _ (skip_nl b _ Hh)).
    2:{ apply skip_spaces_at'. eapply head_is_impl; [|exact Hh]. intros x Hx. cbv beta in Hx.
        apply letter_ident_char, ident_char_facts in Hx. tauto. }
    destruct (def_step d f (10 :: b) (print_defs t) Hd ltac:(cbn in Hf; lia)) as (b' & ->).
    rewrite IH; [|exact Ht|exact HMt|cbn in Hf; lia]. cbn [rev]. rewrite <- app_assoc. reflexivity.
Qed.

(* the types section.  [pre] is [] at the very start and the newline of the previous line later *)
Lemma loop_objects M objs : forall fuel b pre acc meths,
  pre = [] \/ pre = [10] ->
  Forall (fun d => wf_object d = true) objs -> Forall (fun d => wf_def d = true) meths ->
  params_bound M objs -> params_bound M meths ->
  (length objs + length meths + M + 3 <= fuel)%nat ->
  main_loop fuel (mkcur b (pre ++ print_defs objs ++ l_functions_nl ++ print_defs meths)) false acc []
  = SOk (mkschema (rev acc ++ objs) meths).
Proof.
  induction objs as [|d t IH]; intros fuel b pre acc meths Hpre Hwo Hwm HMo HMm Hf.
  - destruct fuel as [|f]; [cbn in Hf; lia|]. cbn [print_defs app].
    assert (Hskip : exists b1, skip_spaces (mkcur b (pre ++ l_functions_nl ++ print_defs meths))
                               = Some (mkcur b1 (l_functions_nl ++ print_defs meths))).
    { destruct Hpre as [->| ->]; cbn [app]; eexists; reflexivity. }
    destruct Hskip as (b1 & Hskip). cbn [main_loop]. rewrite Hskip.
    change l_functions_nl with (l_functions ++ [10]). rewrite <- app_assoc. cbn [app].
    rewrite is_next_match.
    rewrite loop_methods with (M := M); [|exact Hwm|exact HMm|cbn in Hf; lia].
    cbn [rev app]. rewrite app_nil_r. reflexivity.
  - inversion Hwo as [|? ? Hd Ht]; subst. inversion HMo as [|? ? HMd HMt]; subst.
    unfold wf_object in Hd. apply andb_true_iff in Hd as [Hd Hv]. apply negb_true_iff in Hv.
    destruct fuel as [|f]; [cbn in Hf; lia|]. cbn [print_defs]. rewrite <- !app_assoc.
    set (tail := print_defs t ++ l_functions_nl ++ print_defs meths).
    pose proof (head_is_app _ _ tail (print_def_head d Hd)) as Hh.
    assert (Hskip : exists b1, skip_spaces (mkcur b (pre ++ print_def d ++ tail)) = Some (mkcur b1 (print_def d ++ tail))).
    { destruct Hpre as [->| ->]; cbn [app].
      - eexists. apply skip_spaces_at'. eapply head_is_impl; [|exact Hh]. intros x Hx. cbv beta in Hx.
        apply letter_ident_char, ident_char_facts in Hx. tauto.
      - eexists. apply skip_nl. exact Hh. }
    destruct Hskip as (b1 & Hskip).
    rewrite (main_loop_skip f _ _ _ _ _ Hskip).
    2:{ apply skip_spaces_at'. eapply head_is_impl; [|exact Hh]. intros x Hx. cbv beta in Hx.
        apply letter_ident_char, ident_char_facts in Hx. tauto. }
    destruct (def_step d f b1 tail Hd ltac:(cbn in Hf; lia)) as (b' & ->). rewrite Hv.
    change (10 :: tail) with ([10] ++ tail). unfold tail.
    rewrite IH; [|right; reflexivity|exact Ht|exact Hwm|exact HMt|exact HMm|cbn in Hf; lia].
    cbn [rev]. rewrite <- app_assoc. reflexivity.
Qed.

(* ---- the text is ASCII, so []rune(text) is the text ---- *)

Lemma utf8_decode_ascii l : ascii l -> utf8_decode l = l.
Proof.
  induction 1 as [|r t Hr Ht IH]; cbn [utf8_decode]; [reflexivity|].
  destruct (N.ltb_spec r 128); [|lia]. rewrite IH. reflexivity.
Qed.

Lemma ascii_app a b : ascii a -> ascii b -> ascii (a ++ b).
Proof. intros. apply Forall_app. split; assumption. Qed.

Lemma ident_ascii' s : ident s = true -> ascii s.
Proof. intros H. destruct (ident_facts s H) as (_ & _ & _ & _ & Hall). apply ident_ascii. exact Hall. Qed.

Lemma type_ok_ascii ty : type_ok ty = true -> ascii ty.
Proof. unfold type_ok. intros H. apply andb_true_iff in H as [H _]. apply andb_true_iff in H as [H _]. apply ident_ascii'. exact H. Qed.

Lemma lit_ascii_check (s : str) : forallb (fun r => r <? 128) s = true -> ascii s.
Proof. intros H. apply Forall_forall. intros r Hr. rewrite forallb_forall in H. specialize (H r Hr). lia. Qed.

Lemma print_type_ascii ty v : ascii ty -> ascii (print_type ty v).
Proof.
  intros H. unfold print_type. destruct v; [|exact H].
  apply ascii_app; [apply lit_ascii_check; reflexivity|]. apply ascii_app; [exact H|]. repeat constructor.
Qed.

Lemma print_param_ascii p : wf_param p = true -> ascii (print_param p).
Proof.
  intros Hw. unfold wf_param in Hw. apply andb_true_iff in Hw as [Hw Hbit]. apply andb_true_iff in Hw as [Hn Ht].
  unfold print_param. apply ascii_app; [apply ident_ascii'; exact Hn|].
  apply ascii_app; [repeat constructor|]. apply ascii_app.
  - destruct (p_optional p); [|constructor]. apply N.ltb_lt in Hbit. destruct (to_dec_facts _ Hbit) as (_ & _ & Ha & _).
    apply ascii_app; [apply lit_ascii_check; reflexivity|]. apply ascii_app; [exact Ha|]. repeat constructor.
  - apply print_type_ascii. unfold shown_type. destruct (_ && _); [repeat constructor|apply type_ok_ascii; exact Ht].
Qed.

Lemma print_params_ascii ps : Forall (fun p => wf_param p = true) ps -> ascii (print_params ps).
Proof.
  induction 1 as [|p t Hp Ht IH]; cbn [print_params]; [constructor|].
  constructor; [reflexivity|]. apply ascii_app; [apply print_param_ascii; exact Hp|exact IH].
Qed.

Lemma print_def_ascii d : wf_def d = true -> ascii (print_def d).
Proof.
  intros Hw. unfold wf_def in Hw.
  apply andb_true_iff in Hw as [Hw Hty]. apply andb_true_iff in Hw as [Hw Hps].
  apply andb_true_iff in Hw as [Hw Hcrc]. apply andb_true_iff in Hw as [Hn Hex].
  unfold print_def. repeat apply ascii_app.
  - apply ident_ascii'. exact Hn.
  - repeat constructor.
  - destruct (to_hex_chars (d_crc d)) as (_ & Ha & _). exact Ha.
  - apply print_params_ascii. apply Forall_forall, forallb_forall. exact Hps.
  - apply lit_ascii_check. reflexivity.
  - apply print_type_ascii, type_ok_ascii. exact Hty.
  - apply lit_ascii_check. reflexivity.
Qed.

Lemma print_defs_ascii l : Forall (fun d => wf_def d = true) l -> ascii (print_defs l).
Proof.
  induction 1 as [|d t Hd Ht IH]; cbn [print_defs]; [constructor|].
  apply ascii_app; [apply print_def_ascii; exact Hd|exact IH].
Qed.

(* ---- fuel: the default is enough for a printed schema ---- *)

Lemma print_params_length ps : (length ps <= length (print_params ps))%nat.
Proof. induction ps as [|p t IH]; cbn [print_params length]; [lia|]. rewrite app_length. lia. Qed.

Lemma print_def_length d : (S (length (d_params d)) <= length (print_def d))%nat.
Proof.
  unfold print_def. rewrite !app_length. pose proof (print_params_length (d_params d)).
  change (length l_semi_nl) with 2%nat. lia.
Qed.

Lemma print_defs_length l :
  (length l <= length (print_defs l))%nat /\ params_bound (length (print_defs l)) l.
Proof.
  induction l as [|d t [IH1 IH2]]; cbn [print_defs length]; [split; [lia|constructor]|].
  rewrite app_length. pose proof (print_def_length d). split; [lia|]. constructor; [lia|].
  eapply Forall_impl; [|exact IH2]. cbv beta. intros; lia.
Qed.

Lemma params_bound_mono M M' l : (M <= M')%nat -> params_bound M l -> params_bound M' l.
Proof. intros H. apply Forall_impl. intros; lia. Qed.

Lemma wf_schema_parts s : wf_schema s = true ->
  Forall (fun d => wf_object d = true) (s_objects s) /\ Forall (fun d => wf_def d = true) (s_methods s).
Proof.
  unfold wf_schema. intros H. apply andb_true_iff in H as [Ho Hm].
  split; apply Forall_forall, forallb_forall; assumption.
Qed.

Lemma parse_runes_nonnil fuel l : l <> [] -> parse_runes fuel l = main_loop fuel (new_cursor l) false [] [].
Proof. destruct l; [congruence|reflexivity]. Qed.

Theorem parse_print_fuel s fuel : wf_schema s = true -> (2 * length (print s) + 3 <= fuel)%nat ->
  parse_fuel fuel (print s) = SOk s.
Proof.
  intros Hw Hf. destruct (wf_schema_parts s Hw) as [Ho Hm].
  assert (Ho' : Forall (fun d => wf_def d = true) (s_objects s)).
  { eapply Forall_impl; [|exact Ho]. intros d Hd. unfold wf_object in Hd. apply andb_true_iff in Hd. tauto. }
  unfold parse_fuel. rewrite utf8_decode_ascii.
  2:{ unfold print. apply ascii_app; [apply print_defs_ascii; exact Ho'|].
      apply ascii_app; [apply lit_ascii_check; reflexivity|apply print_defs_ascii; exact Hm]. }
  rewrite parse_runes_nonnil.
  2:{ unfold print. intros E. apply app_eq_nil in E as [_ E]. apply app_eq_nil in E as [E _]. discriminate. }
  unfold new_cursor, print.
  destruct (print_defs_length (s_objects s)) as [Lo Bo]. destruct (print_defs_length (s_methods s)) as [Lm Bm].
  unfold print in Hf. rewrite !app_length in Hf.
  change (print_defs (s_objects s) ++ l_functions_nl ++ print_defs (s_methods s))
    with ([] ++ print_defs (s_objects s) ++ l_functions_nl ++ print_defs (s_methods s)).
  rewrite loop_objects with (M := (length (print_defs (s_objects s)) + length (print_defs (s_methods s)))%nat);
    [|left; reflexivity|exact Ho|exact Hm| | |lia].
  - cbn [rev app]. destruct s; reflexivity.
  - eapply params_bound_mono; [|exact Bo]. lia.
  - eapply params_bound_mono; [|exact Bm]. lia.
Qed.

Theorem parse_print : forall s, wf_schema s = true -> parse (print s) = SOk s.
Proof.
  intros s Hw. unfold parse. apply parse_print_fuel; [exact Hw|]. unfold default_fuel. lia.
Qed.

(* ==================================================================================== *)
(* Part 3: termination - the loop budget of [parse] is never exhausted                    *)

Definition rem (c : cursor) : nat := length (after c).

Lemma next_rem c : (rem (fst (next c)) <= rem c)%nat.
Proof. unfold rem, next. destruct c as [b [|r [|r' t]]]; cbn [after fst length]; lia. Qed.

Lemma next_rem_strict c : (2 <= rem c)%nat -> (rem (fst (next c)) < rem c)%nat.
Proof. unfold rem, next. destruct c as [b [|r [|r' t]]]; cbn [after fst length]; lia. Qed.

Lemma next_last c : rem c = 1%nat -> fst (next c) = c.
Proof. unfold rem, next. destruct c as [b [|r [|r' t]]]; cbn [after fst length]; try lia. reflexivity. Qed.

Lemma skip_rem n c : (rem (skip n c) <= rem c)%nat.
Proof.
  revert c; induction n as [|n IH]; intros c; cbn [skip]; [lia|].
  pose proof (next_rem c) as Hn. destruct (next c) as [c' m]. cbn [fst] in Hn.
  destruct m; [specialize (IH c'); lia|lia].
Qed.

Lemma skip1_strict b x y t : (rem (skip 1 (mkcur b (x :: y :: t))) < rem (mkcur b (x :: y :: t)))%nat.
Proof. cbn. lia. Qed.

Lemma skip_spaces_go_rem b a c : skip_spaces_go b a = Some c -> (rem c <= length a)%nat.
Proof.
  revert b; induction a as [|r t IH]; intros b; cbn [skip_spaces_go]; [discriminate|].
  destruct (is_space r).
  - destruct t as [|r' t']; [intros E; injection E as <-; cbn; lia|]. intros E. apply IH in E. cbn [length] in *. lia.
  - intros E. injection E as <-. cbn. lia.
Qed.

Lemma skip_spaces_rem c c' : skip_spaces c = Some c' -> (rem c' <= rem c)%nat.
Proof. apply skip_spaces_go_rem. Qed.

(* ReadAt: the cursor stops on the rune it looked for, having passed exactly the runes it returns *)
Lemma read_at_go_ok x acc b a w c : read_at_go x acc b a = COk w c ->
  exists w' t, w = rev acc ++ w' /\ a = w' ++ x :: t /\ c = mkcur (rev w' ++ b) (x :: t).
Proof.
  revert acc b; induction a as [|r t IH]; intros acc b; cbn [read_at_go]; [discriminate|].
  destruct (N.eqb_spec r x) as [->|Hne].
  - intros E. injection E as <- <-. exists [], t. rewrite app_nil_r. auto.
  - destruct t as [|r' t']; [discriminate|]. intros E. apply IH in E as (w' & t & -> & Ea & ->).
    exists (r :: w'), t. cbn [rev app]. rewrite <- !app_assoc, Ea. auto.
Qed.

Lemma read_at_ok x c w c' : read_at x c = COk w c' ->
  exists t, after c = w ++ x :: t /\ c' = mkcur (rev w ++ before c) (x :: t).
Proof. unfold read_at. intros E. apply read_at_go_ok in E as (w' & t & -> & Ea & ->). exists t. auto. Qed.

Lemma read_at_rem x c w c' : read_at x c = COk w c' -> (rem c' + length w = rem c)%nat.
Proof. intros E. apply read_at_ok in E as (t & Ea & ->). unfold rem. rewrite Ea. cbn [after]. rewrite app_length. lia. Qed.

Lemma read_digits_go_rem acc b a w c : read_digits_go acc b a = COk w c -> (rem c <= length a)%nat.
Proof.
  revert acc b; induction a as [|r t IH]; intros acc b; cbn [read_digits_go]; [discriminate|].
  destruct (is_digit r).
  - destruct t as [|r' t']; [discriminate|]. intros E. apply IH in E. cbn [length] in *. lia.
  - intros E. injection E as _ <-. cbn. lia.
Qed.

Lemma read_digits_rem c w c' : read_digits c = COk w c' -> (rem c' <= rem c)%nat.
Proof. apply read_digits_go_rem. Qed.

(* IsNext *)
Lemma is_next_go_false s c0 c c' : is_next_go s c0 c = COk false c' -> c' = c0.
Proof.
  revert c; induction s as [|e s IH]; intros c; cbn [is_next_go]; [discriminate|].
  destruct (current c) as [r|]; [|discriminate]. destruct (r =? e); [apply IH|]. intros E. injection E as <-. reflexivity.
Qed.

Lemma is_next_false s c c' : is_next s c = COk false c' -> c' = c.
Proof. apply is_next_go_false. Qed.

Lemma is_next_go_true s c0 c c' : is_next_go s c0 c = COk true c' -> s <> [] ->
  (rem c' < rem c)%nat \/ (rem c = 1%nat /\ c' = c /\ Forall (fun e => current c = Some e) s).
Proof.
  revert c; induction s as [|e s IH]; intros c E Hs; [congruence|].
  cbn [is_next_go] in E. destruct (current c) as [r|] eqn:Ec; [|discriminate].
  destruct (N.eqb_spec r e) as [->|Hne]; [|discriminate].
  destruct s as [|e' s'].
  - cbn [is_next_go] in E. injection E as <-.
    destruct (Nat.le_gt_cases 2 (rem c)) as [H2|H1]; [left; apply next_rem_strict; exact H2|].
    assert (rem c = 1%nat) by (unfold rem, current in *; destruct (after c); [discriminate|cbn [length] in *; lia]).
    right. rewrite next_last by assumption. auto.
  - destruct (IH _ E ltac:(discriminate)) as [Hlt|(H1 & -> & Hall)].
    + left. pose proof (next_rem c). lia.
    + destruct (Nat.le_gt_cases 2 (rem c)) as [H2|H1'].
      * left. pose proof (next_rem_strict c H2). lia.
      * assert (Hr : rem c = 1%nat) by (unfold rem, current in *; destruct (after c); [discriminate|cbn [length] in *; lia]).
        right. rewrite (next_last c Hr) in Hall |- *. split; [exact Hr|]. split; [reflexivity|].
        rewrite Ec in Hall. constructor; [reflexivity|exact Hall].
Qed.

Lemma is_next_true s c c' : is_next s c = COk true c' -> s <> [] ->
  (rem c' < rem c)%nat \/ (rem c = 1%nat /\ c' = c /\ Forall (fun e => current c = Some e) s).
Proof. apply is_next_go_true. Qed.

Lemma is_next_rem s c v c' : is_next s c = COk v c' -> (rem c' <= rem c)%nat.
Proof.
  destruct v; intros E.
  - destruct s as [|e s]; [cbn in E; injection E as <-; lia|].
    destruct (is_next_true _ _ _ E ltac:(discriminate)) as [H|(_ & -> & _)]; lia.
  - apply is_next_false in E. subst. lia.
Qed.

(* a pattern with two different runes cannot match on the last rune of the source *)
Lemma is_next_true_strict s c c' e1 e2 : is_next s c = COk true c' -> In e1 s -> In e2 s -> e1 <> e2 ->
  (rem c' < rem c)%nat.
Proof.
  intros E H1 H2 Hne. destruct (is_next_true _ _ _ E) as [H|(_ & _ & Hall)]; [destruct s; [destruct H1|discriminate]|exact H|].
  rewrite Forall_forall in Hall. pose proof (Hall _ H1) as A. pose proof (Hall _ H2) as B. congruence.
Qed.

Definition pres_lt {A} (n : nat) (r : pres A) : Prop :=
  match r with POk _ c | PExcluded c => (rem c < n)%nat | _ => True end.
Definition pres_le {A} (n : nat) (r : pres A) : Prop :=
  match r with POk _ c | PExcluded c => (rem c <= n)%nat | _ => True end.
Definition nofuel {A} (r : pres A) : Prop := r <> PFuel.

Lemma cbind_elim {A B} (P : pres B -> Prop) (x : cres A) f :
  P PEof -> P PPanic -> (forall a c, x = COk a c -> P (f a c)) -> P (cbind x f).
Proof. intros H1 H2 H3. destruct x; cbn [cbind]; auto. Qed.

Lemma sbind_elim {B} (P : pres B -> Prop) (x : option cursor) f :
  P PPanic -> (forall c, x = Some c -> P (f c)) -> P (sbind x f).
Proof. intros H1 H2. destruct x; cbn [sbind]; auto. Qed.

Lemma pbind_elim {A B} (P : pres B -> Prop) (x : pres A) f :
  P PEof -> P PErr -> P PPanic -> (x = PFuel -> P PFuel) -> (forall c, x = PExcluded c -> P (PExcluded c)) ->
  (forall a c, x = POk a c -> P (f a c)) -> P (pbind x f).
Proof. intros. destruct x; cbn [pbind]; auto. Qed.

Ltac triv := solve [exact I | cbn; exact I | discriminate | unfold nofuel; discriminate | intros; exact I | intros; cbn; exact I].

(* the type part of a parameter only moves forward *)
Lemma after_flag_le name opt bit c n : (rem c <= n)%nat ->
  pres_le n (cbind (is_next l_vector c) (fun isvec c =>
    if isvec then
      let c := skip 1 c in
      cbind (read_at c_gt c) (fun ty c => POk (mkparam name ty true opt bit) (skip 1 c))
    else cbind (read_at c_space c) (fun ty c => POk (mkparam name ty false opt bit) c))).
Proof.
  intros H. apply cbind_elim; try triv. intros [|] c1 E1; apply is_next_rem in E1.
  - cbv zeta. apply cbind_elim; try triv. intros ty c2 E2. apply read_at_rem in E2.
    cbn [pres_le]. pose proof (skip_rem 1 c2). pose proof (skip_rem 1 c1). lia.
  - apply cbind_elim; try triv. intros ty c2 E2. apply read_at_rem in E2. cbn [pres_le]. lia.
Qed.

Lemma pres_le_lt {A} n m (r : pres A) : pres_le n r -> (n < m)%nat -> pres_lt m r.
Proof. destruct r; cbn; intros; try exact I; lia. Qed.

Lemma parse_param_lt c : pres_lt (rem c) (parse_param c).
Proof.
  unfold parse_param.
  apply sbind_elim; [triv|]. intros c1 E1. apply skip_spaces_rem in E1.
  apply cbind_elim; try triv. intros name c2 E2.
  pose proof (read_at_rem _ _ _ _ E2) as R2. apply read_at_ok in E2 as (t & _ & ->).
  destruct t as [|y t].
  - (* ':' is the last rune: reading the type runs into the end *)
    vm_compute. exact I.
  - set (c3 := skip 1 (mkcur (rev name ++ before c1) (c_colon :: y :: t))).
    assert (H3 : (rem c3 < rem c)%nat) by (pose proof (skip1_strict (rev name ++ before c1) c_colon y t); unfold c3; lia).
    clearbody c3.
    apply cbind_elim; try triv. intros [|] c4 E4; apply is_next_rem in E4; cbv zeta.
    + apply cbind_elim; try triv. intros ds c5 E5. apply read_digits_rem in E5.
      destruct (atoi ds) as [bit|]; [|triv].
      apply cbind_elim; try triv. intros [|] c6 E6; [|triv]. apply is_next_rem in E6.
      eapply pres_le_lt; [apply after_flag_le; reflexivity|lia].
    + eapply pres_le_lt; [apply after_flag_le; reflexivity|lia].
Qed.

Lemma parse_param_nofuel c : nofuel (parse_param c).
Proof.
  unfold parse_param.
  assert (Haf : forall name opt bit c, nofuel (cbind (is_next l_vector c) (fun isvec c =>
    if isvec then
      let c := skip 1 c in
      cbind (read_at c_gt c) (fun ty c => POk (mkparam name ty true opt bit) (skip 1 c))
    else cbind (read_at c_space c) (fun ty c => POk (mkparam name ty false opt bit) c)))).
  { intros name opt bit c0. apply cbind_elim; try triv. intros [|] c1 _; cbv zeta; apply cbind_elim; try triv; intros ty c2 _; triv. }
  apply sbind_elim; [triv|]. intros c1 _. apply cbind_elim; try triv. intros name c2 _.
  apply cbind_elim; try triv. intros [|] c4 _; cbv zeta; [|apply Haf].
  apply cbind_elim; try triv. intros ds c5 _. destruct (atoi ds); [|triv].
  apply cbind_elim; try triv. intros [|] c6 _; [apply Haf|triv].
Qed.

Lemma params_loop_le fuel : forall c acc, pres_le (rem c) (params_loop fuel c acc).
Proof.
  induction fuel as [|f IH]; intros c acc; cbn [params_loop]; [exact I|].
  apply cbind_elim; try triv. intros [|] c1 E1; apply is_next_rem in E1; [cbn [pres_le]; exact E1|].
  pose proof (parse_param_lt c1) as Hp.
  apply pbind_elim; try triv.
  - intros c2 E2. rewrite E2 in Hp. cbn [pres_lt pres_le] in *. lia.
  - intros p c2 E2. rewrite E2 in Hp. cbn [pres_lt] in Hp.
    apply sbind_elim; [triv|]. intros c3 E3. apply skip_spaces_rem in E3.
    specialize (IH c3 (fix_bitflags p :: acc)). destruct (params_loop f c3 (fix_bitflags p :: acc)); cbn [pres_le] in *; try exact I; lia.
Qed.

Lemma params_loop_nofuel fuel : forall c acc, (rem c < fuel)%nat -> nofuel (params_loop fuel c acc).
Proof.
  induction fuel as [|f IH]; intros c acc Hf; [lia|]. cbn [params_loop].
  apply cbind_elim; try triv. intros [|] c1 E1; apply is_next_rem in E1; [triv|].
  pose proof (parse_param_lt c1) as Hp. pose proof (parse_param_nofuel c1) as Hn.
  apply pbind_elim; try triv.
  - intros E. contradiction.
  - intros p c2 E2. rewrite E2 in Hp. cbn [pres_lt] in Hp.
    apply sbind_elim; [triv|]. intros c3 E3. apply skip_spaces_rem in E3. apply IH. lia.
Qed.

(* one definition: the cursor ends strictly further than it began, and the budget of the parameter loop
   is not exhausted when it exceeds the number of runes left *)
Definition good {A} (n : nat) (ok : Prop) (r : pres A) : Prop := pres_lt n r /\ (ok -> nofuel r).

Ltac gtriv := solve [split; [exact I|intros _; discriminate] | intros; split; [exact I|intros _; discriminate]].

Lemma unread_read c1 typ t :
  after c1 = typ ++ c_space :: t ->
  unread (length typ) (mkcur (rev typ ++ before c1) (c_space :: t)) = c1.
Proof.
  intros E. rewrite <- (rev_length typ), unread_app, rev_involutive, <- E. destruct c1; reflexivity.
Qed.

Lemma skip_excluded_good {A} c n ok : (rem c < n)%nat -> good n ok (@skip_excluded A c).
Proof.
  intros H. unfold skip_excluded. apply cbind_elim; try gtriv. intros w c1 E. apply read_at_rem in E.
  split; [|intros _; discriminate]. cbn [pres_lt]. pose proof (skip_rem 1 c1). lia.
Qed.

Lemma parse_definition_good fuel c : good (rem c) (rem c < fuel)%nat (parse_definition fuel c).
Proof.
  unfold parse_definition.
  apply sbind_elim; [gtriv|]. intros c1 E1. apply skip_spaces_rem in E1.
  apply cbind_elim; try gtriv. intros typ c2 E2.
  pose proof (read_at_rem _ _ _ _ E2) as R2. apply read_at_ok in E2 as (t & Ea1 & ->).
  destruct (list_contains excluded_types typ) eqn:Ex.
  - apply skip_excluded_good. destruct typ as [|x typ]; [vm_compute in Ex; discriminate|]. cbn [length] in R2. lia.
  - cbv zeta. rewrite (unread_read c1 typ t Ea1).
    apply cbind_elim; try gtriv. intros name c4 E4.
    pose proof (read_at_rem _ _ _ _ E4) as R4. apply read_at_ok in E4 as (t4 & Ea4 & ->).
    destruct (list_contains excluded_definitions name).
    + unfold skip_excluded. apply cbind_elim; try gtriv. intros w c5 E5.
      pose proof (read_at_rem _ _ _ _ E5) as R5. destruct (read_at_ok _ _ _ _ E5) as (t5 & Ea5 & _). cbn [after] in Ea5.
      destruct w as [|x w]; [cbn [app] in Ea5; injection Ea5 as Ebad; vm_compute in Ebad; discriminate|].
      split; [|intros _; discriminate]. cbn [pres_lt length] in *.
      pose proof (skip_rem 1 c5). lia.
    + cbv zeta. destruct t4 as [|y t4].
      * (* '#' is the last rune *) split; [vm_compute; exact I|intros _; vm_compute; discriminate].
      * set (c5 := skip 1 (mkcur (rev name ++ before c1) (c_hash :: y :: t4))).
        assert (H5 : (rem c5 < rem c)%nat) by (pose proof (skip1_strict (rev name ++ before c1) c_hash y t4); unfold c5; lia).
        clearbody c5.
        apply cbind_elim; try gtriv. intros crcs c6 E6. apply read_at_rem in E6.
        apply sbind_elim; [gtriv|]. intros c7 E7. apply skip_spaces_rem in E7.
        pose proof (params_loop_le fuel c7 []) as Hle.
        apply pbind_elim; try gtriv.
        -- intros Ef. split; [exact I|]. intros Hfuel. exfalso. apply (params_loop_nofuel fuel c7 []); [lia|exact Ef].
        -- intros c8 E8. rewrite E8 in Hle. cbn [pres_le] in Hle. split; [cbn [pres_lt]; lia|intros _; discriminate].
        -- intros params c8 E8. rewrite E8 in Hle. cbn [pres_le] in Hle.
           apply sbind_elim; [gtriv|]. intros c9 E9. apply skip_spaces_rem in E9.
           apply cbind_elim; try gtriv. intros [|] c10 E10; apply is_next_rem in E10; cbv zeta.
           ++ apply cbind_elim; try gtriv. intros ty c11 E11. apply read_at_rem in E11.
              destruct (parse_hex32 crcs); [|gtriv]. split; [|intros _; discriminate]. cbn [pres_lt].
              pose proof (skip_rem 2 c11). pose proof (skip_rem 1 c10). lia.
           ++ apply cbind_elim; try gtriv. intros ty c11 E11. apply read_at_rem in E11.
              destruct (parse_hex32 crcs); [|gtriv]. split; [|intros _; discriminate]. cbn [pres_lt].
              pose proof (skip_rem 1 c11). lia.
Qed.

Lemma read_at_last_eof x b r : r <> x -> read_at x (mkcur b [r]) = CEof (mkcur b [r]).
Proof. intros H. unfold read_at; cbn [before after read_at_go]. destruct (N.eqb_spec r x); [contradiction|reflexivity]. Qed.

Lemma main_loop_terminates fuel : forall c isfun objs meths,
  (rem c + 2 <= fuel)%nat -> main_loop fuel c isfun objs meths <> SFuel.
Proof.
  induction fuel as [|f IH]; intros c isfun objs meths Hf; [lia|]. cbn [main_loop].
  destruct (skip_spaces c) as [c1|] eqn:E1; [|discriminate]. apply skip_spaces_rem in E1.
  destruct (is_next l_functions c1) as [[|] c2|c2|] eqn:E2; try discriminate.
  { apply IH. pose proof (is_next_true_strict l_functions c1 c2 45 102 E2) as H.
    specialize (H ltac:(cbn; auto) ltac:(cbn; auto 20) ltac:(discriminate)). lia. }
  apply is_next_false in E2. subst c2.
  destruct (is_next l_types c1) as [[|] c3|c3|] eqn:E3; try discriminate.
  { apply IH. pose proof (is_next_true_strict l_types c1 c3 45 116 E3) as H.
    specialize (H ltac:(cbn; auto) ltac:(cbn; auto 20) ltac:(discriminate)). lia. }
  apply is_next_false in E3. subst c3.
  destruct (is_next l_slashes c1) as [[|] c4|c4|] eqn:E4; try discriminate.
  - destruct (read_at c_nl c4) as [line c5|c5|] eqn:E5; try discriminate.
    destruct (classify_comment line); try discriminate; apply IH; pose proof (skip_rem 1 c5); pose proof (read_at_rem _ _ _ _ E5);
      (destruct (is_next_true _ _ _ E4 ltac:(discriminate)) as [Hlt|(H1 & -> & Hall)]; [lia|]);
      exfalso; inversion Hall as [|? ? Hc _]; subst; unfold current, rem in *;
      destruct c1 as [b [|r [|r' t]]]; cbn [after hd_error length] in *; try discriminate; try lia;
      injection Hc as ->; rewrite read_at_last_eof in E5 by discriminate; discriminate.
  - apply is_next_false in E4. subst c4.
    pose proof (parse_definition_good f c1) as [Hlt Hnf].
    destruct (parse_definition f c1) as [d c5| |c5| | |] eqn:Ed; try discriminate; cbn [pres_lt] in Hlt.
    + destruct isfun; [apply IH; lia|]. destruct (d_isvec d); [discriminate|apply IH; lia].
    + apply IH. lia.
    + exfalso. apply Hnf; [lia|reflexivity].
Qed.

Lemma utf8_decode_length_aux n : forall l, (length l <= n)%nat -> (length (utf8_decode l) <= length l)%nat.
Proof.
  induction n as [|n IH]; intros l Hl.
  - destruct l; [cbn; lia|cbn in Hl; lia].
  - destruct l as [|b0 r0]; [cbn; lia|]. cbn [utf8_decode].
    repeat match goal with
           | |- context[if ?x then _ else _] => destruct x
           | |- context[match utf8_first ?b with _ => _ end] => destruct (utf8_first b) as [[[? ?] ?]|]
           | |- context[match ?r with [] => _ | _ :: _ => _ end] => is_var r; destruct r
           end;
      cbn [length] in *;
      match goal with |- context[utf8_decode ?r] => pose proof (IH r ltac:(cbn [length] in *; lia)) end; cbn [length] in *; lia.
Qed.

Lemma utf8_decode_length l : (length (utf8_decode l) <= length l)%nat.
Proof. apply (utf8_decode_length_aux (length l)). lia. Qed.

Theorem parse_runes_terminates fuel src : (length src + 2 <= fuel)%nat -> parse_runes fuel src <> SFuel.
Proof.
  intros H. unfold parse_runes. destruct src as [|r t]; [discriminate|].
  apply main_loop_terminates. unfold rem, new_cursor; cbn [after]. exact H.
Qed.

(* the budget [parse] gives itself is never exhausted *)
Theorem parse_terminates : forall source, parse source <> SFuel.
Proof.
  intros source. unfold parse, parse_fuel. apply parse_runes_terminates.
  pose proof (utf8_decode_length source). unfold default_fuel. lia.
Qed.

(* linear bound, stated on its own *)
Theorem parse_fuel_linear : forall source fuel, (length source + 2 <= fuel)%nat -> parse_fuel fuel source <> SFuel.
Proof.
  intros source fuel H. unfold parse_fuel. apply parse_runes_terminates. pose proof (utf8_decode_length source). lia.
Qed.

