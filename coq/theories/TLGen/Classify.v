(* Model of internal/cmd/tlgen/gen AFTER the C14 fixes: createInternalSchema (split of the
   constructors into enums / stand-alone structs / structs behind an interface), type resolution
   (typeIdFromSchemaType), and what the five generated files DECLARE, as descriptors:
     enums_gen.go      enum types with their values (constant name, String() text, id)
     types_gen.go      structs of single-constructor types
     interfaces_gen.go interfaces and the structs implementing them (`Obj` renaming)
     methods_gen.go    a Params struct and a *Client method per function
     init_gen.go       the sorted registration lists
   Each struct descriptor lists id, ordered fields with their Go kind, the `tl:"flag:N"` tag, the
   encoded_in_bitflags option, and FlagIndex().

   Go map iteration (for ... range reversedObjects / Types / Enums) is the argument [o], some
   ordering of the groups.  sort.Slice-by-Name and sort.Strings are Section variables; the proofs
   assume only that they return a sorted permutation.  goify (strcase-based name mangling) is a
   Section variable (oracle).  A Go panic (unknown type, missing flags word) is [Panic].
   Theorems (TLGen/ClassifyProofs.v, stated in Props/C14.v): C14_layout, C14_deterministic,
   C14_generator_total. *)
From Coq Require Import String.
From Coq Require Import ZArith NArith List Lia Bool.
From MTV Require Import Base.Bytes Base.Outcome Base.Str TLGen.Parser.
Import ListNotations.
Open Scope N_scope.

Inductive gokind :=
| KBool | KInt32 | KInt64 | KFloat64 | KString | KBytes
| KEnum (n : str)      (* named uint32 type *)
| KIface (n : str)     (* interface type *)
| KPtr (n : str).      (* pointer to a struct *)

Record field := mkfield {
  f_name : str;            (* Go field name *)
  f_kind : gokind;
  f_vec : bool;            (* slice of f_kind *)
  f_flag : option N;       (* tl:"flag:N" *)
  f_inbits : bool }.       (* ,encoded_in_bitflags *)

Record sdesc := mksdesc {
  sd_name : str;           (* Go type name *)
  sd_crc : N;
  sd_fields : list field;
  sd_flagindex : option nat;
  sd_impl : list str }.    (* Implements<X>() methods *)

Record edesc := mkedesc {
  e_type : str;                    (* Go type name *)
  e_native : str;                  (* schema type name, used in String() of unknown values *)
  e_vals : list (str * str * N) }. (* constant name, String() text, id *)

Inductive margs :=
| ANone
| AParams (n : str)                      (* one argument: params *<n> *)
| APositional (l : list (gokind * bool)).

Record mdesc := mkmdesc { m_name : str; m_args : margs; m_result : gokind * bool }.

Record output := mkoutput {
  o_enums : list edesc;
  o_types : list sdesc;
  o_ifaces : list (str * list sdesc);
  o_methods : list (sdesc * mdesc);
  o_init : list str * list str }.

Definition l_Bool := Eval vm_compute in lit "Bool".
Definition l_long := Eval vm_compute in lit "long".
Definition l_double := Eval vm_compute in lit "double".
Definition l_int := Eval vm_compute in lit "int".
Definition l_string := Eval vm_compute in lit "string".
Definition l_bytes := Eval vm_compute in lit "bytes".
Definition l_true := Eval vm_compute in lit "true".
Definition l_Obj := Eval vm_compute in lit "Obj".
Definition l_Params := Eval vm_compute in lit "Params".

Definition group := (str * list def)%type.

(* reversedObjects: interface name -> its constructors in schema order; the list of groups is in
   order of first occurrence (one particular iteration order) *)
Fixpoint add_group (d : def) (gs : list group) : list group :=
  match gs with
  | [] => [(d_type d, [d])]
  | (k, l) :: t => if beq k (d_type d) then (k, l ++ [d]) :: t else (k, l) :: add_group d t
  end.

Definition groups (objs : list def) : list group :=
  fold_left (fun gs d => add_group d gs) objs [].

Definition no_params (d : def) : bool := match d_params d with [] => true | _ => false end.

Inductive gclass := GEnum | GSingle | GIface.

Definition group_class (l : list def) : gclass :=
  if forallb no_params l then GEnum
  else match l with [_] => GSingle | _ => GIface end.

Definition is_enum_group (g : group) : bool := match group_class (snd g) with GEnum => true | _ => false end.
Definition is_iface_group (g : group) : bool := match group_class (snd g) with GIface => true | _ => false end.
Definition single_of (g : group) : list def := match group_class (snd g) with GSingle => snd g | _ => [] end.

(* internalSchema.Enums / .Types (maps) and .SingleInterfaceTypes (appended in iteration order) *)
Definition enums_of (o : list group) : list group := filter is_enum_group o.
Definition types_of (o : list group) : list group := filter is_iface_group o.
Definition singles_of (o : list group) : list def := flat_map single_of o.

Fixpoint lookup (k : str) (m : list group) : option (list def) :=
  match m with
  | [] => None
  | (k', l) :: t => if beq k' k then Some l else lookup k t
  end.

Definition has_key (k : str) (m : list group) : bool := existsb (fun g => beq (fst g) k) m.

Section Gen.
Variable goify : str -> bool -> str.
Variable sort_defs : list def -> list def.      (* sort.Slice(..., Name less) *)
Variable sort_strs : list str -> list str.      (* sort.Strings *)

(* typeIdFromSchemaType; None = panic *)
Definition type_id (o : list group) (t : str) : option gokind :=
  if beq t l_Bool then Some KBool
  else if beq t l_long then Some KInt64
  else if beq t l_double then Some KFloat64
  else if beq t l_int then Some KInt32
  else if beq t l_string then Some KString
  else if beq t l_bytes then Some KBytes
  else if beq t l_bitflags then None
  else if beq t l_true then Some KBool
  else if has_key t (enums_of o) then Some (KEnum (goify t true))
  else if has_key t (types_of o) then Some (KIface (goify t true))
  else match find (fun d => beq (d_type d) t) (singles_of o) with
       | Some d => Some (KPtr (goify (d_name d) true))
       | None => None
       end.

Definition is_bitflags (p : param) : bool := beq (p_type p) l_bitflags.
Definition is_flags_word (p : param) : bool := beq (p_name p) l_flags && beq (p_type p) l_bitflags.

(* generateStructParameter *)
Definition gen_field (o : list group) (p : param) : outcome field :=
  match type_id o (p_type p) with
  | None => Panic
  | Some k => Ok (mkfield (goify (p_name p) true) k (p_vector p)
                          (if p_optional p then Some (p_bit p) else None)
                          (beq (p_type p) l_true))
  end.

Fixpoint gen_fields (o : list group) (ps : list param) : outcome (list field) :=
  match ps with
  | [] => Ok []
  | p :: t =>
    if is_bitflags p then gen_fields o t
    else do f <- gen_field o p; do fs <- gen_fields o t; Ok (f :: fs)
  end.

(* the loop `for i, param := range ...; if flags word { flagBitIndex = i }` : last match wins *)
Fixpoint flag_index_from (i : nat) (ps : list param) (acc : option nat) : option nat :=
  match ps with
  | [] => acc
  | p :: t => flag_index_from (S i) t (if is_flags_word p then Some i else acc)
  end.

Definition gen_flagindex (ps : list param) : outcome (option nat) :=
  if existsb p_optional ps then
    match flag_index_from 0 ps None with
    | Some i => Ok (Some i)
    | None => Panic       (* "optional bitflag not found!" *)
    end
  else Ok None.

(* generateStructTypeAndMethods for the definition [d] emitted under the native name [name] *)
Definition gen_struct (o : list group) (name : str) (d : def) (impl : list str) : outcome sdesc :=
  do fs <- gen_fields o (d_params d);
  do fi <- gen_flagindex (d_params d);
  Ok (mksdesc (goify name true) (d_crc d) fs fi impl).

Fixpoint omap_list {A B} (f : A -> outcome B) (l : list A) : outcome (list B) :=
  match l with
  | [] => Ok []
  | a :: t => do b <- f a; do bs <- omap_list f t; Ok (b :: bs)
  end.

(* enums_gen.go *)
Definition enum_value_name (constructor enum_type : str) : str :=
  if beq (goify constructor true) (goify enum_type true)
  then goify (constructor ++ l_Obj) true
  else goify constructor true.

Definition gen_enum (k : str) (l : list def) : edesc :=
  mkedesc (goify k true) k
          (map (fun d => (enum_value_name (d_name d) k, d_name d, d_crc d)) (sort_defs l)).

Definition gen_enums (o : list group) : list edesc :=
  flat_map (fun k => match lookup k (enums_of o) with
                     | Some l => [gen_enum k l]
                     | None => []
                     end)
           (sort_strs (map fst (enums_of o))).

(* types_gen.go *)
Definition gen_types (o : list group) : outcome (list sdesc) :=
  omap_list (fun d => gen_struct o (d_name d) d []) (sort_defs (singles_of o)).

(* interfaces_gen.go *)
Definition member_name (iface : str) (d : def) : str :=
  if beq (goify (d_name d) true) (goify iface true) then d_name d ++ l_Obj else d_name d.

Definition gen_iface (o : list group) (k : str) (l : list def) : outcome (str * list sdesc) :=
  do ss <- omap_list (fun d => gen_struct o (member_name k d) d [goify k true]) (sort_defs l);
  Ok (goify k true, ss).

Definition gen_ifaces (o : list group) : outcome (list (str * list sdesc)) :=
  omap_list (fun k => match lookup k (types_of o) with
                      | Some l => gen_iface o k l
                      | None => Ok (goify k true, [])   (* unreachable: k is a key *)
                      end)
            (sort_strs (map fst (types_of o))).

(* methods_gen.go *)
Definition same_go_type (p q : param) : bool :=
  beq (p_type p) (p_type q) && Bool.eqb (p_vector p) (p_vector q).

(* generateArgumentsForMethod, positional case: a bitflags parameter that closes its group of
   equally typed neighbours is dropped *)
Fixpoint gen_positional (o : list group) (ps : list param) : outcome (list (gokind * bool)) :=
  match ps with
  | [] => Ok []
  | p :: t =>
    let closes := match t with [] => true | q :: _ => negb (same_go_type p q) end in
    if closes && is_bitflags p then gen_positional o t
    else
      match type_id o (p_type p) with
      | None => if closes then Panic
                else (* no type is looked up for this one; it shares the neighbour's *)
                  do r <- gen_positional o t; Ok r
      | Some k => do r <- gen_positional o t; Ok ((k, p_vector p) :: r)
      end
  end.

(* the parameters that become positional arguments, in order (the selection gen_positional makes) *)
Fixpoint arg_params (ps : list param) : list param :=
  match ps with
  | [] => []
  | p :: t =>
    let closes := match t with [] => true | q :: _ => negb (same_go_type p q) end in
    if closes && is_bitflags p then arg_params t else p :: arg_params t
  end.

(* Go resolves an identifier of the method body to the argument of that name *)
Fixpoint arg_index (ident : str) (l : list param) (i : nat) : option nat :=
  match l with
  | [] => None
  | q :: t => if beq (goify (p_name q) false) ident then Some i else arg_index ident t (S i)
  end.

(* generateMethodArgumentForMakingRequest, positional case: the literal &<Name>Params{Field: argument, ...}.
   One entry per parameter other than the flags word, in the order of the struct's fields: the Go field
   name and the position of the argument whose identifier is written there (the identifier is goify(name,
   false), with a suffix that depends on it alone; None = no such argument: does not compile) *)
Definition gen_call (ps : list param) : list (str * option nat) :=
  map (fun p => (goify (p_name p) true, arg_index (goify (p_name p) false) (arg_params ps) 0))
      (filter (fun p => negb (is_bitflags p)) ps).

Definition gen_args (o : list group) (m : def) : outcome margs :=
  match d_params m with
  | [] => Ok ANone
  | ps =>
    if (5 <? length ps)%nat then Ok (AParams (goify (d_name m) true ++ l_Params))
    else do l <- gen_positional o ps; Ok (APositional l)
  end.

Definition gen_method (o : list group) (m : def) : outcome (sdesc * mdesc) :=
  do sd <- gen_struct o (d_name m ++ l_Params) m [];
  match type_id o (d_type m) with
  | None => Panic
  | Some k =>
    do a <- gen_args o m;
    Ok (sd, mkmdesc (goify (d_name m) true) a (k, d_isvec m))
  end.

Definition gen_methods (o : list group) (ms : list def) : outcome (list (sdesc * mdesc)) :=
  omap_list (gen_method o) (sort_defs ms).

(* init_gen.go: getAllConstructors + sort.Strings *)
Definition member_init_name (iface : str) (d : def) : str :=
  if beq (goify (d_name d) true) (goify iface true) then goify (d_name d ++ l_Obj) true
  else goify (d_name d) true.

Definition gen_init (o : list group) (ms : list def) : list str * list str :=
  let structs :=
      flat_map (fun g => map (member_init_name (fst g)) (snd g)) (types_of o)
      ++ map (fun d => goify (d_name d) true) (sort_defs (singles_of o))
      ++ map (fun m => goify (d_name m ++ l_Params) true) (sort_defs ms) in
  let enums := flat_map (fun g => map (fun d => enum_value_name (d_name d) (fst g)) (snd g)) (enums_of o) in
  (sort_strs structs, sort_strs enums).

(* Generator.Generate for the iteration order [o] of the interface groups *)
Definition emit (o : list group) (ms : list def) : outcome output :=
  let en := gen_enums o in
  do ty <- gen_types o;
  do ifs <- gen_ifaces o;
  do me <- gen_methods o ms;
  Ok (mkoutput en ty ifs me (gen_init o ms)).

End Gen.

(* the tool: parse result -> descriptors, for the iteration order given by [perm] *)
Definition generate goify sort_defs sort_strs (perm : list group -> list group) (s : schema) : outcome output :=
  emit goify sort_defs sort_strs (perm (groups (s_objects s))) (s_methods s).

(* ---- executable instances of the two sorts (insertion sort on the Go string order) ---- *)

Fixpoint str_leb (a b : str) : bool :=
  match a, b with
  | [], _ => true
  | _ :: _, [] => false
  | x :: a', y :: b' => if x <? y then true else if y <? x then false else str_leb a' b'
  end.

Section ISort.
Context {A : Type}.
Variable key : A -> str.
Fixpoint insert_by (a : A) (l : list A) : list A :=
  match l with
  | [] => [a]
  | b :: t => if str_leb (key a) (key b) then a :: l else b :: insert_by a t
  end.
Fixpoint isort_by (l : list A) : list A :=
  match l with
  | [] => []
  | a :: t => insert_by a (isort_by t)
  end.
End ISort.

Definition isort_defs : list def -> list def := isort_by d_name.
Definition isort_strs : list str -> list str := isort_by (fun s => s).

(* ---- the part of the subset that concerns the generator (decidable) ---- *)

Section Subset.
Variable goify : str -> bool -> str.

(* every referenced type is declared (or primitive); conditional fields come with a flags word *)
Definition def_resolvable (o : list group) (is_method : bool) (d : def) : bool :=
  forallb (fun p => is_bitflags p || match type_id goify o (p_type p) with Some _ => true | None => false end)
          (d_params d)
  && (negb (existsb p_optional (d_params d)) || existsb is_flags_word (d_params d))
  && (negb is_method || match type_id goify o (d_type d) with Some _ => true | None => false end).

Definition wf_gen (s : schema) : bool :=
  let o := groups (s_objects s) in
  forallb (def_resolvable o false) (s_objects s) && forallb (def_resolvable o true) (s_methods s).

Fixpoint nodup_str (l : list str) : bool :=
  match l with
  | [] => true
  | a :: t => negb (list_contains t a) && nodup_str t
  end.

(* names the generated package declares at top level, and per struct: all distinct *)
Definition top_names (s : schema) : list str :=
  let o := groups (s_objects s) in
  map (fun g => goify (fst g) true) (enums_of o)
  ++ flat_map (fun g => map (fun d => enum_value_name goify (d_name d) (fst g)) (snd g)) (enums_of o)
  ++ map (fun g => goify (fst g) true) (types_of o)
  ++ flat_map (fun g => map (member_init_name goify (fst g)) (snd g)) (types_of o)
  ++ map (fun d => goify (d_name d) true) (singles_of o)
  ++ map (fun m => goify (d_name m ++ l_Params) true) (s_methods s).

Definition field_names (d : def) : list str :=
  map (fun p => goify (p_name p) true) (filter (fun p => negb (is_bitflags p)) (d_params d)).

Definition names_ok (s : schema) : bool :=
  nodup_str (top_names s)
  && nodup_str (map (fun m => goify (d_name m) true) (s_methods s))
  && nodup_str (map (fun d => [d_crc d]) (s_objects s ++ s_methods s))
  && forallb (fun d => nodup_str (field_names d)) (s_objects s ++ s_methods s).

End Subset.
