(* Canonical printer of a schema value, and the decidable description of the TL subset the tool
   handles (type and function sections, flags.N? conditionals, Vector<>, namespaces, `#`). *)
From Coq Require Import String.
From Coq Require Import ZArith NArith List Lia Bool.
From MTV Require Import Base.Bytes Base.Outcome Base.Str TLGen.Parser.
Import ListNotations.
Open Scope N_scope.

(* ---- numbers ---- *)

(* digit values, least significant first; at most [fuel] of them *)
Fixpoint digits_rev (base : N) (fuel : nat) (n : N) : list N :=
  match fuel with
  | O => []
  | S f => (n mod base) :: (if n / base =? 0 then [] else digits_rev base f (n / base))
  end.

Definition hex_char (d : N) : N := if d <? 10 then 48 + d else 87 + d.
Definition dec_char (d : N) : N := 48 + d.

(* fmt %x of a uint32 *)
Definition to_hex (n : N) : str := map hex_char (rev (digits_rev 16 8 n)).
(* decimal of a small number (< 10^20) *)
Definition to_dec (n : N) : str := map dec_char (rev (digits_rev 10 20 n)).

(* ---- printer ---- *)

Definition l_vector_lt := Eval vm_compute in lit "Vector<".
Definition l_eq_sp := Eval vm_compute in lit " = ".
Definition l_semi_nl := Eval vm_compute in lit ";
".
Definition l_functions_nl := Eval vm_compute in lit "---functions---
".

Definition print_type (ty : str) (vec : bool) : str :=
  if vec then l_vector_lt ++ ty ++ [c_gt] else ty.

Definition shown_type (p : param) : str :=
  if beq (p_name p) l_flags && beq (p_type p) l_bitflags then l_hashsign else p_type p.

Definition print_param (p : param) : str :=
  p_name p ++ [c_colon]
  ++ (if p_optional p then l_flagsdot ++ to_dec (p_bit p) ++ l_question else [])
  ++ print_type (shown_type p) (p_vector p).

Fixpoint print_params (ps : list param) : str :=
  match ps with
  | [] => []
  | p :: t => c_space :: print_param p ++ print_params t
  end.

Definition print_def (d : def) : str :=
  d_name d ++ [c_hash] ++ to_hex (d_crc d) ++ print_params (d_params d)
  ++ l_eq_sp ++ print_type (d_type d) (d_isvec d) ++ l_semi_nl.

Fixpoint print_defs (l : list def) : str :=
  match l with
  | [] => []
  | d :: t => print_def d ++ print_defs t
  end.

Definition print (s : schema) : str :=
  print_defs (s_objects s) ++ l_functions_nl ++ print_defs (s_methods s).

(* ---- the subset ---- *)

Definition is_letter (r : N) : bool := ((97 <=? r) && (r <=? 122)) || ((65 <=? r) && (r <=? 90)).
Definition is_ascii_digit (r : N) : bool := (48 <=? r) && (r <=? 57).
(* identifier characters; '.' separates the namespace *)
Definition ident_char (r : N) : bool := is_letter r || is_ascii_digit r || (r =? 95) || (r =? 46).

Definition ident (s : str) : bool :=
  match s with
  | [] => false
  | r :: _ => is_letter r && forallb ident_char s
  end.

(* a type name the parser reads back as written *)
Definition type_ok (ty : str) : bool :=
  ident ty && negb (has_prefix l_vector ty) && negb (has_prefix l_flagsdot ty).

Definition wf_param (p : param) : bool :=
  ident (p_name p) && type_ok (p_type p)
  && (if p_optional p then p_bit p <? 32 else p_bit p =? 0).

Definition wf_def (d : def) : bool :=
  ident (d_name d) && negb (list_contains excluded_definitions (d_name d))
  && (d_crc d <? 4294967296)
  && forallb wf_param (d_params d)
  && type_ok (d_type d).

Definition wf_object (d : def) : bool := wf_def d && negb (d_isvec d).

Definition wf_schema (s : schema) : bool :=
  forallb wf_object (s_objects s) && forallb wf_def (s_methods s).
