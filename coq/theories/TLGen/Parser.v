(* Model of internal/cmd/tlgen/tlparser (cursor.go, parser.go, excluded.go) AFTER the C14 fixes
   (plain `//` comments and annotations without text are accepted line-wise; the empty source
   gives the empty schema; IsNext goes back exactly to where it started; the first word of a
   definition is un-read by its rune count).

   Go strings are byte strings; NewCursor converts the source to []rune, so the model first
   decodes UTF-8 exactly as Go does (invalid byte -> U+FFFD, one byte consumed) and then works on
   code points (N).

   Cursor = (source, pos).  It is represented as the pair (runes before pos, reversed ; runes from
   pos on), a bijective re-coordinatisation of all states with 0 <= pos <= len.  The Go index
   expression p.source[p.pos] panics iff pos >= len, i.e. iff [after] is empty: that bounds test
   is explicit in [current] and in every loop below (result CPanic / PPanic).

   Comments' texts (Comment fields, TypeComments) are not part of the model's schema value: the
   property is about names, ids, parameters and result types.  Their syntax is modelled because
   it decides between "continue" and "error". *)
From Coq Require Import String.
From Coq Require Import ZArith NArith List Lia Bool.
From MTV Require Import Base.Bytes Base.Outcome Base.Str.
Import ListNotations.
Open Scope N_scope.

Definition str := list N.

(* ------------------------------------------------------------------------------------ *)
(* UTF-8 decoding as done by []rune(s) / range over a string (unicode/utf8 tables)        *)

Definition rune_error : N := 65533.

(* first byte -> (size, lowest and highest accepted second byte) *)
Definition utf8_first (b : N) : option (N * N * N) :=
  if (194 <=? b) && (b <=? 223) then Some (2, 128, 191)
  else if b =? 224 then Some (3, 160, 191)
  else if (225 <=? b) && (b <=? 236) then Some (3, 128, 191)
  else if b =? 237 then Some (3, 128, 159)
  else if (238 <=? b) && (b <=? 239) then Some (3, 128, 191)
  else if b =? 240 then Some (4, 144, 191)
  else if (241 <=? b) && (b <=? 243) then Some (4, 128, 191)
  else if b =? 244 then Some (4, 128, 143)
  else None.

Definition utf8_cont (b : N) : bool := (128 <=? b) && (b <=? 191).

Fixpoint utf8_decode (l : list N) : list N :=
  match l with
  | [] => []
  | b0 :: r0 =>
    if b0 <? 128 then b0 :: utf8_decode r0
    else
      match utf8_first b0 with
      | None => rune_error :: utf8_decode r0
      | Some (sz, lo, hi) =>
        match r0 with
        | b1 :: r1 =>
          if (lo <=? b1) && (b1 <=? hi) then
            if sz =? 2 then ((b0 mod 32) * 64 + b1 mod 64) :: utf8_decode r1
            else
              match r1 with
              | b2 :: r2 =>
                if utf8_cont b2 then
                  if sz =? 3 then ((b0 mod 16) * 4096 + (b1 mod 64) * 64 + b2 mod 64) :: utf8_decode r2
                  else
                    match r2 with
                    | b3 :: r3 =>
                      if utf8_cont b3
                      then ((b0 mod 8) * 262144 + (b1 mod 64) * 4096 + (b2 mod 64) * 64 + b3 mod 64) :: utf8_decode r3
                      else rune_error :: utf8_decode r0
                    | [] => rune_error :: utf8_decode r0
                    end
                else rune_error :: utf8_decode r0
              | [] => rune_error :: utf8_decode r0
              end
          else rune_error :: utf8_decode r0
        | [] => rune_error :: utf8_decode r0
        end
      end
  end.

(* ------------------------------------------------------------------------------------ *)
(* unicode.IsSpace / unicode.IsDigit (Unicode 15.0.0 tables of the Go toolchain; the check
   compares both functions with the toolchain's on every rune on every run)               *)

Definition is_space (r : N) : bool :=
  ((9 <=? r) && (r <=? 13)) || (r =? 32) || (r =? 133) || (r =? 160) || (r =? 5760)
  || ((8192 <=? r) && (r <=? 8202)) || (r =? 8232) || (r =? 8233) || (r =? 8239) || (r =? 8287)
  || (r =? 12288).

(* every Nd range is [lo, lo+9] except the mathematical digits 120782..120831 *)
Definition digit_starts : list N :=
  [48; 1632; 1776; 1984; 2406; 2534; 2662; 2790; 2918; 3046; 3174; 3302; 3430; 3558; 3664; 3792; 3872;
   4160; 4240; 6112; 6160; 6470; 6608; 6784; 6800; 6992; 7088; 7232; 7248; 42528; 43216; 43264; 43472;
   43504; 43600; 44016; 65296; 66720; 68912; 69734; 69872; 69942; 70096; 70384; 70736; 70864; 71248;
   71360; 71472; 71904; 72016; 72784; 73040; 73120; 73552; 92768; 92864; 93008; 123200; 123632; 124144;
   125264; 130032].

Definition is_digit (r : N) : bool :=
  if r <? 128 then (48 <=? r) && (r <=? 57)
  else if 130041 <? r then false
  else existsb (fun lo => (lo <=? r) && (r <=? lo + 9)) digit_starts || ((120782 <=? r) && (r <=? 120831)).

(* ------------------------------------------------------------------------------------ *)
(* cursor.go                                                                              *)

Record cursor := mkcur { before : list N (* reversed *); after : list N }.

Definition cur_pos (c : cursor) : nat := length (before c).
Definition cur_len (c : cursor) : nat := (length (before c) + length (after c))%nat.

Definition new_cursor (src : list N) : cursor := mkcur [] src.

(* p.source[p.pos] : None = index out of range *)
Definition current (c : cursor) : option N := hd_error (after c).

(* next(): false = io.EOF (position unchanged) *)
Definition next (c : cursor) : cursor * bool :=
  match after c with
  | r :: ((_ :: _) as t) => (mkcur (r :: before c) t, true)
  | _ => (c, false)
  end.

(* Unread(count): pos -= count, clamped at 0 *)
Fixpoint unread (n : nat) (c : cursor) : cursor :=
  match n with
  | O => c
  | S n' => match before c with
            | [] => c
            | r :: b => unread n' (mkcur b (r :: after c))
            end
  end.

(* Skip(count): pos += count, clamped at len-1.  (For the empty source Go leaves pos = -1; every
   later access panics just as it does here with pos = 0.) *)
Fixpoint skip (n : nat) (c : cursor) : cursor :=
  match n with
  | O => c
  | S n' => let (c', moved) := next c in if moved then skip n' c' else c
  end.

(* result of a cursor method: value + new cursor, io.EOF (cursor as left behind), or panic *)
Inductive cres (A : Type) : Type :=
| COk (a : A) (c : cursor)
| CEof (c : cursor)
| CPanic.
Arguments COk {A} a c.
Arguments CEof {A} c.
Arguments CPanic {A}.

(* SkipSpaces: for unicode.IsSpace(p.current()) { if next() == EOF { break } } *)
Fixpoint skip_spaces_go (b a : list N) : option cursor :=
  match a with
  | [] => None
  | r :: t =>
    if is_space r then
      match t with
      | [] => Some (mkcur b a)
      | _ :: _ => skip_spaces_go (r :: b) t
      end
    else Some (mkcur b a)
  end.
Definition skip_spaces (c : cursor) : option cursor := skip_spaces_go (before c) (after c).

(* ReadAt(at) *)
Fixpoint read_at_go (x : N) (acc b a : list N) : cres str :=
  match a with
  | [] => CPanic
  | r :: t =>
    if r =? x then COk (rev acc) (mkcur b a)
    else match t with
         | [] => CEof (mkcur b a)
         | _ :: _ => read_at_go x (r :: acc) (r :: b) t
         end
  end.
Definition read_at (x : N) (c : cursor) : cres str := read_at_go x [] (before c) (after c).

(* ReadDigits *)
Fixpoint read_digits_go (acc b a : list N) : cres str :=
  match a with
  | [] => CPanic
  | r :: t =>
    if is_digit r then
      match t with
      | [] => CEof (mkcur b a)
      | _ :: _ => read_digits_go (r :: acc) (r :: b) t
      end
    else COk (rev acc) (mkcur b a)
  end.
Definition read_digits (c : cursor) : cres str := read_digits_go [] (before c) (after c).

(* IsNext(s): compares rune by rune, next() after each match (it stays on the last rune of the source);
   on a mismatch the cursor goes back to where the comparison began [c0] *)
Fixpoint is_next_go (s : str) (c0 c : cursor) : cres bool :=
  match s with
  | [] => COk true c
  | e :: s' =>
    match current c with
    | None => CPanic
    | Some r => if r =? e then is_next_go s' c0 (fst (next c)) else COk false c0
    end
  end.
Definition is_next (s : str) (c : cursor) : cres bool := is_next_go s c c.

(* ------------------------------------------------------------------------------------ *)
(* schema.go (comments left out)                                                          *)

Record param := mkparam {
  p_name : str; p_type : str; p_vector : bool; p_optional : bool; p_bit : N }.

(* one line of the schema: an object (constructor) or a method *)
Record def := mkdef {
  d_name : str; d_crc : N; d_params : list param; d_type : str; d_isvec : bool }.

Record schema := mkschema { s_objects : list def; s_methods : list def }.

(* ------------------------------------------------------------------------------------ *)
(* literals                                                                               *)

Definition c_space : N := 32.
Definition c_nl : N := 10.
Definition c_hash : N := 35.
Definition c_colon : N := 58.
Definition c_semi : N := 59.
Definition c_gt : N := 62.
Definition c_at : N := 64.

Definition l_functions := Eval vm_compute in lit "---functions---".
Definition l_types := Eval vm_compute in lit "---types---".
Definition l_slashes := Eval vm_compute in lit "//".
Definition l_eq := Eval vm_compute in lit "=".
Definition l_flagsdot := Eval vm_compute in lit "flags.".
Definition l_question := Eval vm_compute in lit "?".
Definition l_vector := Eval vm_compute in lit "Vector".
Definition l_flags := Eval vm_compute in lit "flags".
Definition l_hashsign := Eval vm_compute in lit "#".
Definition l_bitflags := Eval vm_compute in lit "bitflags".

Definition excluded_definitions : list str := Eval vm_compute in
  [lit "true"; lit "boolFalse"; lit "boolTrue"; lit "vector"; lit "invokeAfterMsg"; lit "invokeAfterMsgs";
   lit "initConnection"; lit "invokeWithLayer"; lit "invokeWithoutUpdates"; lit "invokeWithMessagesRange";
   lit "invokeWithTakeout"].

Definition excluded_types : list str := Eval vm_compute in
  [lit "int"; lit "long"; lit "double"; lit "string"; lit "bytes"].

Definition comment_kinds_text : list str := Eval vm_compute in
  [lit "@type"; lit "@enum"; lit "@constructor"; lit "@method"].
Definition l_atparam := Eval vm_compute in lit "@param".

(* ------------------------------------------------------------------------------------ *)
(* strconv                                                                                *)

Fixpoint dec_value (acc : N) (s : str) : option N :=
  match s with
  | [] => Some acc
  | r :: t => if (48 <=? r) && (r <=? 57) then dec_value (10 * acc + (r - 48)) t else None
  end.

(* strconv.Atoi on a string of unicode digits: ASCII digits only, at least one, value fits int64 *)
Definition atoi (s : str) : option N :=
  match s with
  | [] => None
  | _ => match dec_value 0 s with
         | Some v => if v <? 9223372036854775808 then Some v else None
         | None => None
         end
  end.

Definition hex_digit (r : N) : option N :=
  if (48 <=? r) && (r <=? 57) then Some (r - 48)
  else if (97 <=? r) && (r <=? 102) then Some (r - 87)
  else if (65 <=? r) && (r <=? 70) then Some (r - 55)
  else None.

Fixpoint hex_value (acc : N) (s : str) : option N :=
  match s with
  | [] => Some acc
  | r :: t => match hex_digit r with Some d => hex_value (16 * acc + d) t | None => None end
  end.

(* strconv.ParseUint(s, 16, 32) *)
Definition parse_hex32 (s : str) : option N :=
  match s with
  | [] => None
  | _ => match hex_value 0 s with
         | Some v => if v <? 4294967296 then Some v else None
         | None => None
         end
  end.

(* ------------------------------------------------------------------------------------ *)
(* strings.TrimSpace / Fields / HasPrefix as used on a comment line                       *)

Fixpoint drop_spaces (s : str) : str :=
  match s with
  | r :: t => if is_space r then drop_spaces t else s
  | [] => []
  end.

Definition trim_space (s : str) : str := rev (drop_spaces (rev (drop_spaces s))).

(* first element of strings.Fields on a string that does not start with a space *)
Fixpoint first_field (s : str) : str :=
  match s with
  | r :: t => if is_space r then [] else r :: first_field t
  | [] => []
  end.

Inductive comment_class := CmPlain | CmAnnotation | CmBad.

(* what ParseSchema does with the text between `//` and the end of the line *)
Definition classify_comment (line : str) : comment_class :=
  let l := trim_space line in
  match l with
  | r :: _ =>
    if r =? c_at then
      let ctype := first_field l in
      let comment := trim_space (skipn (length ctype) l) in
      if list_contains comment_kinds_text ctype then CmAnnotation
      else if beq ctype l_atparam then
        match first_field (drop_spaces comment) with
        | [] => CmBad          (* @param without a name *)
        | _ :: _ => CmAnnotation
        end
      else CmBad               (* unknown comment type *)
    else CmPlain
  | [] => CmPlain
  end.

(* ------------------------------------------------------------------------------------ *)
(* parser.go                                                                              *)

Inductive pres (A : Type) : Type :=
| POk (a : A) (c : cursor)
| PEof                     (* an error wrapping io.EOF *)
| PExcluded (c : cursor)   (* errExcluded; the cursor has moved past the definition *)
| PErr                     (* any other error *)
| PPanic
| PFuel.
Arguments POk {A} a c.
Arguments PEof {A}.
Arguments PExcluded {A} c.
Arguments PErr {A}.
Arguments PPanic {A}.
Arguments PFuel {A}.

(* plumbing: run a cursor method inside a parser function; io.EOF is wrapped and returned *)
Definition cbind {A B} (x : cres A) (f : A -> cursor -> pres B) : pres B :=
  match x with COk a c => f a c | CEof _ => PEof | CPanic => PPanic end.

Definition sbind {B} (x : option cursor) (f : cursor -> pres B) : pres B :=
  match x with Some c => f c | None => PPanic end.

Definition pbind {A B} (x : pres A) (f : A -> cursor -> pres B) : pres B :=
  match x with
  | POk a c => f a c
  | PEof => PEof | PExcluded c => PExcluded c | PErr => PErr | PPanic => PPanic | PFuel => PFuel
  end.

Definition parse_param (c : cursor) : pres param :=
  sbind (skip_spaces c) (fun c =>
  cbind (read_at c_colon c) (fun name c =>
  let c := skip 1 c in
  cbind (is_next l_flagsdot c) (fun isflag c =>
  let after_flag (opt : bool) (bit : N) (c : cursor) : pres param :=
    cbind (is_next l_vector c) (fun isvec c =>
    if isvec then
      let c := skip 1 c in
      cbind (read_at c_gt c) (fun ty c =>
      POk (mkparam name ty true opt bit) (skip 1 c))
    else
      cbind (read_at c_space c) (fun ty c =>
      POk (mkparam name ty false opt bit) c)) in
  if isflag then
    cbind (read_digits c) (fun digits c =>
    match atoi digits with
    | None => PErr
    | Some bit =>
      cbind (is_next l_question c) (fun q c =>
      if q then after_flag true bit c else PErr)
    end)
  else after_flag false 0 c))).

Definition fix_bitflags (p : param) : param :=
  if beq (p_name p) l_flags && beq (p_type p) l_hashsign
  then mkparam (p_name p) l_bitflags (p_vector p) (p_optional p) (p_bit p)
  else p.

(* for !cur.IsNext("=") { parseParam; SkipSpaces; append } *)
Fixpoint params_loop (fuel : nat) (c : cursor) (acc : list param) : pres (list param) :=
  match fuel with
  | O => PFuel
  | S f =>
    cbind (is_next l_eq c) (fun iseq c =>
    if iseq then POk (rev acc) c
    else
      pbind (parse_param c) (fun p c =>
      sbind (skip_spaces c) (fun c =>
      params_loop f c (fix_bitflags p :: acc))))
  end.

(* read to ';', skip it, report errExcluded *)
Definition skip_excluded {A} (c : cursor) : pres A :=
  cbind (read_at c_semi c) (fun _ c => PExcluded (skip 1 c)).

Definition parse_definition (fuel : nat) (c : cursor) : pres def :=
  sbind (skip_spaces c) (fun c =>
  cbind (read_at c_space c) (fun typ c =>
  if list_contains excluded_types typ then skip_excluded c
  else
    let c := unread (length typ) c in   (* Unread(utf8.RuneCountInString(typSpace)) *)
    cbind (read_at c_hash c) (fun name c =>
    if list_contains excluded_definitions name then skip_excluded c
    else
      let c := skip 1 c in
      cbind (read_at c_space c) (fun crcs c =>
      sbind (skip_spaces c) (fun c =>
      pbind (params_loop fuel c []) (fun params c =>
      sbind (skip_spaces c) (fun c =>
      cbind (is_next l_vector c) (fun isvec c =>
      let fin (ty : str) (c : cursor) : pres def :=
        match parse_hex32 crcs with
        | None => PErr
        | Some crc => POk (mkdef name crc params ty isvec) c
        end in
      if isvec then
        let c := skip 1 c in
        cbind (read_at c_gt c) (fun ty c => fin ty (skip 2 c))
      else
        cbind (read_at c_semi c) (fun ty c => fin ty (skip 1 c)))))))))).

(* final result of ParseSchema; the cursor is irrelevant *)
Inductive sres : Type :=
| SOk (s : schema)
| SErr
| SPanic
| SFuel.

Fixpoint main_loop (fuel : nat) (c : cursor) (isfun : bool) (objs meths : list def) : sres :=
  match fuel with
  | O => SFuel
  | S f =>
    let finish := SOk (mkschema (rev objs) (rev meths)) in
    match skip_spaces c with
    | None => SPanic
    | Some c =>
      match is_next l_functions c with
      | CPanic => SPanic
      | CEof _ => SPanic (* unreachable: IsNext has no error result *)
      | COk true c => main_loop f c true objs meths
      | COk false c =>
        match is_next l_types c with
        | CPanic | CEof _ => SPanic
        | COk true c => main_loop f c false objs meths
        | COk false c =>
          match is_next l_slashes c with
          | CPanic | CEof _ => SPanic
          | COk true c =>
            match read_at c_nl c with
            | CPanic => SPanic
            | CEof _ => finish
            | COk line c =>
              match classify_comment line with
              | CmBad => SErr
              | _ => main_loop f (skip 1 c) isfun objs meths
              end
            end
          | COk false c =>
            match parse_definition f c with
            | PPanic => SPanic
            | PFuel => SFuel
            | PErr => SErr
            | PEof => finish
            | PExcluded c => main_loop f c isfun objs meths
            | POk d c =>
              if isfun then main_loop f c isfun objs (d :: meths)
              else if d_isvec d then SErr
              else main_loop f c isfun (d :: objs) meths
            end
          end
        end
      end
    end
  end.

(* ParseSchema on the rune slice *)
Definition parse_runes (fuel : nat) (src : list N) : sres :=
  match src with
  | [] => SOk (mkschema [] [])
  | _ :: _ => main_loop fuel (new_cursor src) false [] []
  end.

(* ParseSchema(source string) *)
Definition parse_fuel (fuel : nat) (source : bytes) : sres := parse_runes fuel (utf8_decode source).

(* enough for every source on which the loops make progress; SFuel is never confused with a result *)
Definition default_fuel (source : bytes) : nat := (2 * length source + 64)%nat.

Definition parse (source : bytes) : sres := parse_fuel (default_fuel source) source.

Definition sres_is_ok (r : sres) : bool := match r with SOk _ => true | _ => false end.
