(* The migration protocol of the repaired client (mtproto.go makeRequest / tryToProcessErrOf /
   repeatPendingRequests, fix commits e8e82e3 and 7ef7af4) as a labelled transition system over
   K callers sharing one client, K arbitrary.

     makeRequest:  migrateMutex.RLock; sentTo := m.addr; sendPacket; RUnlock; wait for the answer;
                   rpc_error PHONE_MIGRATE_X -> tryToProcessErrOf(e, sentTo) -> makeRequest again
     tryToProcessErrOf: migrateMutex.Lock; if m.addr = dclist[X] and sentTo <> dclist[X] then just
                   repeat, else m.addr := dclist[X]; Reconnect; repeatPendingRequests (every caller
                   still waiting on the connection just left is woken and sends again); Unlock

   Abstractions: addresses, data centre ids and callers are numbers; dclist is a total function
   [dcs] (the unconfigured case is the sequential theorem C17_live_unconfigured); what a data centre
   answers to caller i's request is [pol a i]: None = the result, Some x = PHONE_MIGRATE_x; a write
   made under the read lock reaches the data centre (it is logged at once); Reconnect succeeds;
   answers are routed to the caller that sent the request (property C09).  Go's RWMutex lets no new
   reader in while a writer waits: that only removes interleavings, every theorem here holds for
   all interleavings of the weaker lock. *)
From Coq Require Import NArith List Lia Bool Arith.
From MTV Require Import Misc.RpcError.
Import ListNotations.
Open Scope nat_scope.

Inductive pc :=
| Idle                      (* makeRequest not entered yet *)
| Repeat                    (* has to send again: redirect handled, or woken by a migration *)
| Sending (a : nat)         (* holds the read lock, sentTo = a, request written to a *)
| Waiting (a g : nat)       (* sent to a on connection number g; blocked on its response channel *)
| Redirected (x a : nat)    (* answered PHONE_MIGRATE_x for the request sent to a; wants the write lock *)
| Locked (x a : nat)        (* holds the write lock (tryToProcessErrOf between Lock and Unlock) *)
| Done (a : nat).           (* got the result, from the data centre at a *)

Record caller := { c_pc : pc; c_redir : nat; c_woken : nat }.   (* redirects received, times woken *)

Record st := {
  cs : list caller;
  addr : nat;                       (* m.addr *)
  gen : nat;                        (* number of the live connection *)
  writer : option nat;              (* holder of migrateMutex.Lock *)
  readers : nat;                    (* holders of migrateMutex.RLock *)
  opened : list nat;                (* addresses connected to by migrations, in order *)
  log : list (nat * nat)            (* (address, caller): requests received by the data centres, in order *)
}.

Inductive label :=
| LSend (i : nat)        (* RLock; sentTo := addr; write *)
| LRUnlock (i : nat)
| LAnswer (i : nat)      (* the data centre's answer reaches caller i (result or PHONE_MIGRATE_x) *)
| LLock (i : nat)
| LSkip (i : nat)        (* already moved by another caller: Unlock, repeat *)
| LReconnect (i : nat).  (* addr := dcs x; Reconnect; wake the waiting callers; Unlock, repeat *)

Definition actor (l : label) : nat :=
  match l with LSend i | LRUnlock i | LAnswer i | LLock i | LSkip i | LReconnect i => i end.

Definition set_pc (p : pc) (c : caller) : caller :=
  {| c_pc := p; c_redir := c_redir c; c_woken := c_woken c |}.

Definition redirect (x a : nat) (c : caller) : caller :=
  {| c_pc := Redirected x a; c_redir := S (c_redir c); c_woken := c_woken c |}.

(* repeatPendingRequests: the callers with an entry in the response table *)
Definition wake (c : caller) : caller :=
  match c_pc c with
  | Waiting _ _ => {| c_pc := Repeat; c_redir := c_redir c; c_woken := S (c_woken c) |}
  | _ => c
  end.

Section Protocol.
  Variable pol : nat -> nat -> option nat.    (* address -> caller -> None: result | Some x: PHONE_MIGRATE_x *)
  Variable dcs : nat -> nat.                  (* dclist *)

  Definition already_moved (s : st) (x a : nat) : bool :=
    Nat.eqb (addr s) (dcs x) && negb (Nat.eqb a (dcs x)).

  Definition step (s : st) (l : label) : option st :=
    match l with
    | LSend i =>
        match nth_error (cs s) i, writer s with
        | Some c, None =>
            match c_pc c with
            | Idle | Repeat =>
                Some {| cs := upd (cs s) i (set_pc (Sending (addr s))); addr := addr s; gen := gen s;
                        writer := None; readers := S (readers s); opened := opened s;
                        log := log s ++ [(addr s, i)] |}
            | _ => None
            end
        | _, _ => None
        end
    | LRUnlock i =>
        match nth_error (cs s) i with
        | Some c =>
            match c_pc c with
            | Sending a =>
                Some {| cs := upd (cs s) i (set_pc (Waiting a (gen s))); addr := addr s; gen := gen s;
                        writer := writer s; readers := pred (readers s); opened := opened s; log := log s |}
            | _ => None
            end
        | None => None
        end
    | LAnswer i =>
        match nth_error (cs s) i with
        | Some c =>
            match c_pc c with
            | Waiting a g =>
                if Nat.eqb g (gen s) then      (* only the live connection delivers *)
                  Some {| cs := upd (cs s) i (match pol a i with
                                              | None => set_pc (Done a)
                                              | Some x => redirect x a
                                              end);
                          addr := addr s; gen := gen s; writer := writer s; readers := readers s;
                          opened := opened s; log := log s |}
                else None
            | _ => None
            end
        | None => None
        end
    | LLock i =>
        match nth_error (cs s) i, writer s, readers s with
        | Some c, None, O =>
            match c_pc c with
            | Redirected x a =>
                Some {| cs := upd (cs s) i (set_pc (Locked x a)); addr := addr s; gen := gen s;
                        writer := Some i; readers := O; opened := opened s; log := log s |}
            | _ => None
            end
        | _, _, _ => None
        end
    | LSkip i =>
        match nth_error (cs s) i with
        | Some c =>
            match c_pc c with
            | Locked x a =>
                if already_moved s x a then
                  Some {| cs := upd (cs s) i (set_pc Repeat); addr := addr s; gen := gen s;
                          writer := None; readers := readers s; opened := opened s; log := log s |}
                else None
            | _ => None
            end
        | None => None
        end
    | LReconnect i =>
        match nth_error (cs s) i with
        | Some c =>
            match c_pc c with
            | Locked x a =>
                if already_moved s x a then None
                else
                  Some {| cs := upd (List.map wake (cs s)) i (set_pc Repeat); addr := dcs x; gen := S (gen s);
                          writer := None; readers := readers s; opened := opened s ++ [dcs x]; log := log s |}
            | _ => None
            end
        | None => None
        end
    end.

  Fixpoint run (s : st) (ls : list label) : option st :=
    match ls with
    | [] => Some s
    | l :: ls' => match step s l with Some s' => run s' ls' | None => None end
    end.

  Definition init (k a0 : nat) : st :=
    {| cs := repeat {| c_pc := Idle; c_redir := 0; c_woken := 0 |} k; addr := a0; gen := 0;
       writer := None; readers := 0; opened := []; log := [] |}.

  Definition reachable (k a0 : nat) (s : st) : Prop := exists ls, run (init k a0) ls = Some s.

  (* ---- observables ---- *)

  Definition is_done (c : caller) : bool := match c_pc c with Done _ => true | _ => false end.
  Definition all_done (s : st) : bool := forallb is_done (cs s).

  (* requests of caller j received by the data centre at a *)
  Definition received (a j : nat) (lg : list (nat * nat)) : nat :=
    length (filter (fun e => Nat.eqb (fst e) a && Nat.eqb (snd e) j) lg).

  (* all requests of caller j, wherever received *)
  Definition sent (j : nat) (lg : list (nat * nat)) : nat :=
    length (filter (fun e => Nat.eqb (snd e) j) lg).

  (* the data centre that received caller j's latest request *)
  Fixpoint last_to (j : nat) (lg : list (nat * nat)) : option nat :=
    match lg with
    | [] => None
    | (a, i) :: r => match last_to j r with
                     | Some b => Some b
                     | None => if Nat.eqb i j then Some a else None
                     end
    end.

  Definition connections (a : nat) (s : st) : nat := count_occ Nat.eq_dec (opened s) a.

  (* a send is still due *)
  Definition owes (p : pc) : nat :=
    match p with Idle | Repeat | Redirected _ _ | Locked _ _ => 1 | _ => 0 end.

  Definition holds_write (c : caller) : bool := match c_pc c with Locked _ _ => true | _ => false end.
  Definition holds_read (c : caller) : bool := match c_pc c with Sending _ => true | _ => false end.

  (* ---- termination measure ---- *)

  Definition serves_all (k a : nat) : bool :=
    forallb (fun j => match pol a j with None => true | Some _ => false end) (seq 0 k).

  Definition own (bad_addr : bool) (bad : nat -> bool) (p : pc) : nat :=
    match p with
    | Idle | Repeat => if bad_addr then 8 else 3
    | Sending a => if bad a then 7 else 2
    | Waiting a _ => if bad a then 6 else 1
    | Redirected _ _ => 5
    | Locked _ _ => 4
    | Done _ => 0
    end.

  Definition pot (bad_addr : bool) (bad : nat -> bool) (p : pc) : nat :=
    match p with
    | Idle | Repeat => if bad_addr then 1 else 0
    | Sending a | Waiting a _ => if bad a then 1 else 0
    | Redirected _ _ | Locked _ _ => 1
    | Done _ => 0
    end.

  Definition weight (k : nat) (a : nat) (c : caller) : nat :=
    let bad := fun b => negb (serves_all k b) in
    own (bad a) bad (c_pc c) + (2 * k + 1) * pot (bad a) bad (c_pc c).

  Definition measure (s : st) : nat :=
    list_sum (List.map (weight (length (cs s)) (addr s)) (cs s)).

  (* ---- all interleavings, executably (used for the worked example; the driver of the
     extracted model explores with a visited set instead) ---- *)

  Definition labels (k : nat) : list label :=
    flat_map (fun i => [LSend i; LRUnlock i; LAnswer i; LLock i; LSkip i; LReconnect i]) (seq 0 k).

  Definition successors (s : st) : list st :=
    flat_map (fun l => match step s l with Some s' => [s'] | None => [] end) (labels (length (cs s))).
End Protocol.
